#!/venv/bin/python
"""Regenerates /verif/MANIFEST.json from the table below (kept in one place so the
claims, levels and not_applicable reasons stay consistent)."""

import json
import os

HERE = os.path.dirname(os.path.dirname(os.path.abspath(__file__)))

# property -> (design section, technique, level text, level note)
CLAIMS = {
    "C19": (
        "3/C19",
        "exhaustive path enumeration over the AST of the start-up functions (path-sensitive abstract walker), event-order specification, try-swallow analysis, call-graph reachability of the document-root memo from the start-up steps before the dropper",
        "All feasible paths of the privilege dropper and of initialize() are enumerated from the current source "
        "(2^k option combinations, callees inlined); each path's sequence of privileged calls is checked against the "
        "order the property states (bind+TLS keys < chroot < root:='/' & chdir < setgroups(()) < set*gid < set*uid, "
        "complete drops only, configured option implies the drop, failures propagate). The property is a statement "
        "about code shape on every path, so static path enumeration decides it completely.",
        "Trusted: CPython ast; the walker's three-valued evaluation; os.* privileged calls raise on failure; "
        "socketserver binds in the constructor; the kernel semantics of chroot/setre[ug]id.",
    ),
}

CLAIMS.update({
    "C01": (
        "3/C01",
        "forbidden-factor language extraction from the filter + minimal-witness decision; call-graph effect summaries; "
        "context-sensitive string-shape provenance of every file-system/exec path argument; path-sensitive gate analysis",
        "Structural clauses only: the accept language of the selector filter provably contains no climbing word; every "
        "handler is gated by filter-AND-test with short-circuit; nothing but stat happens before the gate; the one relaxed "
        "handler is file-system free; every FS/exec call site on the request path acts on root + accepted selector + safe "
        "suffix (content-derived selectors must be filtered); what the stat on the unfiltered selector found reaches only the "
        "handlers (no existence oracle in the multiplexer's reply); decoding happens only before handler selection; nothing "
        "request-derived is evaluated; real-file handlers refuse archive VFS objects. These are necessary conditions whose "
        "violation lets a request reach a path outside the root; byte-identity of responses (non-interference) is not decided.",
        "Trusted: POSIX path semantics; listdir never yields '.'/'..'; receiver-type table of resolve.py; executable content "
        "(.pyg, CGI, TAL) is administrator code and excluded; symlinks excluded by the property.",
    ),
    "C02": (
        "3/C02",
        "path-sensitive partial evaluation of every protocol test under the TLS-parity assumption; catch-all/ordering "
        "analysis of the shipped lists; guard-fact analysis of partial operations; structural analysis of the TLS sniff",
        "Decides: first-match-wins in configured order; no protocol accepts a connection of the wrong TLS parity; the tests "
        "are total (cannot raise on any line), pure and keep nothing between connections (memoised helpers return immutable values); the shipped lists end in a catch-all per parity with nothing dead "
        "behind it; the sniff peeks exactly one byte with MSG_PEEK, wraps iff it is 0x16, inside the worker, and the "
        "wrapped socket is what gets served; WAP auto-detection agrees with the header table the header reader builds (both "
        "evaluated on scripted header blocks). Which protocol wins for lines that nearly match several shapes is not decided.",
        "Trusted: socketserver keeps the accepted socket in self.request; ssl.SSLSocket is the type of wrapped sockets.",
    ),
    "C03": (
        "3/C03",
        "guard-fact analysis over all walker paths for request-tainted partial operations (index, unpack, int(), next(), "
        "urlparse, match.group) with accept-facts of the class's own test; try/handler structure of every handle(); "
        "typestate of status lines; effect summaries for persistent writes",
        "Necessary conditions only: every protocol handle() converts not-found and I/O errors from handler selection into "
        "its own error reply; status-line protocols write exactly one status and no body after an error; every "
        "request-derived partial operation on the request path is guarded on every path; handler lookup never falls "
        "through; the only persistent writes are the two cache files; mailbox/archive constructors' non-I/O errors are converted "
        "and none may create what a request names; partial operations on file content a handler parses are guarded too. "
        "Absence of all internal errors, bounded time and reply grammar are not decided.",
        "Trusted: Python exception "
        "semantics of the seven operation kinds; taint seeds (request line, selector, search string, rfile, entry getters).",
    ),
    "C16": (
        "3/C16",
        "interface-completeness check over the class hierarchy; effect summaries of the archive VFS; partial evaluation of "
        "handler tests under 'the VFS is an archive VFS'",
        "Structural clauses: every effectful VFS_Real method is overridden by the archive VFS and the overrides, the index "
        "builder and symlink resolution have no file-system effect (members come from the in-memory index only); every handler "
        "that hands getfspath() to a real-file API refuses archive VFS objects (evaluated against the real class hierarchy, so a "
        "vacuous isinstance test does not count); the inner chain is the ordinary multiplexer on the archive VFS. Equivalence "
        "with the extracted tree is not decided in general; stat() reports constant regular-file/directory modes; the index lookup is evaluated on a representative index (members, "
        "non-members, prefixes, directories; 4 lookup histories) so that members are found and non-members refused; the index builder makes a directory level only where it is missing (an explicit directory member after its children keeps them); every answer of the ZIP handler is the inner handler's.",
        "Trusted: zipfile.ZipFile methods act only on the already opened archive.",
    ),
})

CLAIMS.update({
    "C10": (
        "3/C10",
        "linear-form normalisation of the freshness comparison on every load path; partial evaluation under fromcache; "
        "event-order analysis (last mutation < savecache < return to the protocol) over prepare()+getdirlist() per class",
        "All four mechanisms the property rests on are code shapes: the cache is deserialised only under the strict inequality "
        "time.time() - mtime(cache file) < cachetime option (any algebraically equivalent spelling accepted, any other quantity "
        "or a non-strict operator rejected); fromcache is false unless the load succeeded and suppresses the rewrite; the entry "
        "list is pickled after its last mutation and before any renderer can touch it; the UMN merge/sort is skipped on a hit. "
        "Equality of cached and generated listings along histories is not decided.",
        "Trusted: time.time and stat semantics; the walker's loop unrolling (0,1,2 iterations).",
    ),
    "C11": (
        "3/C11",
        "effect-site enumeration of deserialisations + try/handler coverage (generator loaders: the guard must cover the materialisation) + failure-path walk",
        "Every load of a server-written cache (pickle.load of the directory cache, shelve.open(...,'r') of the ZIP index) is inside "
        "a try whose handlers cover every exception class a truncated or zero-filled file can raise, and the failure path "
        "regenerates without marking the data as cached (also when the flag had been set before the load); a dbm index is read "
        "completely under the guard and carries an entry count written last and compared on load. Because a pickle's only STOP opcode is its last byte, no proper prefix "
        "loads successfully, so this structural condition covers every truncation point - provided the writer starts from an empty file, which is checked (mode w/x, dbm flag n; no rewrite in place) and every hit path of the loader went through the unpickler.",
        "Trusted: CPython pickle framing.",
    ),
    "C12": (
        "3/C12",
        "may-raise summaries over the call graph + lexical containment of try blocks inside per-entry loops; partial evaluation "
        "of handler tests under a missing stat result",
        "In every loop over directory entries or over a collection the handler keeps about them (all classes of the DirHandler "
        "family, with their resolved hook overrides) each call "
        "that can raise FileNotFound or OSError for one entry is caught inside the loop body by a handler that lets the loop go on; "
        "the stat before handler selection is absorbed, no handler test subscripts a missing stat result, and handlers that open "
        "what they serve accept only regular files/directories (path-sensitive accept analysis of canhandlerequest); a loop over "
        "the entry collection does not change that collection; the isfile()/isdir()/exists() the guards rely on are evaluated for every kind of object (regular file, directory, FIFO, socket, devices, missing); handler selection fails with FileNotFound and nothing else.",
        "Trusted: the may-raise model (handler multiplexer raises FileNotFound; stat/open/listdir raise OSError; exists/isdir/isfile do not).",
    ),
    "C13": (
        "3/C13",
        "context-sensitive provenance analysis (trusted / escaped / quote-escaped / url-quoted / tainted / multi-line) with HTML "
        "lexical-context tracking over template literals; filter-language check for the redirect page",
        "Every operand interpolated into HTML/WML the server builds is html.escape'd (text) or quote-escaped/percent-encoded "
        "(double-quoted attribute); HTTP header lines interpolate only server-chosen values; the redirect page escapes its URL and "
        "its filter rejects quotes and control characters; Gopher+ attribute text is emitted line by line behind a one-space prefix; "
        "HTML titles and mail subjects are whitespace-collapsed before becoming names; what the HTML/WML renderers return is the "
        "markup they built (nothing transforms it after escaping). Since escaping is a property of the code "
        "path every datum takes, the provenance analysis decides it for all inputs.",
        "Trusted: html.escape / urllib.parse.quote semantics; configuration text (pagetopper, footer) is trusted markup; seeds of "
        "tainted fields (entry name/selector/host, request data, exception text).",
    ),
    "C20": (
        "3/C20",
        "try/handler structure analysis of the connection handler and server workers; guard facts for e.args indexing; "
        "resource-scoping classification of every acquisition site (with / factory / local / attribute+finally / refcount after cycle break)",
        "The connection handler catches I/O errors and Exception around protocol.handle(), logs them with the exception and protocol "
        "object, never re-raises; both servers wrap finish_request and shut the request down in a finally; the protocols' I/O-error "
        "replies do not index exception arguments; every file/archive/mailbox acquisition on the request path is scoped; the log "
        "line carries client address, protocol class and the exception's own class on every path of the logger, which keeps no "
        "state; error writers tolerate a None strerror; body writers let connection errors pass unchanged.",
        "Trusted: CPython reference counting closes a descriptor whose last reference dies; socketserver's handle_error/shutdown_request.",
    ),
})

CLAIMS.update({
    "C04": (
        "3/C04",
        "loop-body path enumeration of the copy routine; size-provenance typestate over getentry paths per handler class; "
        "partial evaluation of HTTP handle() under HEAD/GET; provenance of the MIME field",
        "Structural clauses: the copy loop opens the source 'rb' in a with, writes every chunk it read exactly once and "
        "unchanged and ends only on an empty read; every handler whose write() is not the verbatim copy (or pure delegation) "
        "leaves the entry's size unset and generated menus are announced with the unknown-length marker, so a Gopher+ length "
        "header can only be the stat size of bytes that are copied verbatim; HEAD reaches no body-producing call and sends the "
        "same header writes as GET; the advertised MIME type is adjust(entry.getmimetype()) and the entry's MIME fields hold "
        "only table/config/constant data; the error replies of a URL protocol carry the protocol's own error type. Equality of delivered bytes with file bytes and WML invertibility are not decided.",
        "Trusted: file read/write semantics; stat size = number of bytes a verbatim copy sends (no concurrent modification).",
    ),
    "C05": (
        "3/C05",
        "writer/reader agreement: codec parameters of each protocol's URL encoder vs. its request decoder; abstract evaluation "
        "(walker with constant folding) of the request parsers, the virtual-selector splitter and the WAP prefix test on "
        "representative targets; canonical message-sequence expressions of folder and message handlers",
        "Render/parse agreement only: each URL-based protocol percent-encodes local selectors with exactly the codec its request "
        "parser decodes with (one layer, safe characters exclude the parser's separators); the WAP prefix and Gemini query "
        "prefix are the same value on both sides; the virtual-selector separator emitted is one the parser splits on; child "
        "selectors are selectorbase/name resolved through the handler chain on the same VFS; folder handlers number and flag "
        "messages the way the message handlers parse them and both step through the same message sequence; the link target each "
        "protocol's renderer produces (evaluated for 12 selectors and the item types), fed to that protocol's request parser, gives "
        "the selector back; names taken from file content cannot shift the fields of a menu line; an archive's member table is read only by the index that also produces its listings. "
        "That every followed link succeeds is behavioural and not decided.",
        "Trusted: urllib quote/unquote are inverse for equal codec parameters.",
    ),
    "C06": (
        "3/C06",
        "who-defines check over the protocol hierarchy; loop-body path enumeration of the shared directory walk; "
        "must-pass-through (slashnormalize before handler selection); decode-parameter agreement; constant evaluation of the MIME adjusters",
        "Structural clauses: all protocols share one directory walk in which every entry is rendered by renderobjinfo and written "
        "exactly once, unconditionally; every selector reaching handler selection went through slashnormalize(), which yields a "
        "leading '/' on every path; every protocol decodes request text (percent-encoding, query strings, request bodies, the "
        "request line) as UTF-8 with surrogateescape; each protocol's adjust function maps the menu type to its own listing type "
        "and is total; link targets and default host/port are filled in the same way for every protocol and every rendered target "
        "percent-decodes to the entry's selector (evaluated on representative entries); handlers build entries without asking the "
        "protocol object anything. Equality of the rendered listings is not decided.",
        "Trusted: Python codec semantics.",
    ),
    "C07": (
        "3/C07",
        "event-order analysis (fill < sort < build); order-sensitivity summaries of loop bodies per concrete class; "
        "reachability of the ignore-pattern reader from handler tests; partial evaluation under 'name starts with a dot'; "
        "site agreement in the multiplexer (stat argument = selector handed to the handlers)",
        "Structural clauses: entries are built from a sorted name list; every loop over listdir() either iterates a sorted "
        "sequence or has an order-insensitive body for every concrete class (with its hook overrides); the ignore pattern is "
        "consulted only while listing; dot-files never enter the UMN listing; the comparator is pure and reads only name/number; "
        "a name is appended once, iff the filter accepted it (evaluated on a scripted directory); listdir returns the OS's names "
        "unchanged; the listing kept in the cache is the final one. Set equality with the directory contents is not decided.",
        "Trusted: list.sort is deterministic for strings.",
    ),
    "C08": (
        "3/C08",
        "abstract evaluation of the comparator on representatives of every order type; path enumeration of the merge loop per "
        "block type; structural rules for field override, .cap and Host=+/Port=+; abstract evaluation of the link-file reader "
        "on 12 scripted blocks",
        "Ordering: the comparator touches its arguments only through comparisons, so evaluating its body on representatives of "
        "all 25 x 3 order types of (num1, num2, 0) x (title1 ? title2) is exhaustive; results are checked against the documented "
        "bucket order and antisymmetry, and the final sort uses this comparator after the merge. Merge: per path of "
        "MergeLinkFiles's loop and block type (X, -, other) a block is appended once, merged into the walked entry, or hides it "
        "(idempotently); the selector index is not shrunk and nothing is dropped by selector text; mergeentries overrides only set "
        "fields (evaluated on model entries); every generated listing is merged and sorted; .cap Type=X/- hides, anything else overrides; Host=+/Port=+ leave the field unset; the link-file reader, evaluated "
        "on 12 scripted blocks (Path= forms, Host/Port +, Numb, Abstract continuation, comments), yields the documented entry. "
        "Link-file text outside these representatives is not decided.",
        "Trusted: the walker's constant folding of comparisons and integer arithmetic.",
    ),
    "C14": (
        "3/C14",
        "request-path reachability closure + global-write/in-place-mutation rules; path enumeration of the worker entry points "
        "with injected exceptions",
        "Race-freedom by construction: every module-level write reachable while serving is a guarded idempotent lazy "
        "initialisation from configuration; no in-place mutation of module-level, class-level, interpreter-wide or server-object "
        "state; protocol and handler objects are constructed per request and not stored in shared state; the header cache is per "
        "connection; the fork child always _exit()s, the parent records the child, closes its copy and returns; the thread worker "
        "reports errors and always shuts down, whichever call on the server object fails. Equality of concurrent and sequential responses under all interleavings is not decided.",
        "Trusted: CPython's GIL makes a single name rebinding atomic; cache-file sharing is covered by C11.",
    ),
    "C15": (
        "3/C15",
        "callee-resolution check (MRO-aware) for +INFO; dispatch-table totality; shared rules R04b and R13d; reader-shape check of the sidecar routine",
        "Structural clauses: +INFO is '+INFO: ' plus the output of the very function that renders plain Gopher menu lines; every "
        "advertised fixed block has its renderer and one block is added per extended attribute; the length prefix of a + request "
        "describes the body or is the unknown marker (R04b); attribute content lines carry the one-space prefix (R13d); sidecar "
        "files are read per configured extension in text mode, right-stripped and newline-joined (evaluated on scripted files); item "
        "information depends on no module- or class-level state and not on the protocol that asks. Sidecar line fidelity beyond "
        "that is not decided.",
        "Trusted: as for C04 and C13.",
    ),
    "C17": (
        "3/C17",
        "table agreement between compiler and interpreter (opcodes, tuple positions, save/restore field lists); path "
        "enumeration of every command handler; narrowed-attribute existence; sibling discriminator agreement",
        "Structural clause only ('every compiled program is structurally well-formed' and the order of operations): every opcode "
        "the compiler emits has an interpreter handler; opcode values follow the TAL order of operations and the commands on an "
        "element are sorted before emission; each handler jumps through the tuple position where the compiler stored the "
        "end-of-element symbol, which is defined right before the end-scope command; a scope is opened for every element that "
        "gets a symbol; pushed and restored state tuples agree field by field and contain every register nested code can change; "
        "every handler path moves the program counter; every pass of a repeat starts from the element's initial state; local "
        "variables are looked up innermost scope first. "
        "TALES expression semantics are decided on 62 representative expressions (alternation, exists/nocall/not/string, nothing/default, sub-paths) by evaluating Context.evaluate over a small constant context, and the content / condition / attributes / omit-tag commands on representative values (nothing, default, 0, empty and non-empty values) by evaluating their handlers; that every expansion equals the specification is not decided.",
        "Trusted: the list of TAL 1.4 operation priorities.",
    ),
    "C18": (
        "3/C18",
        "write-site classification with reachability under the structure flag; reachability of eval under the python-path flag; "
        "flag/pop pairing by partial evaluation",
        "Structural clauses: every interpreter write is template text, a tag whose attribute values are html.escape(quote=True)'d, "
        "or an html.escape'd result - a raw result only where the template asked for structure; with allowPythonPath false no "
        "eval/exec is reachable anywhere in simpletal, the flag is stored unchanged and the TAL handler passes the configured "
        "option; every pushLocals/addRepeat sets a flag that is saved per element and every popLocals/removeRepeat runs only under "
        "it, and the flags themselves are saved around a nested template run; the HTML compiler drives the parser it is built on (no mix-in shadows the parser interface, so buffered text is flushed). Pass-through fidelity in general, idempotence and context equality are not decided.",
        "Trusted: html.escape semantics; simpleTALUtils is not on the expansion path.",
    ),
})

CLAIMS["C09"] = (
    "9.6",
    "abstract evaluation (partial evaluation with constant folding, exact loops) of the handler's own line reader on scripted "
    "gophermap files, with entry objects modelled by the stores into them; return-shape check of getdirlist()",
    "Decided on representatives only: BuckGophermapHandler.prepare(), as written in the current source, is evaluated by the walker "
    "on a 14-line gophermap covering the documented line shapes (info line, blank line, text starting with '#', link with 1 to 4 "
    "fields, missing selector, absolute / relative / URL: selector, remote host with and without port, unparsable port) in three "
    "directories (a sub-directory, the root, a nested one) and with LF and CRLF line ends: the entry list has one entry per line, in "
    "file order, each with the documented type, description, selector, host and port; getinfoentry() gives a type-i entry; "
    "getdirlist() hands every protocol that list. Lines of other shapes, and what the protocols render from the entries (C06), are "
    "not decided. Nothing is run: the walker interprets the syntax tree on constants and refuses (reports) what it cannot fold.",
    "Trusted: the walker's folding of str/bytes methods, regular expressions, int() and list operations follows Python's semantics; "
    "the documented meaning of a line as written in doc/pygopherd.txt and doc/standards/gophermap.txt.",
)

NOT_APPLICABLE = {}

PENDING_REASON = "check not built yet in this revision (static rules designed in DESIGN.md section 3; will be claimed once the rule module exists)"

ALL = [f"C{i:02d}" for i in range(1, 21)]


# clauses added in the later rounds of seeded changes (appended to the level text of the claim)
LATER = {
    "C01": " Also: start-up rewrites the document root to '/' only where chroot has succeeded; content that passed the filter is "
           "looked up only when it also starts with '/' (root and selector are joined as text).",
    "C02": " Also: the connection handler shows the protocols the whole first line (no length bound).",
    "C08": " Also: sidecar lines end at the line feed only (sidecar reader evaluated).",
    "C13": " Also: data is never part of a format string that builds markup, nor the replacement template of a regular-expression "
           "substitution; no regex flag sits in a count position.",
    "C11": " Also: the cache file is written once per generated listing, after the last change. Also: nothing on the failure path of a cache load formats with request text as the format string.",
    "C05": " Also: WAP recognition followed by handle() takes the prefix off once (evaluated in that order); the protocols leave the file "
           "system to the handlers (no stat/exists/open, no file-system view of their own).",
    "C14": " Also: what a worker thread runs on the shared server object only reads it; class-level containers are not changed in place "
           "through instances; a dbm/shelve cache is written under a guard that covers a racing second writer.",
    "C03": " Also: the not-found exception's text is total (evaluated on selectors with % and braces); request text is never a format "
           "string. Also: request text kept in a table of the protocol (the header table) stays request text when read back; values parsed "
           "from it into date/number objects are ordered only under a guard.",
    "C04": " Also: document bytes reach the client through the response file object only (no fileno()/sendfile/os.write below "
           "the TLS layer); the MIME tables are asked about selectors, not bare names; a file is a mailbox only if its first line is an "
           "mbox envelope line (evaluated).",
    "C06": " Also: no program run for a request is read in text mode; a request body is read to its announced length; the search string reaches "
           "the handler as typed (Gemini and HTTP handle() evaluated); the HTML and WML row renderers return a row for every entry, "
           "typeless ones included (evaluated).",
    "C07": " Also: the ignore pattern is applied to the whole name from its start; link files are decoded like directory names; "
           "ordinary one-letter and dotted names pass the selector filter (evaluated); no set is iterated on the listing path; a dot-file the ignore pattern matches is not parsed as a link file.",
    "C09": " Also: which requests are rendered from a gophermap (directory holding one, regular *.gophermap file) is evaluated on "
           "stat/selector scenarios.",
    "C10": " Also: nothing touches the cache file's time stamp except a save.",
    "C12": " Also: the log routine used by the not-found exception is total on texts with format characters, and so is the exception's own text (evaluated); names bound in a try body are bound on every way out of its handlers.",
    "C15": " Also: entries are populated through the handler's own file-system view; the block of an empty or blank side file "
           "is rendered (getblock evaluated with the real accessors); +VIEWS carries the size whenever it is known, zero included (evaluated).",
    "C16": " Also: the member path is what follows the archive's selector, once (evaluated). Also: entries inside an archive are populated through the archive view; members are opened by the name the index "
           "gave, not by the request path; the archive view keeps no module-level tables between requests.",
    "C17": " Also: tal:define statements are evaluated in order, each local unless it says global (compiler evaluated); a path step the value does not have is a missing path (evaluated); slot fillers are cleared after the expansion they were given to.",
    "C18": " Also: attribute values are taken as html.parser hands them over on every interpreter from 3.7 on (version test and "
           "start-tag callback evaluated for nine interpreter versions); the scope stack is popped only after the element's locals.",
    "C19": " Also: no privileged call sits in a with block whose manager can swallow an exception (suppress, ExitStack callbacks "
           "that can return true, repo managers); a failed bind propagates and nothing binds later; the switches that decide a privilege step are parsed by getboolean().",
    "C20": " Also: the except clauses of the connection handler only report (nothing there calls back into protocol or handlers). Also: no context manager of the server swallows what is raised in its block; the connection handler's output file is "
           "unbuffered or flushed inside its try, so a write error cannot surface in finish(); SIGPIPE stays ignored.",
}


def main():
    checks = []
    for pid in ALL:
        if pid not in CLAIMS:
            continue
        ref, technique, text, note = CLAIMS[pid]
        text = text + LATER.get(pid, "")
        checks.append({
            "property_id": pid,
            "quick_cmd": f"/venv/bin/python -m pgv check {pid} --tier quick",
            "thorough_cmd": f"/venv/bin/python -m pgv check {pid} --tier thorough",
            "evidence_file": f"/verif/evidence/{pid}.json",
            "replay_cmd_template": "/venv/bin/python -m pgv replay {path}",
            "engine": "pgv",
            "level_claimed": {"category": "other", "text": text, "design_ref": f"DESIGN.md section {ref}"},
            "level_note": note,
            "technique": "static analysis: " + technique,
        })
    na = []
    for pid in ALL:
        if pid in CLAIMS:
            continue
        na.append({"property_id": pid, "reason": NOT_APPLICABLE.get(pid, PENDING_REASON)})
    manifest = {
        "version": 1,
        "setup_cmd": "/venv/bin/python -m compileall -q /verif/pgv",
        "hooks": {
            "guard": "PYGOPHERD_VERIF",
            "enable": "none: the checks are static (they parse /repo's sources and never import or run them), so no hooks or instrumentation exist",
            "baseline_off_cmd": "cd /repo && /venv/bin/python -m pytest -ra -q -p no:cacheprovider --timeout=900 --continue-on-collection-errors",
            "source_commits": [],
            "add_only": True,
        },
        "engines": [{
            "name": "pgv",
            "path": "/verif/pgv",
            "serves_properties": sorted(CLAIMS),
            "kind_free_text": "repository-specific static analyser (stdlib ast): program model with MRO and call resolution, "
                              "path-sensitive abstract walker, effect summaries, provenance analysis, string-language reasoning",
        }],
        "checks": checks,
        "notes": "All checks are static analyses of /repo's current working tree (python -m pgv, cwd=/verif). Exit 0 = all "
                 "obligations discharged; exit 1 + VIOLATION line = a rule reports a construct; exit 2 = ANALYSIS-ERROR "
                 "(the analyser itself failed). Genuine defects found and repaired are listed in /verif/known_findings.json.",
        "not_applicable": na,
    }
    with open(os.path.join(HERE, "MANIFEST.json"), "w") as fp:
        json.dump(manifest, fp, indent=1)
        fp.write("\n")


if __name__ == "__main__":
    main()
