#!/venv/bin/python
"""Regenerates /verif/MANIFEST.json from the table below (kept in one place so the
claims, levels and not_applicable reasons stay consistent)."""

import json
import os

HERE = os.path.dirname(os.path.dirname(os.path.abspath(__file__)))

# property -> (design section, technique, level text, level note)
CLAIMS = {
    "C19": (
        "3/C19",
        "exhaustive path enumeration over the AST of the start-up functions (path-sensitive abstract walker), event-order specification, try-swallow analysis",
        "All feasible paths of the privilege dropper and of initialize() are enumerated from the current source "
        "(2^k option combinations, callees inlined); each path's sequence of privileged calls is checked against the "
        "order the property states (bind+TLS keys < chroot < root:='/' & chdir < setgroups(()) < set*gid < set*uid, "
        "complete drops only, configured option implies the drop, failures propagate). The property is a statement "
        "about code shape on every path, so static path enumeration decides it completely.",
        "Trusted: CPython ast; the walker's three-valued evaluation; os.* privileged calls raise on failure; "
        "socketserver binds in the constructor; the kernel semantics of chroot/setre[ug]id.",
    ),
}

NOT_APPLICABLE = {
    "C09": "input/output relation of the gophermap line parser against a reference reading of the file; no structural "
           "invariant short of re-implementing (i.e. running) the parser - static analysis cannot decide it (DESIGN.md section 4)",
}

PENDING_REASON = "check not built yet in this revision (static rules designed in DESIGN.md section 3; will be claimed once the rule module exists)"

ALL = [f"C{i:02d}" for i in range(1, 21)]


def main():
    checks = []
    for pid in ALL:
        if pid not in CLAIMS:
            continue
        ref, technique, text, note = CLAIMS[pid]
        checks.append({
            "property_id": pid,
            "quick_cmd": f"/venv/bin/python -m pgv check {pid} --tier quick",
            "thorough_cmd": f"/venv/bin/python -m pgv check {pid} --tier thorough",
            "evidence_file": f"/verif/evidence/{pid}.json",
            "replay_cmd_template": "/venv/bin/python -m pgv replay {path}",
            "engine": "pgv",
            "level_claimed": {"category": "other", "text": text, "design_ref": f"DESIGN.md section {ref}"},
            "level_note": note,
            "technique": "static analysis: " + technique,
        })
    na = []
    for pid in ALL:
        if pid in CLAIMS:
            continue
        na.append({"property_id": pid, "reason": NOT_APPLICABLE.get(pid, PENDING_REASON)})
    manifest = {
        "version": 1,
        "setup_cmd": "/venv/bin/python -m compileall -q /verif/pgv",
        "hooks": {
            "guard": "PYGOPHERD_VERIF",
            "enable": "none: the checks are static (they parse /repo's sources and never import or run them), so no hooks or instrumentation exist",
            "baseline_off_cmd": "cd /repo && /venv/bin/python -m pytest -ra -q -p no:cacheprovider --timeout=900 --continue-on-collection-errors",
            "source_commits": [],
            "add_only": True,
        },
        "engines": [{
            "name": "pgv",
            "path": "/verif/pgv",
            "serves_properties": sorted(CLAIMS),
            "kind_free_text": "repository-specific static analyser (stdlib ast): program model with MRO and call resolution, "
                              "path-sensitive abstract walker, effect summaries, provenance analysis, string-language reasoning",
        }],
        "checks": checks,
        "notes": "All checks are static analyses of /repo's current working tree (python -m pgv, cwd=/verif). Exit 0 = all "
                 "obligations discharged; exit 1 + VIOLATION line = a rule reports a construct; exit 2 = ANALYSIS-ERROR "
                 "(the analyser itself failed). Genuine defects found and repaired are listed in /verif/known_findings.json.",
        "not_applicable": na,
    }
    with open(os.path.join(HERE, "MANIFEST.json"), "w") as fp:
        json.dump(manifest, fp, indent=1)
        fp.write("\n")


if __name__ == "__main__":
    main()
