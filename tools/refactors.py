#!/venv/bin/python
"""Run every stored behaviour-preserving refactoring (/verif/seeded/benign/<set>/rN.diff) through all quick checks.

Each patch is applied to a private copy of /repo's working tree under a temporary directory (PGV_REPO points the
checks at it), so the runs are independent and go in parallel; /repo itself is never touched.  A patch that no longer
applies (the lines it touches were changed by a later fix) is reported as such.  Any VIOLATION is a false alarm.

usage: tools/refactors.py [set ...]        e.g. tools/refactors.py C04-r C11-r
"""

import os
import shutil
import subprocess
import sys
import tempfile
from concurrent.futures import ThreadPoolExecutor

HERE = os.path.dirname(os.path.dirname(os.path.abspath(__file__)))
BENIGN = os.path.join(HERE, "seeded", "benign")


def run_one(item):
    label, patch = item
    tmp = tempfile.mkdtemp(prefix="pgv-refactor-")
    try:
        dst = os.path.join(tmp, "repo")
        subprocess.run(["git", "-C", "/repo", "worktree", "list"], capture_output=True)
        shutil.copytree("/repo", dst, ignore=shutil.ignore_patterns(".git", "__pycache__", ".pytest_cache", "*.pyc", ".cache.pygopherd*"))
        subprocess.run(["git", "init", "-q"], cwd=dst, capture_output=True)
        r = subprocess.run(["git", "apply", patch], cwd=dst, capture_output=True)
        if r.returncode:
            return label, "does not apply", []
        env = dict(os.environ, PGV_REPO=dst)
        out = subprocess.run(["/venv/bin/python", "-m", "pgv", "all", "--no-write"], cwd=HERE, env=env, capture_output=True, text=True).stdout
        alarms = []
        lines = out.splitlines()
        for i, l in enumerate(lines):
            if l.startswith("  rule="):
                alarms.append(l.strip()[:160] + " :: " + (lines[i + 1].strip()[:200] if i + 1 < len(lines) else ""))
            if l.startswith("ANALYSIS-ERROR"):
                alarms.append(l)
        return label, "ran", alarms
    finally:
        shutil.rmtree(tmp, ignore_errors=True)


def main():
    sets = sys.argv[1:] or sorted(d for d in os.listdir(BENIGN) if os.path.isdir(os.path.join(BENIGN, d)))
    items = []
    for s in sets:
        d = os.path.join(BENIGN, s)
        for f in sorted(os.listdir(d)):
            if f.endswith(".diff"):
                items.append((f"{s}/{f[:-5]}", os.path.join(d, f)))
    bad = 0
    with ThreadPoolExecutor(max_workers=min(14, os.cpu_count() or 4)) as ex:
        for label, status, alarms in ex.map(run_one, items):
            if status != "ran":
                print(f"{label}: {status}")
            elif alarms:
                bad += 1
                print(f"{label}: FALSE ALARM")
                for a in alarms[:6]:
                    print("    " + a)
    print(f"{len(items)} refactorings, {bad} with alarms")
    return 1 if bad else 0


if __name__ == "__main__":
    sys.exit(main())
