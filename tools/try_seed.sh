#!/bin/bash
# usage: try_seed.sh <worktree dir> <seed id> <property>
# 1. confirms the seeded change in its scratch worktree (demo fails with it, passes without it, suite unchanged)
# 2. applies it to /repo, runs every quick check, undoes it
# 3. stores patch/demo/meta under /verif/seeded/<id>/
set -u
WT=$1; ID=$2; PROP=$3
cd "$WT" || exit 2
git diff -- . ':(exclude)_seed' > /tmp/seed_$ID.diff
[ -s /tmp/seed_$ID.diff ] || { echo "empty patch"; exit 2; }
echo "== demo with change"; timeout 120 /venv/bin/python _seed/demo.py > /tmp/seed_$ID.with.log 2>&1; W=$?
if grep -q "Address already in use" /tmp/seed_$ID.with.log; then sleep 3; timeout 120 /venv/bin/python _seed/demo.py > /tmp/seed_$ID.with.log 2>&1; W=$?; fi
echo "exit $W"; tail -3 /tmp/seed_$ID.with.log
echo "== tests with change"; T=$(/venv/bin/python -m pytest -q -p no:cacheprovider 2>&1 | tail -1); echo "$T"
git apply -R /tmp/seed_$ID.diff || { echo "cannot revert"; exit 2; }
echo "== demo without change"; timeout 120 /venv/bin/python _seed/demo.py > /tmp/seed_$ID.without.log 2>&1; WO=$?
if [ $WO -ne 0 ] && grep -q "Address already in use" /tmp/seed_$ID.without.log; then sleep 3; timeout 120 /venv/bin/python _seed/demo.py > /tmp/seed_$ID.without.log 2>&1; WO=$?; fi
echo "exit $WO"; tail -2 /tmp/seed_$ID.without.log
git apply /tmp/seed_$ID.diff
cd /repo || exit 2
git status --short | grep -v '^??' && { echo "/repo dirty"; exit 2; }
git apply /tmp/seed_$ID.diff || { echo "patch does not apply to /repo"; exit 2; }
cd /verif
RES=$(/venv/bin/python -m pgv all --no-write 2>&1)
git -C /repo checkout -- .
echo "== checks on /repo with the change"
echo "$RES" | grep "^C[0-9].*violations=[1-9]\|^VIOLATION\|ANALYSIS" | head -20
echo "$RES" | grep -A2 "^VIOLATION" | grep "rule=" | head -8
CAUGHT=$(echo "$RES" | grep "^C[0-9].*violations=[1-9]" | awk '{print $1}' | tr '\n' ' ')
mkdir -p /verif/seeded/$ID
cp /tmp/seed_$ID.diff /verif/seeded/$ID/patch.diff
cp "$WT/_seed/demo.py" /verif/seeded/$ID/demo.py
[ -f "$WT/_seed/README.md" ] && cp "$WT/_seed/README.md" /verif/seeded/$ID/README.md
RULES=$(echo "$RES" | grep -A1 "^VIOLATION" | grep "rule=" | sed 's/^ *//' | cut -c1-160 | head -6 | python3 -c "import sys,json; print(json.dumps([l.strip() for l in sys.stdin]))")
cat > /verif/seeded/$ID/meta.json <<META
{
 "id": "$ID",
 "property": "$PROP",
 "source": "independent sub-agent given only the property text and a scratch worktree",
 "confirmed": {"demo_exit_with_change": $W, "demo_exit_without_change": $WO, "tests_with_change": "$T"},
 "ran": "tools/try_seed.sh: demo with/without the change in the scratch worktree, pytest with the change, then git apply to /repo + python -m pgv all --no-write + git checkout",
 "caught_by": "$CAUGHT",
 "reports": $RULES
}
META
echo "caught_by: $CAUGHT"
