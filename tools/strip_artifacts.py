#!/venv/bin/python
"""Remove hunks for files the test suite leaves behind (testdata/...) from stored refactoring patches."""
import re
import sys

for path in sys.argv[1:]:
    raw = open(path, "rb").read()
    parts = re.split(rb"(?m)^(?=diff --git )", raw)
    keep = [p for p in parts if not re.match(rb'diff --git "?a/testdata/', p)]
    out = b"".join(keep)
    if out != raw:
        open(path, "wb").write(out)
        print("stripped", path)
