#!/bin/bash
# usage: try_patch.sh <patch file> [Cxx ...]   apply to /repo, run the named checks (default: all), revert
P=$1; shift
cd /repo || exit 2
git status --short | grep -v '^??' && { echo "/repo dirty"; exit 2; }
git apply "$P" || exit 2
cd /verif
if [ $# -eq 0 ]; then /venv/bin/python -m pgv all --no-write 2>&1 | grep -v "^VIOLATION" | grep -B0 -A3 "violations=[1-9]\|ANALYSIS\|^  rule=" | cut -c1-400
else for c in "$@"; do /venv/bin/python -m pgv check $c --no-write 2>&1 | grep -v "^VIOLATION" | cut -c1-600; done; fi
git -C /repo checkout -- .
