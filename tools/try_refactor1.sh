#!/bin/bash
# usage: try_refactor1.sh <set>/<rN> [Cxx ...]   one stored refactoring on a private copy, named checks (default all)
P=/verif/seeded/benign/$1.diff; shift
T=$(mktemp -d /tmp/pgv-r1-XXXX)
cp -r /repo $T/repo; rm -rf $T/repo/.git
( cd $T/repo && git init -q . && git apply "$P" ) || { echo "does not apply"; rm -rf $T; exit 2; }
cd /verif
if [ $# -eq 0 ]; then PGV_REPO=$T/repo /venv/bin/python -m pgv all --no-write 2>&1 | grep -v "^VIOLATION" | grep -A1 "^  rule=\|ANALYSIS" | cut -c1-500
else for c in "$@"; do PGV_REPO=$T/repo /venv/bin/python -m pgv check $c --no-write 2>&1 | grep -v "^VIOLATION" | cut -c1-700; done; fi
rm -rf $T
