#!/venv/bin/python
"""Re-run every registered quick check against each stored seeded change
(/verif/seeded/<id>/patch.diff) and rewrite /verif/seeded/INDEX.md.

For each seed: git -C /repo apply <patch>; python -m pgv all --no-write; git -C /repo checkout -- .
Nothing is ever committed to /repo.  Usage: tools/seeds.py [id ...]
"""

import json
import os
import re
import subprocess
import sys

HERE = os.path.dirname(os.path.dirname(os.path.abspath(__file__)))
SEEDED = os.path.join(HERE, "seeded")


def sh(cmd, **kw):
    return subprocess.run(cmd, shell=True, capture_output=True, text=True, **kw)


def main():
    ids = sys.argv[1:] or sorted(d for d in os.listdir(SEEDED) if os.path.isfile(os.path.join(SEEDED, d, "patch.diff")))
    dirty = sh("git -C /repo status --short | grep -v '^??'").stdout.strip()
    if dirty:
        print("/repo has uncommitted changes, refusing:\n" + dirty)
        return 2
    rows = []
    for sid in ids:
        d = os.path.join(SEEDED, sid)
        patch = os.path.join(d, "patch.diff")
        meta_path = os.path.join(d, "meta.json")
        meta = json.load(open(meta_path)) if os.path.exists(meta_path) else {"id": sid}
        r = sh(f"git -C /repo apply {patch}")
        if r.returncode:
            print(f"{sid}: patch does not apply: {r.stderr.strip()[:200]}")
            meta["caught_by"] = "patch does not apply to the current /repo"
        else:
            try:
                out = sh(f"cd {HERE} && /venv/bin/python -m pgv all --no-write").stdout
            finally:
                sh("git -C /repo checkout -- .")
            caught = re.findall(r"^(C\d+) \[quick\].*violations=[1-9]", out, re.M)
            errors = re.findall(r"^ANALYSIS-ERROR.*", out, re.M)
            reports = [l.strip()[:200] for l in re.findall(r"^  rule=.*", out, re.M)][:8]
            meta["caught_by"] = " ".join(caught)
            meta["reports"] = reports
            if errors:
                meta["analysis_errors"] = errors
            print(f"{sid}: property {meta.get('property')} caught_by=[{meta['caught_by']}] {'; '.join(r.split(' at ')[0] for r in reports[:2])}")
        json.dump(meta, open(meta_path, "w"), indent=1)
    # index
    lines = ["# Seeded changes (written by independent sub-agents from the property text alone)", "",
             "Each was confirmed in a scratch worktree (demo fails with the change, passes without it, suite unchanged: see meta.json)",
             "and then applied to /repo only for the duration of one `python -m pgv all` run.", "",
             "| seed | property | what the change is | needs to manifest | caught by | first report |", "|---|---|---|---|---|---|"]
    for sid in sorted(os.listdir(SEEDED)):
        mp = os.path.join(SEEDED, sid, "meta.json")
        if not os.path.exists(mp):
            continue
        m = json.load(open(mp))
        own = m.get("property", "")
        caught = m.get("caught_by", "").split()
        verdict = "**" + " ".join(caught) + "**" if caught else "not caught"
        if caught and own not in caught:
            verdict += f" (not by {own} itself)"
        rep = (m.get("reports") or [""])[0].replace("|", "\\|")[:140]
        lines.append(f"| {sid} | {own} | {m.get('what', '').replace('|', '/')} | {m.get('needs', '').replace('|', '/')} | {verdict} | {rep} |")
    open(os.path.join(SEEDED, "INDEX.md"), "w").write("\n".join(lines) + "\n")
    return 0


if __name__ == "__main__":
    sys.exit(main())
