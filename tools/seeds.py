#!/venv/bin/python
"""Re-run every registered quick check against each stored seeded change
(/verif/seeded/<id>/patch.diff) and rewrite /verif/seeded/INDEX.md.

Each patch is applied to a private copy of /repo's working tree (PGV_REPO points the checks at the copy), so the runs go
in parallel and /repo itself is never touched.  Usage: tools/seeds.py [id ...]
"""

import json
import os
import re
import subprocess
import sys

HERE = os.path.dirname(os.path.dirname(os.path.abspath(__file__)))
SEEDED = os.path.join(HERE, "seeded")


def sh(cmd, **kw):
    return subprocess.run(cmd, shell=True, capture_output=True, text=True, **kw)


def run_one(sid):
    """Apply one stored seed to a private copy of /repo and run every quick check on the copy."""
    import shutil
    import tempfile

    d = os.path.join(SEEDED, sid)
    patch = os.path.join(d, "patch.diff")
    tmp = tempfile.mkdtemp(prefix="pgv-seed-")
    try:
        dst = os.path.join(tmp, "repo")
        shutil.copytree("/repo", dst, ignore=shutil.ignore_patterns(".git", "__pycache__", ".pytest_cache", "*.pyc", ".cache.pygopherd*"))
        sh("git init -q", cwd=dst)
        r = sh(f"git apply {patch}", cwd=dst)
        if r.returncode:
            return sid, None, r.stderr.strip()[:200]
        out = subprocess.run(["/venv/bin/python", "-m", "pgv", "all", "--no-write"], cwd=HERE, env=dict(os.environ, PGV_REPO=dst),
                             capture_output=True, text=True).stdout
        return sid, out, ""
    finally:
        shutil.rmtree(tmp, ignore_errors=True)


def main():
    from concurrent.futures import ThreadPoolExecutor

    ids = sys.argv[1:] or sorted(d for d in os.listdir(SEEDED) if os.path.isfile(os.path.join(SEEDED, d, "patch.diff")))
    with ThreadPoolExecutor(max_workers=min(14, os.cpu_count() or 4)) as ex:
        results = list(ex.map(run_one, ids))
    for sid, out, err in results:
        meta_path = os.path.join(SEEDED, sid, "meta.json")
        meta = json.load(open(meta_path)) if os.path.exists(meta_path) else {"id": sid}
        if out is None:
            print(f"{sid}: patch does not apply: {err}")
            meta["caught_by"] = "patch does not apply to the current /repo"
        else:
            caught = re.findall(r"^(C\d+) \[quick\].*violations=[1-9]", out, re.M)
            errors = re.findall(r"^ANALYSIS-ERROR.*", out, re.M)
            reports = [l.strip()[:200] for l in re.findall(r"^  rule=.*", out, re.M)][:8]
            meta["caught_by"] = " ".join(caught)
            meta["reports"] = reports
            if errors:
                meta["analysis_errors"] = errors
            print(f"{sid}: property {meta.get('property')} caught_by=[{meta['caught_by']}] {'; '.join(r.split(' at ')[0] for r in reports[:2])}")
        json.dump(meta, open(meta_path, "w"), indent=1)
    # index
    lines = ["# Seeded changes (written by independent sub-agents from the property text alone)", "",
             "Each was confirmed in a scratch worktree (demo fails with the change, passes without it, suite unchanged: see meta.json)",
             "and then applied to /repo only for the duration of one `python -m pgv all` run.", "",
             "| seed | property | what the change is | needs to manifest | caught by | first report |", "|---|---|---|---|---|---|"]
    for sid in sorted(os.listdir(SEEDED)):
        mp = os.path.join(SEEDED, sid, "meta.json")
        if not os.path.exists(mp):
            continue
        m = json.load(open(mp))
        own = m.get("property", "")
        caught = m.get("caught_by", "").split()
        verdict = "**" + " ".join(caught) + "**" if caught else "not caught"
        if caught and own not in caught:
            verdict += f" (not by {own} itself)"
        rep = (m.get("reports") or [""])[0].replace("|", "\\|")[:140]
        lines.append(f"| {sid} | {own} | {m.get('what', '').replace('|', '/')} | {m.get('needs', '').replace('|', '/')} | {verdict} | {rep} |")
    open(os.path.join(SEEDED, "INDEX.md"), "w").write("\n".join(lines) + "\n")
    return 0


if __name__ == "__main__":
    sys.exit(main())
