#!/bin/bash
# usage: try_refactor.sh <worktree dir> <label>
# applies each _seed/rN.diff (a behaviour-preserving refactoring written by an independent agent) to /repo,
# runs every quick check, reverts; any VIOLATION is a false alarm to investigate.
WT=$1; LABEL=$2
cd /repo || exit 2
git status --short | grep -v '^??' && { echo "/repo dirty"; exit 2; }
mkdir -p /verif/seeded/benign/$LABEL
for p in "$WT"/_seed/r*.diff; do
  [ -s "$p" ] || continue
  n=$(basename "$p" .diff)
  if ! git apply "$p" 2>/tmp/refactor_err; then echo "$LABEL/$n: does not apply ($(head -1 /tmp/refactor_err))"; continue; fi
  T=$(/venv/bin/python -m pytest -q -p no:cacheprovider -q 2>&1 | tail -1)
  RES=$(cd /verif && /venv/bin/python -m pgv all --no-write 2>&1)
  git checkout -- .; git clean -fdq -- pygopherd simpletal bin conf
  BAD=$(echo "$RES" | grep "^C[0-9].*violations=[1-9]\|ANALYSIS" | awk '{print $1}' | tr '\n' ' ')
  echo "$LABEL/$n: tests[$T] alarms=[$BAD]"
  echo "$RES" | grep -A2 "^VIOLATION" | grep "rule=\|^  [a-zA-Z]" | head -6 | cut -c1-260
  cp "$p" /verif/seeded/benign/$LABEL/$n.diff
done
[ -f "$WT/_seed/README.md" ] && cp "$WT/_seed/README.md" /verif/seeded/benign/$LABEL/README.md
