#!/venv/bin/python
"""Reproductions of the genuine defects found by the static checks (D1..).

NOT part of any registered check (the checks are static and never run repository
code).  This script drives the real code once per defect to show the failing input;
it was run before and after each `fix:` commit.  Usage:

    cd /repo && /venv/bin/python /verif/notes/repro/repro.py [D1 D2 ...]

Prints `<id> DEFECT <what>` when the defect manifests, `<id> ok` otherwise.
Scratch trees are created under a temporary directory and removed.
"""

import gc
import io
import os
import shutil
import socket
import sys
import tempfile
import warnings
import zipfile

warnings.simplefilter("ignore")
REPO = os.environ.get("PGV_REPO", "/repo")
sys.path.insert(0, REPO)
os.chdir(REPO)

from pygopherd import initialization, logger, testutil  # noqa: E402


class W(io.BytesIO):
    final = b""

    def close(self):
        self.final = self.getvalue()
        super().close()


def make_config(root=None, conf="conf/local.conf", **opts):
    config = initialization.init_config(os.path.join(REPO, conf))
    config.set("pygopherd", "root", root or os.path.join(REPO, "testdata"))
    config.set("logger", "logmethod", "none")
    for k, v in opts.items():
        sec, _, opt = k.rpartition("__")
        config.set(sec.replace("__", "."), opt, v)
    logger.init(config)
    initialization.init_mimetypes(config)
    return config


LOG = []


def capture_log():
    LOG.clear()
    logger.log = lambda m: LOG.append(m)


def request(line: bytes, config=None, tls=False, wfile=None):
    import pygopherd.handlers.HandlerMultiplexer as HM
    import pygopherd.handlers.base as HB
    import pygopherd.gopherentry as GE
    import pygopherd.handlers.UMN as UMN

    HM.handlers = None
    HM.rootpath = None
    HB.rootpath = None
    GE.mapping = None
    GE.eaexts = None
    UMN.extstrip = None
    config = config or make_config()
    capture_log()
    w = wfile or W()
    h = testutil.get_testing_handler(io.BytesIO(line), w, config, use_tls=tls)
    escaped = None
    try:
        h.handle()
    except BaseException as e:  # noqa
        escaped = e
    final = getattr(w, "final", b"")
    if not final and hasattr(w, "getvalue") and not w.closed:
        final = w.getvalue()
    return final, escaped, list(LOG)


def had_exception(log, name=None):
    return [l for l in log if "EXCEPTION" in l and (name is None or name in l) and "FileNotFound" not in l]


def d1():
    out, esc, log = request(b"/x\t\r\n")
    return (not out) or bool(had_exception(log)), f"reply={out!r} log={had_exception(log)}"


def d2():
    out, esc, log = request(b"gemini://[::1/\r\n", tls=True)
    return (not out) or bool(had_exception(log)), f"reply={out!r} log={had_exception(log)}"


def d3():
    out, esc, log = request(b"/python-dev.mbox|/MBOX-MESSAGE/9999\r\n")
    return (not out) or bool(had_exception(log)), f"reply={out!r} log={had_exception(log)}"


def d4():
    class Failing(W):
        n = 0

        def write(self, data):
            Failing.n += 1
            if Failing.n == 2:
                raise socket.timeout("timed out")
            return super().write(data)

    bad = []
    for line, tls in ((b"/testfile.txt\t+\r\n", False), (b"GET /testfile.txt HTTP/1.0\r\n\r\n", False)):
        Failing.n = 0
        out, esc, log = request(line, tls=tls, wfile=Failing())
        if any("IndexError" in l for l in log):
            bad.append(line)
    return bool(bad), f"timeout logged as IndexError for {bad}"


def with_tree(fn):
    d = tempfile.mkdtemp(prefix="pgvrepro")
    try:
        return fn(d)
    finally:
        shutil.rmtree(d, ignore_errors=True)


def d5():
    def run(d):
        os.mkdir(os.path.join(d, "dir"))
        for n in ("a.txt", "b.txt"):
            open(os.path.join(d, "dir", n), "w").write("x")
        cfg = make_config(root=d, conf="conf/pygopherd.conf")
        cfg.set("handlers.dir.DirHandler", "cachetime", "180")
        out1, _, _ = request(b"/dir\r\n", cfg)
        cache = os.path.join(d, "dir", ".cache.pygopherd.dir")
        data = open(cache, "rb").read()
        open(cache, "wb").write(data[: len(data) // 2])
        out2, esc, log = request(b"/dir\r\n", cfg)
        return out2 != out1, f"after truncation reply={out2[:60]!r} log={had_exception(log)}"

    return with_tree(run)


def d6():
    def run(d):
        os.mkdir(os.path.join(d, "dir"))
        open(os.path.join(d, "dir", "good.txt"), "w").write("x")
        os.symlink("/nonexistent-target", os.path.join(d, "dir", "dangling"))
        open(os.path.join(d, "dir", "a..b"), "w").write("x")
        cfg = make_config(root=d, conf="conf/pygopherd.conf")
        cfg.set("handlers.dir.DirHandler", "cachetime", "0")
        out, esc, log = request(b"/dir\r\n", cfg)
        return b"good.txt" not in out, f"reply={out[:80]!r}"

    return with_tree(run)


def d7():
    def run(d):
        os.mkdir(os.path.join(d, "m"))
        open(os.path.join(d, "m", "gophermap"), "wb").write(b'hEvil\tURL:http://x/"><script>alert(1)</script>\n')
        cfg = make_config(root=d, conf="conf/pygopherd.conf")
        out, esc, log = request(b"GET /m HTTP/1.0\r\n\r\n", cfg)
        return b'"><script>' in out, f"raw payload in page: {b'<script>' in out}"

    return with_tree(run)


def d9():
    def run(d):
        os.mkdir(os.path.join(d, "root"))
        shutil.copy(os.path.join(REPO, "testdata", "testdata.zip"), os.path.join(d, "root", "testdata.zip"))
        os.makedirs(os.path.join(d, "cwd", "testdata"))
        open(os.path.join(d, "cwd", "testdata", "python-dev.mbox"), "w").write(
            "From a@b Thu Jan  1 00:00:00 1970\nSubject: x\n\nCWD-SECRET-OUTSIDE-ROOT\n")
        cfg = make_config(root=os.path.join(d, "root"))
        cfg.set("handlers.HandlerMultiplexer", "handlers",
                "[ZIP.ZIPHandler, mbox.MBoxMessageHandler, mbox.MBoxFolderHandler, UMN.UMNDirHandler, file.FileHandler]")
        old = os.getcwd()
        os.chdir(os.path.join(d, "cwd"))
        try:
            out, esc, log = request(b"/testdata.zip/testdata/python-dev.mbox|/MBOX-MESSAGE/1\r\n", cfg)
        finally:
            os.chdir(old)
        return b"CWD-SECRET-OUTSIDE-ROOT" in out, "a mailbox in the process working directory (outside the root) was served"

    return with_tree(run)


def d10():
    out, esc, log = request(b"/talsample.html.tal\t+\r\n")
    first, _, body = out.partition(b"\r\n")
    bad = first.startswith(b"+") and first[1:].isdigit() and int(first[1:]) != len(body)
    return bad, f"header {first!r} body bytes {len(body)}"


def d11():
    def run(d):
        os.mkdir(os.path.join(d, "root"))
        script = os.path.join(d, "root", "echo.sh")
        open(script, "w").write("#!/bin/sh\nprintf '%s' \"$SEARCHREQUEST\" | od -An -tx1\n")
        os.chmod(script, 0o755)
        cfg = make_config(root=os.path.join(d, "root"))

        def ask(line, name):
            path = os.path.join(d, name)
            fp = open(path, "w+b")
            request(line, cfg, wfile=fp)
            return open(path, "rb").read()

        a = ask(b"/echo.sh\t\xae\r\n", "out1")
        b = ask(b"GET /echo.sh?searchrequest=%AE HTTP/1.0\r\n\r\n", "out2").split(b"\r\n\r\n", 1)[-1]
        return a.strip() != b.strip(), f"gopher={a.strip()!r} http={b.strip()!r}"

    return with_tree(run)


def d12():
    def run(d):
        os.mkdir(os.path.join(d, "dir"))
        open(os.path.join(d, "dir", "f.txt"), "w").write("x")
        open(os.path.join(d, "dir", ".Links"), "w").write("Name=FromLinks\nPath=./f.txt\n")
        open(os.path.join(d, "dir", ".names"), "w").write("Name=FromNames\nPath=./f.txt\n")
        import pygopherd.handlers.base as HB

        results = set()
        orig = HB.VFS_Real.listdir
        for rev in (False, True):
            HB.VFS_Real.listdir = lambda self, sel, _o=orig, _r=rev: sorted(_o(self, sel), reverse=_r)
            cfg = make_config(root=d, conf="conf/pygopherd.conf")
            cfg.set("handlers.dir.DirHandler", "cachetime", "0")
            out, esc, log = request(b"/dir\r\n", cfg)
            results.add(out)
        HB.VFS_Real.listdir = orig
        return len(results) > 1, f"{len(results)} different listings for 2 enumeration orders"

    return with_tree(run)


def d13():
    def run(d):
        os.mkdir(os.path.join(d, "m"))
        open(os.path.join(d, "m", "gophermap"), "wb").write(b"hx\tURL:\n0ok\t/ok\n")
        cfg = make_config(root=d, conf="conf/pygopherd.conf")
        out, esc, log = request(b"GET /m HTTP/1.0\r\n\r\n", cfg)
        return bool(had_exception(log)), f"log={had_exception(log)}"

    return with_tree(run)


def _tal(tpl, **kw):
    from simpletal import simpleTAL, simpleTALES

    ctx = simpleTALES.Context(allowPythonPath=0)
    for k, v in kw.items():
        ctx.addGlobal(k, v)
    t = simpleTAL.compileHTMLTemplate(io.StringIO(tpl))
    out = io.StringIO()
    t.expand(ctx, out)
    return out.getvalue()


def d14():
    try:
        out = _tal('<ul><li tal:repeat="i items"><b tal:condition="exists:repeat/i">yes</b></li></ul>', items=[1, 2])
    except Exception as e:
        return True, f"exists:repeat/i raised {type(e).__name__}: {e}"
    return out.count("yes") != 2, f"output {out!r}"


def d14b():
    out = _tal('<p tal:content="text v">old</p>', v="<b>hi</b>")
    return out != "<p>&lt;b&gt;hi&lt;/b&gt;</p>", f"tal:content=\"text v\" gave {out!r}"


def d15():
    def run(d):
        os.mkdir(os.path.join(d, "root"))
        os.mkdir(os.path.join(d, "root", "m"))
        open(os.path.join(d, "secret"), "w").write("x")
        open(os.path.join(d, "secret.abstract"), "w").write("TOP-SECRET-ABSTRACT")
        open(os.path.join(d, "root", "m", "gophermap"), "wb").write(b"0x\t/../secret\n")
        cfg = make_config(root=os.path.join(d, "root"), conf="conf/pygopherd.conf")
        out, esc, log = request(b"/m\t$\r\n", cfg)
        return b"TOP-SECRET-ABSTRACT" in out, "abstract of a file outside the root revealed"

    return with_tree(run)


def d16():
    gc.disable()
    try:
        out, esc, log = request(b"/python-dev.mbox\r\n")
        leaked = []
        for fd in os.listdir("/proc/self/fd"):
            try:
                t = os.readlink(f"/proc/self/fd/{fd}")
            except OSError:
                continue
            if "python-dev.mbox" in t:
                leaked.append(t)
        return bool(leaked), f"still open after the request: {leaked}"
    finally:
        gc.enable()
        gc.collect()


def d16zip():
    gc.disable()
    try:
        out, esc, log = request(b"/testdata.zip/pygopherd/ziponly\r\n")
        leaked = []
        for fd in os.listdir("/proc/self/fd"):
            try:
                t = os.readlink(f"/proc/self/fd/{fd}")
            except OSError:
                continue
            if "testdata.zip" in t:
                leaked.append(os.path.basename(t))
        return bool(leaked), f"still open after the request: {sorted(set(leaked))}"
    finally:
        gc.enable()
        gc.collect()


def d17():
    out, esc, log = request(b"/nonexistent|/MBOX-MESSAGE/1\r\n")
    return (not out) or bool(had_exception(log)), f"reply={out!r} log={had_exception(log)}"


def d18():
    def run(d):
        os.mkdir(os.path.join(d, "root"))
        os.mkdir(os.path.join(d, "cwd"))
        with zipfile.ZipFile(os.path.join(d, "cwd", "inner.zip"), "w") as z:
            z.writestr("secret.txt", "outside-root secret")
        with zipfile.ZipFile(os.path.join(d, "root", "outer.zip"), "w") as z:
            z.write(os.path.join(d, "cwd", "inner.zip"), "inner.zip")
        cfg = make_config(root=os.path.join(d, "root"))
        opened = []

        def hook(ev, args):
            if ev == "open" and isinstance(args[0], (str, bytes)):
                p = os.path.abspath(os.fsdecode(args[0]))
                if p.startswith(os.path.join(d, "cwd")):
                    opened.append(os.path.basename(p))

        sys.addaudithook(hook)
        old = os.getcwd()
        os.chdir(os.path.join(d, "cwd"))
        try:
            out, esc, log = request(b"/outer.zip/inner.zip/secret.txt\r\n", cfg)
        finally:
            os.chdir(old)
        return bool(opened), f"opened/created outside the root (in cwd): {sorted(set(opened))}"

    return with_tree(run)


def d19():
    bad = []
    for line, tls in ((b"/foo\x00bar\r\n", False), (b"GET /foo%00bar HTTP/1.0\r\n\r\n", False), (b"gemini://h/%00\r\n", True)):
        out, esc, log = request(line, tls=tls)
        if not out or had_exception(log):
            bad.append(line)
    return bool(bad), f"NUL selector got no reply: {bad}"


def d20():
    bad = []
    for line in (b"/python-dev.mbox?/MBOX-MESSAGE/" + b"1" * 5000 + b"\r\n", b"h / " + b"1" * 5000 + b"\r\n"):
        out, esc, log = request(line)
        if not out or had_exception(log):
            bad.append(line[:30])
    return bool(bad), f"long digit string got no reply: {bad}"


def d21():
    bad = []
    for line, tls in ((b"gemini://h/a%0Ab\r\n", True), (b"h /a%0D%0Ab 0\r\n", False)):
        out, esc, log = request(line, tls=tls)
        if out.count(b"\n") != 1:
            bad.append(out[:40])
    return bool(bad), f"status line broken by a decoded line break: {bad}"


def d22():
    import glob

    cfg = make_config(conf="conf/pygopherd.conf")
    cfg.set("handlers.dir.DirHandler", "cachetime", "180")
    pat = os.path.join(REPO, "testdata", "**", ".cache.pygopherd.dir")
    for f in glob.glob(pat, recursive=True):
        os.unlink(f)
    try:
        request(b"/pygopherd//\r\n", cfg)
        after, _, _ = request(b"/pygopherd\r\n", cfg)
        for f in glob.glob(pat, recursive=True):
            os.unlink(f)
        fresh, _, _ = request(b"/pygopherd\r\n", cfg)
    finally:
        for f in glob.glob(pat, recursive=True):
            os.unlink(f)
    return after != fresh, f"listing of /pygopherd after a '/pygopherd//' request: {after[:40]!r} (fresh: {fresh[:40]!r})"


def d24():
    """two Type=X blocks for the same file (.Links and .names): the second remove() raises ValueError"""
    def run(d):
        os.mkdir(os.path.join(d, "dir"))
        for n in ("a.txt", "b.txt", "c.txt"):
            open(os.path.join(d, "dir", n), "w").write("x")
        open(os.path.join(d, "dir", ".Links"), "w").write("Type=X\nPath=./b.txt\n")
        open(os.path.join(d, "dir", ".names"), "w").write("Type=X\nPath=./b.txt\n")
        cfg = make_config(root=d, conf="conf/pygopherd.conf")
        cfg.set("handlers.dir.DirHandler", "cachetime", "0")
        out, esc, log = request(b"/dir\r\n", cfg)
        return b"a.txt" not in out or b"c.txt" not in out or b"b.txt" in out, f"reply={out[:100]!r}"

    return with_tree(run)


def d25():
    """a merge block without Numb= resets the number a .cap file gave the entry"""
    def run(d):
        os.makedirs(os.path.join(d, "dir", ".cap"))
        for n in ("a.txt", "b.txt"):
            open(os.path.join(d, "dir", n), "w").write("x")
        open(os.path.join(d, "dir", ".cap", "b.txt"), "w").write("Numb=1\nName=Bee\n")
        open(os.path.join(d, "dir", ".names"), "w").write("Path=./b.txt\nAbstract=about b\n")
        cfg = make_config(root=d, conf="conf/pygopherd.conf")
        cfg.set("handlers.dir.DirHandler", "cachetime", "0")
        out, esc, log = request(b"/dir\r\n", cfg)
        lines = [l for l in out.split(b"\r\n") if l[:1] in (b"0", b"1")]
        return not (lines and b"Bee" in lines[0]), f"first entry={lines[:1]!r}"

    return with_tree(run)


def _with_alarm(fn, seconds=3):
    import signal

    class Hang(BaseException):
        pass

    def onalarm(sig, frm):
        raise Hang()

    old = signal.signal(signal.SIGALRM, onalarm)
    signal.alarm(seconds)
    try:
        return fn()
    except Hang:
        return True, f"request did not complete within {seconds}s (blocked opening a FIFO)"
    finally:
        signal.alarm(0)
        signal.signal(signal.SIGALRM, old)


def d26():
    """a FIFO whose name starts with a dot is opened as a link file: the listing blocks forever"""
    def run(d):
        os.mkdir(os.path.join(d, "dir"))
        open(os.path.join(d, "dir", "a.txt"), "w").write("x")
        os.mkfifo(os.path.join(d, "dir", ".fifo"))
        cfg = make_config(root=d, conf="conf/pygopherd.conf")
        cfg.set("handlers.dir.DirHandler", "cachetime", "0")

        def go():
            out, esc, log = request(b"/dir\r\n", cfg)
            return b"a.txt" not in out, f"reply={out[:80]!r}"
        return _with_alarm(go)

    return with_tree(run)


def d27():
    """a FIFO named like a sidecar (x.txt.abstract) is opened while building x.txt's entry: the listing blocks"""
    def run(d):
        os.mkdir(os.path.join(d, "dir"))
        open(os.path.join(d, "dir", "a.txt"), "w").write("x")
        open(os.path.join(d, "dir", "x.txt"), "w").write("x")
        os.mkfifo(os.path.join(d, "dir", "x.txt.abstract"))
        cfg = make_config(root=d, conf="conf/pygopherd.conf")
        cfg.set("handlers.dir.DirHandler", "cachetime", "0")

        def go():
            out, esc, log = request(b"/dir\r\n", cfg)
            return b"a.txt" not in out, f"reply={out[:80]!r}"
        return _with_alarm(go)

    return with_tree(run)


def d28():
    """Port=abc in a link file: int() raises ValueError and the directory request is left unanswered"""
    def run(d):
        os.mkdir(os.path.join(d, "dir"))
        open(os.path.join(d, "dir", "a.txt"), "w").write("x")
        open(os.path.join(d, "dir", ".names"), "w").write("Path=./a.txt\nPort=abc\n")
        cfg = make_config(root=d, conf="conf/pygopherd.conf")
        cfg.set("handlers.dir.DirHandler", "cachetime", "0")
        out, esc, log = request(b"/dir\r\n", cfg)
        return b"a.txt" not in out, f"reply={out[:80]!r}"

    return with_tree(run)


def d29():
    """a damaged ZIP archive (ZIP handler enabled): BadZipFile escapes and the directory holding it gets no listing"""
    def run(d):
        import zipfile as zf

        os.mkdir(os.path.join(d, "dir"))
        open(os.path.join(d, "dir", "a.txt"), "w").write("x")
        zp = os.path.join(d, "dir", "bad.zip")
        with zf.ZipFile(zp, "w") as z:
            z.writestr("m.txt", "hello")
        raw = open(zp, "rb").read()
        open(zp, "wb").write(raw.replace(b"PK\x01\x02", b"XXXX", 1))
        assert zf.is_zipfile(zp)
        cfg = make_config(root=d, conf="conf/pygopherd.conf")
        cfg.set("handlers.dir.DirHandler", "cachetime", "0")
        cfg.set("handlers.ZIP.ZIPHandler", "enabled", "true")
        hl = cfg.get("handlers.HandlerMultiplexer", "handlers")
        if "ZIP.ZIPHandler" not in hl.replace("#", ""):
            pass
        cfg.set("handlers.HandlerMultiplexer", "handlers", hl.replace("[", "[ZIP.ZIPHandler, ", 1))
        out, esc, log = request(b"/dir\r\n", cfg)
        out2, esc2, log2 = request(b"/dir/bad.zip\r\n", cfg)
        return b"a.txt" not in out or not out2, f"listing={out[:60]!r} direct={out2[:60]!r}"

    return with_tree(run)


def d30():
    """a link file with a bare `Type=` line: line[5] raises IndexError, the directory gets no response"""
    def run(d):
        os.mkdir(os.path.join(d, "dir"))
        open(os.path.join(d, "dir", "a.txt"), "w").write("x")
        open(os.path.join(d, "dir", ".names"), "w").write("Path=./a.txt\nType=\n")
        cfg = make_config(root=d, conf="conf/pygopherd.conf")
        cfg.set("handlers.dir.DirHandler", "cachetime", "0")
        out, esc, log = request(b"/dir\r\n", cfg)
        return b"a.txt" not in out, f"reply={out[:80]!r}"

    return with_tree(run)


def d31():
    """gophermap lines `i<TAB>`, `<TAB>x` and a non-numeric port crash the gophermap parser"""
    def run(d):
        bad = []
        for i, body in enumerate(("iHello\t\nI\t\n", "\tfoo\n1ok\t/x\n", "1Name\t/sel\thost\tabc\n")):
            dd = os.path.join(d, f"m{i}")
            os.mkdir(dd)
            open(os.path.join(dd, "gophermap"), "w").write("iTop\n" + body)
            cfg = make_config(root=d, conf="conf/pygopherd.conf")
            out, esc, log = request(f"/m{i}\r\n".encode(), cfg)
            if b"Top" not in out:
                bad.append((body, out[:40]))
        return bool(bad), f"unanswered: {bad!r}"

    return with_tree(run)


def d32():
    """Type=- in a .names/.Links block for a walked file does not hide it (only the .cap path treats - like X)"""
    def run(d):
        os.mkdir(os.path.join(d, "dir"))
        for n in ("a.txt", "b.txt"):
            open(os.path.join(d, "dir", n), "w").write("x")
        open(os.path.join(d, "dir", ".names"), "w").write("Path=./b.txt\nType=-\n")
        cfg = make_config(root=d, conf="conf/pygopherd.conf")
        cfg.set("handlers.dir.DirHandler", "cachetime", "0")
        out, esc, log = request(b"/dir\r\n", cfg)
        return b"b.txt" in out, f"reply={out[:120]!r}"

    return with_tree(run)


def d34():
    """HEAD for a missing selector gets the HTML error body"""
    cfg = make_config(conf="conf/pygopherd.conf")
    out, esc, log = request(b"HEAD /nonexistent HTTP/1.0\r\n\r\n", cfg)
    head, _, body = out.partition(b"\r\n\r\n")
    return bool(body), f"status={head.splitlines()[:1]} body bytes={len(body)}"


def d36():
    """an entry with a host but no port: Gopher renders this server's port, the URL protocols render port 70"""
    def run(d):
        os.mkdir(os.path.join(d, "m"))
        open(os.path.join(d, "m", "gophermap"), "w").write("1Elsewhere\t/sel\tother.example\n")
        cfg = make_config(root=d, conf="conf/pygopherd.conf")
        g, _, _ = request(b"/m\r\n", cfg)
        h, _, _ = request(b"GET /m HTTP/1.0\r\n\r\n", cfg)
        gport = g.split(b"\t")[3].split(b"\r")[0] if g.count(b"\t") >= 3 else b"?"
        import re as _re
        m = _re.search(rb"gopher://other\.example:(\d+)/", h)
        hport = m.group(1) if m else b"?"
        return gport != hport, f"gopher port {gport!r}, http port {hport!r}"

    return with_tree(run)


def d37():
    """an entry without a type: Gopher renders type 0, the URL protocols render gopher://host:70/None/sel"""
    def run(d):
        os.mkdir(os.path.join(d, "dir"))
        open(os.path.join(d, "dir", "a.txt"), "w").write("x")
        open(os.path.join(d, "dir", ".Links"), "w").write("Name=NoType\nPath=/foo\nHost=other.example\nPort=70\n")
        cfg = make_config(root=d, conf="conf/pygopherd.conf")
        cfg.set("handlers.dir.DirHandler", "cachetime", "0")
        h, _, _ = request(b"GET /dir HTTP/1.0\r\n\r\n", cfg)
        return b"/None/foo" in h, f"http link: {[l for l in h.splitlines() if b'other.example' in l][:1]!r}"

    return with_tree(run)


def d38():
    """names that merely start with the WAP prefix (/wapiti.txt) are taken for WAP requests over HTTP"""
    def run(d):
        open(os.path.join(d, "wapiti.txt"), "w").write("the wapiti file\n")
        open(os.path.join(d, "iti.txt"), "w").write("a different file\n")
        cfg = make_config(root=d, conf="conf/pygopherd.conf")
        g, _, _ = request(b"/wapiti.txt\r\n", cfg)
        h, _, _ = request(b"GET /wapiti.txt HTTP/1.0\r\n\r\n", cfg)
        return b"the wapiti file" not in h, f"gopher={g[:20]!r} http body has wapiti: {b'the wapiti file' in h}, has iti: {b'a different file' in h}"

    return with_tree(run)


def d39():
    """ZIP index cache: only shelve.open() is guarded; a store that opens but is damaged inside fails at the first
    look-up, outside any guard (history: index written, a file with the bare cache name exists - as every dbm backend
    other than dbm.dumb leaves it -, the data file cut short)"""
    def run(d):
        import zipfile as zf

        os.mkdir(os.path.join(d, "dir"))
        zp = os.path.join(d, "dir", "arch.zip")
        with zf.ZipFile(zp, "w") as z:
            z.writestr("m.txt", "hello")
            z.writestr("sub/n.txt", "world")
        cfg = make_config(root=d, conf="conf/pygopherd.conf")
        cfg.set("handlers.dir.DirHandler", "cachetime", "0")
        cfg.set("handlers.ZIP.ZIPHandler", "enabled", "true")
        hl = cfg.get("handlers.HandlerMultiplexer", "handlers")
        cfg.set("handlers.HandlerMultiplexer", "handlers", hl.replace("[", "[ZIP.ZIPHandler, ", 1))
        ref, esc0, _ = request(b"/dir/arch.zip/m.txt\r\n", cfg)       # writes the index cache
        base = os.path.join(d, "dir", ".cache.pygopherd.zip3.arch.zip")
        stores = [f for f in os.listdir(os.path.join(d, "dir")) if f.startswith(".cache.pygopherd.zip3.")]
        if not os.path.exists(base):
            open(base, "wb").close()                                   # the name the freshness test stats
        dat = base + ".dat"
        if os.path.exists(dat):
            raw = open(dat, "rb").read()
            open(dat, "wb").write(raw[: len(raw) // 2])
        else:
            raw = open(base, "rb").read()
            open(base, "wb").write(raw[: len(raw) // 2])
        future = os.stat(zp).st_mtime + 5
        for f in os.listdir(os.path.join(d, "dir")):
            if f.startswith(".cache.pygopherd.zip3."):
                os.utime(os.path.join(d, "dir", f), (future, future))
        out, esc, _ = request(b"/dir/arch.zip/sub/n.txt\r\n", cfg)
        out2, esc2, _ = request(b"/dir/arch.zip/m.txt\r\n", cfg)
        bad = esc is not None or esc2 is not None or out2 != ref or b"world" not in out
        return bad, f"stores={sorted(stores)} escaped={type(esc).__name__ if esc else None}/{type(esc2).__name__ if esc2 else None} m.txt same={out2 == ref} n.txt={out[:30]!r}"

    return with_tree(run)


def d40():
    """ZIP index cache: a store that opens but has lost entries (dbm.dumb directory file cut at a line boundary or emptied)
    is taken for a complete index: members it no longer lists 'do not exist'"""
    def run(d):
        import zipfile as zf

        os.mkdir(os.path.join(d, "dir"))
        zp = os.path.join(d, "dir", "arch.zip")
        with zf.ZipFile(zp, "w") as z:
            z.writestr("m.txt", "hello")
            z.writestr("sub/n.txt", "world")
        cfg = make_config(root=d, conf="conf/pygopherd.conf")
        cfg.set("handlers.dir.DirHandler", "cachetime", "0")
        cfg.set("handlers.ZIP.ZIPHandler", "enabled", "true")
        hl = cfg.get("handlers.HandlerMultiplexer", "handlers")
        cfg.set("handlers.HandlerMultiplexer", "handlers", hl.replace("[", "[ZIP.ZIPHandler, ", 1))
        ref, _, _ = request(b"/dir/arch.zip/sub/n.txt\r\n", cfg)      # writes the index cache
        base = os.path.join(d, "dir", ".cache.pygopherd.zip3.arch.zip")
        if not os.path.exists(base):
            open(base, "wb").close()
        dirf = base + ".dir"
        if not os.path.exists(dirf):
            return False, "no dbm.dumb directory file on this Python (other backend)"
        lines = open(dirf, "rb").read().splitlines(keepends=True)
        results = []
        for keep in (0, 1, max(1, len(lines) // 2)):
            open(dirf, "wb").write(b"".join(lines[:keep]))
            bak = base + ".bak"
            if os.path.exists(bak):
                os.unlink(bak)
            future = os.stat(zp).st_mtime + 5
            for f in os.listdir(os.path.join(d, "dir")):
                if f.startswith(".cache.pygopherd.zip3."):
                    os.utime(os.path.join(d, "dir", f), (future, future))
            out, esc, _ = request(b"/dir/arch.zip/sub/n.txt\r\n", cfg)
            results.append((keep, out == ref, type(esc).__name__ if esc else None))
            # restore a complete store for the next cut
            for f in os.listdir(os.path.join(d, "dir")):
                if f.startswith(".cache.pygopherd.zip3.") and f != os.path.basename(base):
                    os.unlink(os.path.join(d, "dir", f))
            os.utime(base, (1, 1))
            request(b"/dir/arch.zip/sub/n.txt\r\n", cfg)
        bad = any(not same or esc for _, same, esc in results)
        return bad, f"(lines kept, same answer, escaped) = {results}"

    return with_tree(run)


def d41():
    """a request for `<dir>/.` lists the directory under the selector base `<dir>/.`: every child selector then contains `./`, is refused
    by the filter and dropped - the client gets an empty menu, and that empty listing is written to <dir>'s own cache file, so `<dir>`
    itself is served empty to everybody for the cache lifetime"""
    def run(d):
        os.mkdir(os.path.join(d, "dir"))
        for n in ("a.txt", "b.txt"):
            open(os.path.join(d, "dir", n), "w").write("x")
        cfg = make_config(root=d, conf="conf/pygopherd.conf")
        ref, _, _ = request(b"/dir\r\n", cfg)
        for f in os.listdir(os.path.join(d, "dir")):
            if f.startswith(".cache"):
                os.unlink(os.path.join(d, "dir", f))
        dot, _, _ = request(b"/dir/.\r\n", cfg)
        after, _, _ = request(b"/dir\r\n", cfg)
        rootdot, _, _ = request(b"/.\r\n", cfg)
        bad = after != ref or (b"a.txt" not in dot and not dot.startswith(b"3"))
        return bad, f"/dir before: {ref.count(b'.txt')} entries; answer to /dir/.: {dot[:40]!r}; /dir afterwards: {after.count(b'.txt')} entries; /. : {rootdot[:30]!r}"

    return with_tree(run)


def d42():
    """a gophermap line whose selector starts with URL: but is not a URL (`URL:notes`) is looked up as <root> + `URL:notes`, joined as text:
    that is a neighbour of the root (`/srv/gopherURL:notes`), and what exists there shows in the menu (Gopher+ size, date, abstract)"""
    def run(d):
        root = os.path.join(d, "gopher")
        os.mkdir(root)
        os.mkdir(os.path.join(root, "m"))
        open(os.path.join(root, "m", "gophermap"), "w").write("0Notes\tURL:notes\n")
        cfg = make_config(root=root, conf="conf/pygopherd.conf")
        cfg.set("handlers.dir.DirHandler", "cachetime", "0")
        before, _, _ = request(b"/m\t$\r\n", cfg)
        outside = root + "URL:notes"
        open(outside, "w").write("x" * 4321)
        open(outside + ".abstract", "w").write("SECRET-ABSTRACT")
        after, _, _ = request(b"/m\t$\r\n", cfg)
        return before != after, f"menu changes with a file outside the root: abstract shown={b'SECRET-ABSTRACT' in after}, size shown={b'4321' in after or b'4k' in after}"

    return with_tree(run)


def d43():
    """two first requests into the same archive write the ZIP index cache at the same time: with the dbm.dumb backend a store opened
    with flag 'n' still reads the directory file - the one the other writer is half-way through writing - and the SyntaxError/ValueError
    from there is not an OSError: it escapes save_cache() and the request fails"""
    def run(d):
        import zipfile as zf

        os.mkdir(os.path.join(d, "dir"))
        zp = os.path.join(d, "dir", "arch.zip")
        with zf.ZipFile(zp, "w") as z:
            z.writestr("m.txt", "hello")
        cfg = make_config(root=d, conf="conf/pygopherd.conf")
        cfg.set("handlers.ZIP.ZIPHandler", "enabled", "true")
        hl = cfg.get("handlers.HandlerMultiplexer", "handlers")
        cfg.set("handlers.HandlerMultiplexer", "handlers", hl.replace("[", "[ZIP.ZIPHandler, ", 1))
        import dbm

        if getattr(dbm, "_defaultmod", None) is not None and dbm._defaultmod.__name__ != "dbm.dumb":
            return False, "another dbm backend is the default here"
        ref, _, _ = request(b"/dir/arch.zip/m.txt\r\n", cfg)
        for f in os.listdir(os.path.join(d, "dir")):
            if f.startswith(".cache.pygopherd.zip3."):
                os.unlink(os.path.join(d, "dir", f))
        state = {"armed": True}

        def hook(event, args):
            # the other writer: its directory file appears, half written, right after this writer has created its data file
            path = os.fsdecode(args[0]) if event == "open" and isinstance(args[0], (str, bytes)) else ""
            if state["armed"] and path.endswith(".dat") and ".cache.pygopherd.zip3" in path and str(args[1]) == "w":
                state["armed"] = False
                fd = os.open(path[:-4] + ".dir", os.O_WRONLY | os.O_CREAT)
                os.write(fd, b"'m.txt', (0, ")
                os.close(fd)
        sys.addaudithook(hook)
        out, esc, log = request(b"/dir/arch.zip/m.txt\r\n", cfg)
        state["armed"] = False
        return out != ref, f"alone: {ref[:12]!r}; while another request writes the index: {out[:30]!r} escaped={type(esc).__name__ if esc else None} log={had_exception(log)}"

    return with_tree(run)


ALL = {k: v for k, v in list(globals().items()) if k.startswith("d") and k[1:2].isdigit() and callable(v)}
ALL.pop("d8", None)

if __name__ == "__main__":
    names = [a.lower() for a in sys.argv[1:]] or sorted(ALL, key=lambda s: (int(''.join(c for c in s[1:] if c.isdigit())), s))
    for n in names:
        try:
            bad, what = ALL[n]()
        except Exception as e:  # a crash of the repro itself
            print(f"{n.upper()} ERROR {type(e).__name__}: {e}")
            continue
        print(f"{n.upper()} {'DEFECT ' + what if bad else 'ok  (' + what + ')'}")
