"""C03  Every request is answered with one well-formed response (necessary conditions).

R03a  every protocol handle(): handler selection / getentry / prepare inside a try that
      converts FileNotFound and I/O errors into the protocol's own error reply;
      status-line protocols write exactly one status and no body after an error
R03b  request-tainted partial operations on the request path are guarded (P1..P7)
R03c  no silent fall-through: getHandler ends by raising FileNotFound
R03d  the only persistent writes on the request path are the two cache files
R03e  library calls that fail with a non-I/O error class (mailbox constructors) are guarded
Not decided: absence of *all* internal errors, bounded time, reply grammar.
"""

from __future__ import annotations

import ast
from typing import Dict, List, Optional, Set, Tuple

from ..effects import Effects
from ..facts import (RAISES, Fact, Site, accept_paths, collect_site_paths, def_min_len, expand, fact_min_len,
                     find_sites, group_is_digits, killed_attrs, match_pattern, mentions_any, regex_groups,
                     single_defs, _int)
from ..loader import dotted, norm
from ..paths import Walker, truth
from ..structure import catches, enclosing_tries

PRE_ACCEPT = {"__init__", "canhandlerequest", "isrequestsecure", "isrequestforme", "slashnormalize", "check_tls"}
ENTRY_GETTERS = {"getselector", "getname", "gethost", "geturl", "getea", "getmimetype", "getencoding", "gettype"}


# ----------------------------------------------------------------------- taint
class Taint:
    """Request taint: mention-based fixpoint over attributes, locals and parameters."""

    ENTRY_SOURCES = True   # values read back from entries (names, selectors) count as request-shaped
    READ_SOURCES = False   # results of file reads count as sources (content taint, see ContentTaint)

    def __init__(self, ctx, eff: Effects):
        self.ctx = ctx
        self.eff = eff
        self.attrs: Set[str] = {"rfile"}
        self.params: Set[Tuple[object, str]] = set()
        prog = ctx.prog
        pb = ctx.cls("protocols.base.BaseGopherProtocol")
        hb = ctx.cls("handlers.base.BaseHandler")
        if not self.ENTRY_SOURCES:
            self.attrs = set()
            pb = hb = None
        if pb is not None:
            for P in prog.subclasses(pb):
                init = P.methods.get("__init__")
                if init is not None and "request" in init.params:
                    self.params.add((init, "request"))
        if hb is not None:
            for H in prog.subclasses(hb):
                init = H.methods.get("__init__")
                if init is not None:
                    for p in ("selector", "searchrequest"):
                        if p in init.params:
                            self.params.add((init, p))
        self.funcs = [f for f in prog.all_functions()
                      if f.module.name.startswith(("pygopherd.protocols", "pygopherd.handlers", "pygopherd.server"))
                      or f.module.name in ("pygopherd.gopherentry", "pygopherd.GopherExceptions")]
        self._local_cache: Dict = {}
        changed = True
        rounds = 0
        while changed and rounds < 12:
            changed = False
            rounds += 1
            self._local_cache.clear()
            for f in self.funcs:
                for n in ast.walk(f.node):
                    if isinstance(n, ast.Assign):
                        for t in n.targets:
                            if isinstance(t, ast.Attribute) and dotted(t.value) == "self" and t.attr not in self.attrs \
                                    and self.is_tainted(n.value, f):
                                self.attrs.add(t.attr)
                                changed = True
                            # self.table[key] = <request text>: the table holds request text
                            if isinstance(t, ast.Subscript) and isinstance(t.value, ast.Attribute) and dotted(t.value.value) == "self" \
                                    and t.value.attr not in self.attrs and self.is_tainted(n.value, f):
                                self.attrs.add(t.value.attr)
                                changed = True
                for call, t in eff.calls_of(f, f.cls):
                    if t.kind not in ("repo", "ctor") or t.by_name:
                        continue
                    for callee in t.funcs:
                        if callee is None:
                            continue
                        params = callee.params[1:] if callee.cls is not None and callee.params[:1] == ["self"] else callee.params
                        args = list(call.args)
                        if callee.cls is not None and t.kind == "repo" and args and dotted(args[0]) == "self" and t.bound_cls is None:
                            args = args[1:]
                        for p, a in zip(params, args):
                            if (callee, p) not in self.params and self.is_tainted(a, f):
                                self.params.add((callee, p))
                                changed = True
                        for k in call.keywords:
                            if k.arg and k.arg in callee.params and (callee, k.arg) not in self.params and self.is_tainted(k.value, f):
                                self.params.add((callee, k.arg))
                                changed = True

    def local_tainted(self, func, name: str, _stack=None) -> bool:
        """Flow-insensitive: is any value ever assigned to the local tainted?"""
        key = (func, name)
        if key in self._local_cache:
            return self._local_cache[key]
        if (func, name) in self.params:
            return True
        _stack = _stack or set()
        if key in _stack:
            return False
        _stack.add(key)
        res = False
        for n in ast.walk(func.node):
            vals = []
            if isinstance(n, ast.Assign):
                for t in n.targets:
                    if any(isinstance(e, ast.Name) and e.id == name for e in ast.walk(t)):
                        vals.append(n.value)
            elif isinstance(n, (ast.For, ast.AsyncFor)) and any(isinstance(e, ast.Name) and e.id == name for e in ast.walk(n.target)):
                vals.append(n.iter)
            elif isinstance(n, ast.comprehension) and any(isinstance(e, ast.Name) and e.id == name for e in ast.walk(n.target)):
                vals.append(n.iter)
            elif isinstance(n, ast.NamedExpr) and isinstance(n.target, ast.Name) and n.target.id == name:
                vals.append(n.value)
            elif isinstance(n, ast.AugAssign) and isinstance(n.target, ast.Name) and n.target.id == name:
                vals.append(n.value)
            for v in vals:
                if self.is_tainted(v, func, None, _stack):
                    res = True
                    break
            if res:
                break
        _stack.discard(key)
        self._local_cache[key] = res
        return res

    STR_METHODS = {"strip", "lstrip", "rstrip", "split", "rsplit", "splitlines", "partition", "rpartition", "lower",
                   "upper", "decode", "encode", "replace", "format", "join", "title", "capitalize", "casefold",
                   "expandtabs", "zfill", "center", "ljust", "rjust", "swapcase", "translate", "removeprefix",
                   "removesuffix", "group", "groups", "groupdict", "get", "items", "keys", "values", "copy", "pop",
                   "read", "readline", "readlines"}
    PROPAGATING = {"str", "bytes", "list", "tuple", "sorted", "reversed", "iter", "next", "enumerate", "zip", "map",
                   "filter", "set", "dict", "repr", "unquote", "unquote_plus", "unquote_to_bytes", "urlparse", "urlsplit",
                   "parse_qs", "parse_qsl", "match", "search", "fullmatch", "findall", "finditer", "sub", "split",
                   "basename", "dirname", "join", "normpath", "escape", "quote", "quote_plus", "cast", "fsencode",
                   "fsdecode", "splitext"}
    URL_FIELDS = {"path", "query", "netloc", "fragment", "params", "scheme", "hostname", "port", "username", "password"}

    def is_tainted(self, expr, func, defs=None, _stack=None, _depth=0) -> bool:
        """Structural taint: request text flows through string operations, containers,
        URL/regex parsing and repository getters; results of other calls (stat, len,
        int, open, ...) are not request-shaped."""
        if expr is None or _depth > 12:
            return False
        rec = lambda e: self.is_tainted(e, func, defs, _stack, _depth + 1)  # noqa: E731
        if isinstance(expr, ast.Name):
            if expr.id == "self":
                return False
            if expr.id == "__tainted__":
                return True
            if defs is not None:
                if expr.id in defs:
                    return rec(defs[expr.id])
                return (func, expr.id) in self.params or self.local_tainted(func, expr.id, _stack)
            return self.local_tainted(func, expr.id, _stack)
        if isinstance(expr, ast.Attribute):
            if dotted(expr.value) == "self":
                return expr.attr in self.attrs
            if expr.attr in self.URL_FIELDS:
                return rec(expr.value)
            return False
        if isinstance(expr, ast.Subscript):
            return rec(expr.value)
        if isinstance(expr, ast.BinOp):
            return rec(expr.left) or rec(expr.right)
        if isinstance(expr, ast.BoolOp):
            return any(rec(v) for v in expr.values)
        if isinstance(expr, ast.IfExp):
            return rec(expr.body) or rec(expr.orelse)
        if isinstance(expr, ast.JoinedStr):
            return any(rec(v.value) for v in expr.values if isinstance(v, ast.FormattedValue))
        if isinstance(expr, (ast.List, ast.Tuple, ast.Set)):
            return any(rec(e) for e in expr.elts)
        if isinstance(expr, ast.Starred):
            return rec(expr.value)
        if isinstance(expr, ast.NamedExpr):
            return rec(expr.value)
        if isinstance(expr, (ast.ListComp, ast.SetComp, ast.GeneratorExp)):
            return any(rec(g.iter) for g in expr.generators) or rec(expr.elt)
        if isinstance(expr, ast.Call):
            f = expr.func
            if isinstance(f, ast.Attribute):
                if self.READ_SOURCES and f.attr in ("readline", "readlines", "read") and not (dotted(f.value) or "").startswith("self.rfile"):
                    return True
                if self.ENTRY_SOURCES and f.attr in ENTRY_GETTERS and dotted(f.value) != "self" and not (dotted(f.value) or "").startswith("self.config"):
                    return True
                if f.attr in self.STR_METHODS and rec(f.value):
                    return True
                if f.attr == "join" and any(rec(a) for a in expr.args):
                    return True
            name = (dotted(f) or "").split(".")[-1]
            if name in self.PROPAGATING and (any(rec(a) for a in expr.args) or any(rec(k.value) for k in expr.keywords)):
                return True
            # repository callees: tainted when a return expression is
            t = self.ctx.resolver.resolve(expr, func, func.cls)
            if t.kind == "repo" and not t.by_name and len(t.funcs) <= 3:
                for callee in t.funcs:
                    key = ("ret", callee)
                    if key in (_stack or ()):
                        continue
                    st2 = set(_stack or ())
                    st2.add(key)
                    # arguments flow into parameters (already in self.params after the fixpoint)
                    for n in ast.walk(callee.node):
                        if isinstance(n, ast.Return) and n.value is not None and self.is_tainted(n.value, callee, None, st2, _depth + 1):
                            return True
                # parameters bound to tainted arguments at this call: approximate by argument taint for pure helpers
                if any(rec(a) for a in expr.args) and all(len(c.node.body) <= 12 for c in t.funcs):
                    for callee in t.funcs:
                        params = list(callee.params)
                        if callee.cls is not None and isinstance(f, ast.Attribute) and params and params[0] in ("self", "cls"):
                            params = params[1:]
                        bound = {p: ast.Name(id="__tainted__", ctx=ast.Load()) for p, a in zip(params, expr.args) if rec(a)}
                        for k in expr.keywords:
                            if k.arg and rec(k.value):
                                bound[k.arg] = ast.Name(id="__tainted__", ctx=ast.Load())
                        st2 = set(_stack or ())
                        st2.add(("retp", callee))
                        if ("retp", callee) in (_stack or ()):
                            continue
                        for n in ast.walk(callee.node):
                            # the value returned is request-shaped only if it is built from the tainted parameter by
                            # taint-propagating operations (a stat() or len() of it is not)
                            if isinstance(n, ast.Return) and n.value is not None and self.is_tainted(n.value, callee, bound, st2, _depth + 1):
                                return True
            return False
        return False


class ContentTaint(Taint):
    """Content taint: text read from files of the content tree (link files, sidecars, gophermaps, mail folders)
    and what is sliced, split or stripped out of it."""

    ENTRY_SOURCES = False
    READ_SOURCES = True


# -------------------------------------------------------------------- discharge
def _in_handler_for(site: Site, exc: str) -> bool:
    for tr in enclosing_tries(site.func.node, site.node):
        for h in tr.handlers:
            if catches(h, exc):
                return True
    return False


def _bound_from(facts: List[Fact], subject: str) -> int:
    b = 0
    for f in facts:
        try:
            b = max(b, fact_min_len(f, subject))
        except Exception:
            pass
    return b


def _exact_len(facts: List[Fact], subject: str) -> Optional[int]:
    for f in facts:
        n = f.node
        if isinstance(n, ast.Compare) and len(n.ops) == 1 and ((isinstance(n.ops[0], ast.Eq) and f.truth) or (isinstance(n.ops[0], ast.NotEq) and not f.truth)):
            for a, b in ((n.left, n.comparators[0]), (n.comparators[0], n.left)):
                if isinstance(a, ast.Call) and dotted(a.func) == "len" and len(a.args) == 1 and _int(b) is not None \
                        and expand(a.args[0], f.func, f.defs) == subject:
                    return _int(b)
    # lower and upper bound that meet
    lo = _bound_from(facts, subject)
    ub = _len_upper_bound(facts, subject)
    if ub is not None and lo == ub:
        return lo
    return None


def _truthy_fact(facts: List[Fact], text: str) -> bool:
    for f in facts:
        n, t = f.node, f.truth
        if expand(n, f.func, f.defs) == text and t:
            return True
        if isinstance(n, ast.Compare) and len(n.ops) == 1 and isinstance(n.comparators[0], ast.Constant) \
                and n.comparators[0].value is None and expand(n.left, f.func, f.defs) == text:
            if isinstance(n.ops[0], (ast.Is, ast.Eq)) and not t:
                return True
            if isinstance(n.ops[0], (ast.IsNot, ast.NotEq)) and t:
                return True
    return False


INT_MAX_DIGITS = 4300  # sys.int_info.default_max_str_digits: int() raises ValueError beyond it


def _len_upper_bound(facts: List[Fact], text: str):
    best = None
    for f in facts:
        n = f.node
        if isinstance(n, ast.Compare) and len(n.ops) == 1:
            for a, b, flip in ((n.left, n.comparators[0], False), (n.comparators[0], n.left, True)):
                if isinstance(a, ast.Call) and dotted(a.func) == "len" and len(a.args) == 1 and _int(b) is not None \
                        and expand(a.args[0], f.func, f.defs) == text:
                    c = _int(b)
                    o = type(n.ops[0])
                    if flip:
                        o = {ast.Lt: ast.Gt, ast.Gt: ast.Lt, ast.LtE: ast.GtE, ast.GtE: ast.LtE}.get(o, o)
                    ub = None
                    if o is ast.Lt:
                        ub = c - 1 if f.truth else None
                    elif o is ast.LtE:
                        ub = c if f.truth else None
                    elif o is ast.Eq:
                        ub = c if f.truth else None
                    elif o is ast.NotEq:
                        ub = c if not f.truth else None
                    elif o is ast.Gt:
                        ub = c if not f.truth else None
                    elif o is ast.GtE:
                        ub = c - 1 if not f.truth else None
                    if ub is not None:
                        best = ub if best is None else min(best, ub)
    return best


def _digit_fact(facts: List[Fact], evs, text: str) -> bool:
    ub = _len_upper_bound(facts, text)
    if ub is None or ub > INT_MAX_DIGITS:
        return False  # int() also fails on more than 4300 digits
    for f in facts:
        n = f.node
        if f.truth and isinstance(n, ast.Call) and isinstance(n.func, ast.Attribute) and n.func.attr in ("isdigit", "isdecimal", "isnumeric") \
                and expand(n.func.value, f.func, f.defs) == text:
            if n.func.attr == "isdecimal":
                return True
            # isdigit()/isnumeric() accept characters int() rejects unless the text is ASCII
            for ev in evs:
                if ev.kind == "call" and isinstance(ev.node.func, ast.Attribute) and ev.node.func.attr in ("encode", "isascii"):
                    recv = norm(ev.node.func.value)
                    root = recv.split(".strip")[0]
                    if ev.node.func.attr == "isascii" or (ev.node.args and isinstance(ev.node.args[0], ast.Constant) and ev.node.args[0].value == "ascii"):
                        if root and root in text:
                            return True
    return False


def discharge(ctx, site: Site, local_paths, acc, use_accept: bool, taint=None) -> Tuple[bool, str, bool]:
    """-> (ok, reason, nontrivial)"""
    func = site.func
    exc = RAISES[site.kind]
    if _in_handler_for(site, exc):
        return True, f"inside a try that catches {exc}", True
    if site.kind in ("P4", "P5"):
        return False, f"{exc} is not caught here and nothing bounds the operand", True
    if local_paths is None:
        return False, "could not enumerate the paths to this site", True
    if not local_paths:
        return True, "unreachable on every feasible path", False
    worst = None
    taint = taint if taint is not None else ctx._cache.get("taint")
    any_tainted = False
    for facts, evs, defs in local_paths:
        subject = expand(site.subject, func, defs) if site.subject is not None else ""
        if site.kind in ("P1", "P2", "P3", "P5") and taint is not None and not taint.is_tainted(site.subject, func, defs):
            continue  # operand is not request-derived on this path
        any_tainted = True
        dbound = 0
        if site.kind in ("P1", "P2", "P7"):
            try:
                dbound = _def_min_len_flow(site.subject, func, defs, ctx.prog, site.concrete)
            except Exception:
                dbound = 0
        ok_local = False
        why = ""
        if site.kind in ("P1", "P7"):
            b = max(dbound, _bound_from(facts, subject))
            for ev in evs:
                if ev.kind == "site" and isinstance(ev.node, ast.Subscript) and ev.node is not site.node:
                    k = _int(ev.node.slice) if not isinstance(ev.node.slice, ast.Slice) else None
                    if k is not None and expand(ev.node.value, ev.frame[0] if ev.frame else func, ev.defs) == subject:
                        b = max(b, k + 1 if k >= 0 else -k)
            ok_local = b >= site.need
            why = f"len >= {b}, need {site.need}"
        elif site.kind == "P2":
            n = _exact_len(facts, subject)
            ok_local = n == site.need
            why = f"length known: {n}, need exactly {site.need}"
        elif site.kind == "P3":
            arg = site.subject
            ok_local = _digit_arg(arg, func, defs) or _digit_fact(facts, evs, subject)
            why = "operand not shown to be decimal digits"
        elif site.kind == "P6":
            ok_local = _truthy_fact(facts, subject)
            why = "match object used without a None test"
        if ok_local:
            continue
        # accept facts
        ok_acc = False
        if use_accept and acc:
            killed = killed_attrs(evs)
            usable = subject and not mentions_any(subject, killed)
            if usable:
                ok_acc = True
                for afacts, aevs in acc:
                    if site.kind in ("P1", "P7"):
                        if max(dbound, _bound_from(afacts, subject), _bound_from(facts, subject)) < site.need:
                            ok_acc = False
                    elif site.kind == "P2":
                        if _exact_len(afacts, subject) != site.need:
                            ok_acc = False
                    elif site.kind == "P3":
                        if not _digit_fact(afacts, aevs, subject):
                            ok_acc = False
                    elif site.kind == "P6":
                        if not _truthy_fact(afacts, subject):
                            ok_acc = False
                    if not ok_acc:
                        break
        if not ok_acc:
            worst = why
            break
    if worst is None:
        if not any_tainted and site.kind in ("P1", "P2", "P3", "P5"):
            return True, "operand is not request-derived", False
        return True, "guarded on every path", True
    return False, worst, True


def _def_min_len_flow(expr, func, defs, prog, concrete) -> int:
    """def_min_len with the flow-sensitive definitions of the path."""
    cur = expr
    for _ in range(6):
        if isinstance(cur, ast.Name) and cur.id in defs:
            cur = defs[cur.id]
        else:
            break
    if isinstance(cur, ast.Name):
        return 0
    return def_min_len(cur, func, prog, concrete)


def _digit_arg(arg, func, defs=None) -> bool:
    """int(<match>.groups()[i]) / int(<match>.group(i)) with a digits-only group."""
    defs = defs if defs is not None else single_defs(func)
    a = arg
    if isinstance(a, ast.Name) and a.id in defs:
        a = defs[a.id]
    m, idx = None, None
    if isinstance(a, ast.Subscript) and isinstance(a.value, ast.Call) and isinstance(a.value.func, ast.Attribute) \
            and a.value.func.attr == "groups" and _int(a.slice) is not None:
        m, idx = a.value.func.value, _int(a.slice)
    elif isinstance(a, ast.Call) and isinstance(a.func, ast.Attribute) and a.func.attr == "group" and a.args and _int(a.args[0]):
        m, idx = a.func.value, _int(a.args[0]) - 1
    if m is None:
        return False
    pat = match_pattern(m, func)
    if pat is None:
        return False
    groups = regex_groups(pat)
    if not (0 <= idx < len(groups) and group_is_digits(groups[idx])):
        return False
    # the repeat must be bounded: int() raises ValueError beyond 4300 digits
    items = list(groups[idx])
    lo, hi, _ = items[0][1]
    return isinstance(hi, int) and hi <= INT_MAX_DIGITS


def partial_op_obligations(ctx, rep, rule: str, funcs: List[Tuple[object, object]], kinds=None, content=False):
    prog = ctx.prog
    eff = ctx._cache.get("eff") or Effects(prog, ctx.resolver)
    ctx._cache["eff"] = eff
    tkey = "ctaint" if content else "taint"
    taint = ctx._cache.get(tkey)
    if taint is None:
        taint = (ContentTaint if content else Taint)(ctx, eff)
        ctx._cache[tkey] = taint
    n_sites = 0
    n_untainted = 0
    seen = set()
    for func, concrete in funcs:
        if (func, concrete) in seen:
            continue
        seen.add((func, concrete))
        sites = find_sites(func, concrete, lambda e, f=func: taint.is_tainted(e, f))  # flow-insensitive pre-filter
        if kinds:
            sites = [s for s in sites if s.kind in kinds]
        if not sites:
            continue
        # pre-accept functions: reachable from canhandlerequest/__init__ of the concrete class
        use_accept = False
        if concrete is not None and func.name not in PRE_ACCEPT:
            use_accept = not _reachable_from_pre(prog, eff, concrete, func)
        is_can = func.name == "canhandlerequest"
        inline = (lambda fn, t, d: t.bound_cls is not None or (fn.cls is not None and t.kind == "repo" and not t.by_name
                                                               and len(t.funcs) == 1 and fn.name == "canhandlerequest")
                  or (d < 2 and fn.cls is None and t.kind == "repo" and not t.by_name and fn.module.name.startswith("pygopherd.protocols"))) if is_can else None
        watch = {id(s.node) for s in sites}
        watch |= {id(n) for n in ast.walk(func.node) if isinstance(n, ast.Subscript) and not isinstance(n.slice, ast.Slice)}
        paths = collect_site_paths(prog, ctx.resolver, func, concrete, watch, inline=inline, fork_returns=is_can)
        acc = accept_paths(prog, ctx.resolver, concrete) if (use_accept and concrete is not None) else None
        for s in sites:
            n_sites += 1
            ok, why, nontrivial = discharge(ctx, s, paths.get(id(s.node)), acc, use_accept, taint)
            if not ok and concrete is not None and func.name not in ("handle", "canhandlerequest", "__init__"):
                # a helper that works on what its caller hands it: decide the site on the paths through its callers
                callers = []
                for c_ in prog.mro(concrete):
                    for m_ in c_.methods.values():
                        if m_ is func or prog.resolve_method(concrete, m_.name) is not m_:
                            continue
                        if any(t_.kind == "repo" and func in t_.funcs for _c, t_ in eff.calls_of(m_, concrete)):
                            callers.append(m_)
                if callers and len(callers) <= 3:
                    all_ok, whys = True, []
                    for m_ in callers:
                        ua = False
                        if m_.name not in PRE_ACCEPT:
                            ua = not _reachable_from_pre(prog, eff, concrete, m_)
                        try:
                            cp = collect_site_paths(prog, ctx.resolver, m_, concrete, {id(s.node)}, inline=lambda fn, t, d, _f=func: fn is _f,
                                                    fork_returns=m_.name == "canhandlerequest")
                        except Exception:
                            all_ok = False
                            break
                        acc_ = accept_paths(prog, ctx.resolver, concrete) if ua else None
                        ok2, why2, _nt = discharge(ctx, s, cp.get(id(s.node)), acc_, ua, taint)
                        all_ok = all_ok and ok2
                        whys.append(why2)
                    if all_ok:
                        ok, why = True, "on every path through its caller(s): " + "; ".join(sorted(set(whys)))[:120]
            owner = f"{concrete.name}:" if concrete is not None and func.cls is not None and concrete is not func.cls else ""
            rep.add(rule, f"{s.kind} {owner}{func.qualname}: {s.text[:70]}", ok, ctx.where(func, s.node),
                    (f"{RAISES[s.kind]} possible for some {'file content' if content else 'request'}: `{s.text}` - {why}" if not ok else why),
                    key=f"{rule}|{s.kind}|{func.qualname}|{s.text}", nontrivial=nontrivial)
    rep.extra.setdefault("partial_op_sites", {})[rule] = n_sites


def _reachable_from_pre(prog, eff, concrete, func) -> bool:
    cache = prog.__dict__.setdefault("_pgv_pre", {})
    if concrete not in cache:
        seen = set()
        work = []
        for name in ("__init__", "canhandlerequest", "isrequestsecure"):
            m = prog.resolve_method(concrete, name)
            if m is not None:
                work.append(m)
        while work:
            m = work.pop()
            if m in seen:
                continue
            seen.add(m)
            for call, t in eff.calls_of(m, concrete):
                if t.kind == "repo" and (t.bound_cls is not None or (call.args and dotted(call.args[0]) == "self")):
                    work.extend(t.funcs)
        cache[concrete] = seen
    return func in cache[concrete]



def format_string_obligations(ctx, rep, rule, only_funcs=None, none_text=None):
    """No text that came with the request (or was read back from an entry) is used *as* a format string: `X % args` and
    `X.format(...)` with request text inside X fail - TypeError, ValueError, KeyError, IndexError - for a selector that holds `%` or braces."""
    prog = ctx.prog
    eff = ctx._cache.get("eff") or Effects(prog, ctx.resolver)
    ctx._cache["eff"] = eff
    taint = ctx._cache.get("taint")
    if taint is None:
        taint = Taint(ctx, eff)
        ctx._cache["taint"] = taint

    def const_text(e, f, depth=0) -> bool:
        """built from literals only (a name assigned literals only counts)"""
        if isinstance(e, ast.Constant):
            return True
        if isinstance(e, ast.BinOp) and isinstance(e.op, ast.Add):
            return const_text(e.left, f, depth) and const_text(e.right, f, depth)
        if isinstance(e, ast.Name) and depth < 3:
            vals = [n.value for n in ast.walk(f.node) if isinstance(n, ast.Assign) and any(isinstance(t, ast.Name) and t.id == e.id for t in n.targets)]
            vals += [n.value for n in ast.walk(f.node) if isinstance(n, ast.AugAssign) and isinstance(n.target, ast.Name) and n.target.id == e.id]
            if vals and all(const_text(v, f, depth + 1) for v in vals) and e.id not in f.params:
                return True
            g = f.module.globals.get(e.id)
            return bool(g) and e.id not in f.params and not vals and all(isinstance(x, ast.Constant) for x in g)
        if isinstance(e, ast.Attribute) and dotted(e.value) in ("self", "cls") and f.cls is not None:
            for c in prog.mro(f.cls):
                if not isinstance(c, str) and e.attr in c.attrs:
                    return isinstance(c.attrs[e.attr], ast.Constant)
        return False

    def numeric(e) -> bool:
        if isinstance(e, ast.Constant):
            return isinstance(e.value, (int, float)) and not isinstance(e.value, bool)
        if isinstance(e, ast.Call):
            return (dotted(e.func) or "") in ("int", "len", "ord", "float", "abs", "hash", "id", "time.time")
        if isinstance(e, ast.BinOp) and not isinstance(e.op, ast.Mod):
            return numeric(e.left) and numeric(e.right)
        return False

    n = 0
    for f in taint.funcs:
        if ".tests" in f.module.name or f.module.name.endswith("testutil"):
            continue
        if only_funcs is not None and f not in only_funcs:
            continue
        for node in ast.walk(f.node):
            fmt = None
            if isinstance(node, ast.BinOp) and isinstance(node.op, ast.Mod):
                fmt = node.left
            elif isinstance(node, ast.Call) and isinstance(node.func, ast.Attribute) and node.func.attr in ("format", "format_map"):
                fmt = node.func.value
            if fmt is None or const_text(fmt, f) or numeric(fmt):
                continue
            if isinstance(node, ast.BinOp) and numeric(node.right) and not isinstance(node.right, ast.Constant):
                continue
            def reads_request_text(e, depth=0):
                # <any object>.selector / .searchrequest / .request - also through a local the text was added to
                for x in ast.walk(e):
                    if isinstance(x, ast.Attribute) and x.attr in ("selector", "searchrequest", "request") and isinstance(x.ctx, ast.Load):
                        return True
                    if isinstance(x, ast.Name) and depth < 2 and x.id not in f.params:
                        for st in ast.walk(f.node):
                            v = st.value if (isinstance(st, ast.Assign) and any(isinstance(t, ast.Name) and t.id == x.id for t in st.targets)) or (
                                isinstance(st, ast.AugAssign) and isinstance(st.target, ast.Name) and st.target.id == x.id) else None
                            if v is not None and reads_request_text(v, depth + 1):
                                return True
                return False

            if not taint.is_tainted(fmt, f) and not reads_request_text(fmt):
                continue
            n += 1
            tries = enclosing_tries(f.node, node)
            guarded = any(all(any(catches(h, x) for h in tr.handlers) for x in ("TypeError", "ValueError")) for tr in tries)
            rep.add(rule, f"{f.qualname}: {norm(node)[:70]}", guarded, ctx.where(f, node),
                    "" if guarded else f"`{norm(fmt)[:60]}` holds request text and is used as the format string: a selector with a per cent sign (or a brace) makes "
                    "the formatting fail (TypeError / ValueError) or consume the wrong argument", key=f"{rule}|{f.qualname}|{norm(node)[:60]}")
    if not n:
        rep.ok(rule, none_text or "request text is only ever an argument of a format operation, never the format string", "pygopherd", "", key=f"{rule}|none")


# ------------------------------------------------------------------------ check
def request_path_functions(ctx):
    """(func, concrete) pairs analysed by R03b."""
    prog = ctx.prog
    out = []
    for P in ctx.protocol_classes():
        for c in prog.mro(P):
            for m in c.methods.values():
                if prog.resolve_method(P, m.name) is m:
                    out.append((m, P))
    for H in ctx.handler_classes():
        for c in prog.mro(H):
            for m in c.methods.values():
                if prog.resolve_method(H, m.name) is m:
                    out.append((m, H))
    for q in ("handlers.HandlerMultiplexer.getHandler", "handlers.HandlerMultiplexer.init_default_handlers",
              "protocols.ProtocolMultiplexer.getProtocol", "server.GopherRequestHandler.handle", "GopherExceptions.log"):
        f = ctx.func(q)
        if f is not None:
            out.append((f, f.cls))
    ge = ctx.cls("gopherentry.GopherEntry")
    if ge is not None:
        for m in ge.methods.values():
            out.append((m, ge))
    # de-duplicate functions analysed under several concrete classes: keep the defining
    # class plus every concrete class whose canhandlerequest differs (accept facts differ)
    seen = {}
    res = []
    for m, C in out:
        key = (m, prog.resolve_method(C, "canhandlerequest") if C is not None else None)
        if key in seen:
            continue
        seen[key] = True
        res.append((m, C))
    return res


MAILBOX_CTORS = {"mailbox.mbox", "mailbox.Maildir", "mailbox.MH", "mailbox.Babyl", "mailbox.MMDF"}


def check(ctx, rep):
    prog = ctx.prog
    eff = Effects(prog, ctx.resolver)
    ctx._cache["eff"] = eff
    rep.rule("R03a", "protocol handle(): selection/getentry/prepare inside a try converting FileNotFound and OSError into the "
             "protocol's error reply; status-line protocols: one status per path, no body after an error status", floor=5)
    rep.rule("R03b", "request-tainted partial operations (index, unpack, int(), next(), urlparse, match.group, e.args[k]) are guarded", floor=20)
    rep.rule("R03c", "handler lookup never falls through silently", floor=1)
    rep.rule("R03d", "history independence: persistent writes are exactly the two cache files; module-level state is only lazily initialised from configuration, never mutated per request", floor=2)
    rep.rule("R03f", "the stat performed on a still unfiltered selector catches ValueError (embedded NUL) as well as OSError", floor=1)
    rep.rule("R03j", "= R05g: every URL protocol hands the handlers the decoded, slash-normalised selector (a selector with a trailing slash makes "
             "the directory handler cache an empty listing under the directory's own cache file: later requests would depend on it)", floor=3)
    rep.rule("R03g", "status lines echo request text only after line breaks were collapsed", floor=2)
    rep.rule("R03h", "a Gopher+ `+N` status line announces the number of bytes that follow: transforming handlers leave the size unset, menus use the unknown-length marker", floor=5)
    rep.rule("R03k", "a value parsed from request text into a date or number object is ordered (<, <=, >, >=) against another value only under a "
             "guard for TypeError: such parsers return objects that do not compare with every other one (a date with and without a time zone), and "
             "the error would leave handle() without a response", floor=0)
    parsed_value_obligations(ctx, rep, "R03k")
    rep.rule("R03l", "= R12i: the not-found exception can always be constructed and formatted, whatever characters the selector holds (it logs its own "
             "text in its constructor; a TypeError/ValueError from there escapes every handle() and leaves the client without a reply)", floor=1)
    from .c12 import notfound_text_obligations
    notfound_text_obligations(ctx, rep, "R03l")
    rep.rule("R03o", "= R05d (mailboxes): a message number a folder can list is looked up by stepping through the mailbox the way the folder counted - "
             "with the same total operations (no index arithmetic that can fail for a number no folder has)", floor=0)
    from .c05 import folder_message_evaluation
    folder_message_evaluation(ctx, rep, "R03o")
    rep.rule("R03n", "= R10e: what a listing request leaves behind for later requests (the cached entries) is the entries themselves, pickled "
             "completely - a cached answer is then the answer that would be generated afresh", floor=1)
    from .c10 import complete_pickling_obligations
    complete_pickling_obligations(ctx, rep, "R03n")
    rep.rule("R03m", "request text (selector, search string, header values, what was read back from an entry) is never the format string of a "
             "`%` or `.format()` operation, only an argument of one", floor=1)
    format_string_obligations(ctx, rep, "R03m")
    rep.rule("R03i", "partial operations on text read from content files (link files, gophermaps, sidecars): index, unpack, int() are guarded", floor=4)
    rep.rule("R03e", "mailbox constructors (fail with mailbox.Error, not OSError) are guarded or converted", floor=2)
    rep.assume("served content (gophermaps, link files, mailboxes, archives) is well formed: partial operations on file content are not tracked")

    # ------------------------------------------------------------------ R03a
    SELECT = ("gethandler", "getentry", "prepare")
    NOINLINE = ("write_status", "writedir", "gethandler", "renderobjinfo", "log", "adjust_mimetype", "adjustmimetype", "filenotfound",
                "headerslurp", "handlerwrite", "renderdirstart", "renderdirend", "renderabstract", "canhandlerequest", "getrenderstr")
    done_handles = set()
    for P in ctx.protocol_classes():
        h = prog.resolve_method(P, "handle")
        if h is None or (h, P) in done_handles:
            continue
        if h.cls is not P and any((h, Q) in done_handles for Q in prog.mro(P)[1:]) and not any(
                prog.resolve_method(P, nm) is not prog.resolve_method(h.cls, nm) for nm in ("filenotfound", "write_status", "handlerwrite", "gethandler")):
            continue  # inherited unchanged, with the same reply writers: decided for the base class
        done_handles.add((h, P))
        rep.analysed(h.qualname)
        problems = []

        def rp(call, target):
            if isinstance(call.func, ast.Attribute) and call.func.attr in SELECT and target.kind == "repo":
                return ["FileNotFound", "OSError"]
            return []

        # handle() with the helpers of the protocol class it calls (one reply, wherever its pieces live)
        w = Walker(prog, ctx.resolver, raise_points=rp, merge_loops=True,
                   inline=lambda fn, t, d: d < 3 and t.bound_cls is not None and fn.name not in NOINLINE and fn.cls is not None
                   and fn.cls.module.name.startswith("pygopherd.protocols"))
        try:
            paths = w.run(h, P)
        except Exception:
            paths = []
            problems.append("could not enumerate the paths through handle()")
        selected = False
        status_protocol = any(isinstance(ev.node.func, ast.Attribute) and ev.node.func.attr == "write_status" for p_ in paths for ev in p_.calls())
        for p in paths:
            raised_at = [i for i, e in enumerate(p.events) if e.kind == "raise" and e.extra == "implicit" and isinstance(e.node, ast.Call)
                         and isinstance(e.node.func, ast.Attribute) and e.node.func.attr in SELECT]
            if any(e.kind == "call" and isinstance(e.node.func, ast.Attribute) and e.node.func.attr in SELECT for e in p.events):
                selected = True
            if raised_at:
                i0 = raised_at[0]
                exc = p.events[i0].target
                what = f"`{norm(p.events[i0].node)}` can raise {exc}"
                if p.kind == "raise":
                    problems.append(f"{what} with no handler that sends the protocol's error reply")
                    continue
                replied = any(e.kind == "call" and isinstance(e.node.func, ast.Attribute) and e.node.func.attr in ("filenotfound", "write_status")
                              and dotted(e.node.func.value) == "self" for e in p.events[i0:])
                if not replied:
                    problems.append(f"{what} with no handler that sends the protocol's error reply")
            if status_protocol and p.kind != "raise":
                sts = []
                body_after_error = False
                err = False
                for ev in p.calls():
                    if isinstance(ev.node.func, ast.Attribute) and ev.node.func.attr == "write_status":
                        a0 = (ev.extra or {}).get("args") or []
                        code = a0[0].value if a0 and a0[0].kind == "const" else (
                            ev.node.args[0].value if ev.node.args and isinstance(ev.node.args[0], ast.Constant) else None)
                        sts.append(code)
                        if isinstance(code, int) and (code in (4, 5) or code >= 40):
                            err = True
                    elif err and isinstance(ev.node.func, ast.Attribute) and ev.node.func.attr in ("write", "writedir", "handlerwrite"):
                        body_after_error = True
                if len(sts) != 1:
                    problems.append(f"a path through handle() writes {len(sts)} status lines {sts} (must be exactly one)")
                if body_after_error:
                    problems.append("a body is written after an error status")
        if not selected and not problems:
            problems.append("handle() never selects a handler")
        owner = f"{P.name}: " if h.cls is not P else ""
        rep.add("R03a", f"{owner}{h.qualname} converts errors into replies", not problems, ctx.where(h),
                "; ".join(sorted(set(problems))[:4]), key=f"R03a|{owner}{h.qualname}|" + ";".join(sorted(set(problems))))

    # ------------------------------------------------------------------ R03b
    partial_op_obligations(ctx, rep, "R03b", request_path_functions(ctx), kinds=("P1", "P2", "P3", "P4", "P5", "P6"))

    # ------------------------------------------------------------------ R03c
    gh = ctx.func("handlers.HandlerMultiplexer.getHandler")
    if gh is None:
        rep.fail("R03c", "getHandler", detail="handler multiplexer not found")
    else:
        w = Walker(prog, ctx.resolver)
        bad = []
        for p in w.run(gh):
            if p.kind == "fall":
                bad.append("falls off the end (returns None)")
            elif p.kind == "return":
                ret = [e for e in p.events if e.kind == "return"][-1]
                if ret.node.value is None or (isinstance(ret.node.value, ast.Constant) and ret.node.value.value is None):
                    bad.append("returns None")
            elif p.kind == "raise" and str(p.value).split(".")[-1] != "FileNotFound":
                bad.append(f"raises {p.value}")
        rep.add("R03c", "getHandler: a handler or FileNotFound", not bad, ctx.where(gh), "; ".join(sorted(set(bad))),
                key="R03c|getHandler|" + ";".join(sorted(set(bad))))

    # ------------------------------------------------------------------ R03d
    allowed = {("handlers.dir.DirHandler.savecache", "cache"), ("handlers.ZIP.VFSZip.save_cache", "cache")}
    seen_sites = set()
    n_w = 0
    for H in ctx.handler_classes():
        for mname in ("__init__", "canhandlerequest", "gethandler", "getentry", "prepare", "isdir", "write", "getdirlist"):
            m = prog.resolve_method(H, mname)
            if m is None:
                continue
            for s in eff.sites(m, H):
                if s.effect in ("FS_OPEN_W", "FS_UNLINK") and (s.func, id(s.call)) not in seen_sites:
                    seen_sites.add((s.func, id(s.call)))
                    if s.func.cls is not None and s.func.cls.name == "VFS_Real":
                        continue  # the VFS layer itself; callers are the sites
                    n_w += 1
                    ok = any(s.func.qualname == q for q, _ in allowed) or _only_from_cache_savers(prog, eff, s.func)
                    rep.add("R03d", f"{s.func.qualname}: {norm(s.call)[:60]}", ok, ctx.where(s.func, s.call),
                            "" if ok else f"{s.effect}: request handling leaves state behind that later responses may depend on",
                            key=f"R03d|{s.func.qualname}|{norm(s.call.func)}")
    # in-process state: what one request leaves in module-level / shared objects is seen by the next
    from .c14 import request_functions, shared_state_obligations

    shared_state_obligations(ctx, rep, "R03d", eff, request_functions(ctx, eff), sequential=True)

    pregate_stat_obligations(ctx, rep, "R03f", eff)

    # ------------------------------------------------------------------ R03j (= R05g)
    from .c05 import request_target_evaluation

    request_target_evaluation(ctx, rep, "R03j")

    # ------------------------------------------------------------------ R03h (shared with C04/C15)
    from .c04 import length_obligations

    length_obligations(ctx, rep, "R03h")

    # ------------------------------------------------------------------ R03i
    content_funcs = []
    for H in ctx.handler_classes():
        for c in prog.mro(H):
            for m in c.methods.values():
                if prog.resolve_method(H, m.name) is m and (m, m.cls) not in content_funcs:
                    content_funcs.append((m, m.cls))
    ge_ = ctx.cls("gopherentry.GopherEntry")
    if ge_ is not None:
        content_funcs.extend((m, ge_) for m in ge_.methods.values())
    content_funcs = [(m, C) for m, C in content_funcs if any(isinstance(x, ast.Attribute) and x.attr in ("readline", "readlines", "read") for x in ast.walk(m.node))]
    partial_op_obligations(ctx, rep, "R03i", content_funcs, kinds=("P1", "P2", "P3"), content=True)

    # ------------------------------------------------------------------ R03g
    pb_ = ctx.cls("protocols.base.BaseGopherProtocol")
    for P in ctx.protocol_classes():
        ws = prog.resolve_method(P, "write_status")
        if ws is None or ws.cls is P and any(prog.resolve_method(Q, "write_status") is ws for Q in prog.subclasses(P) if Q is not P) \
                and prog.resolve_method(P, "canhandlerequest") is None:
            continue
        if ws is None or (ws.cls is not P and ws.cls is not None and pb_ is not None and prog.is_subclass(ws.cls, pb_)
                          and prog.resolve_method(ws.cls, "canhandlerequest") is not None and "canhandlerequest" in ws.cls.methods):
            continue  # none, or inherited from another concrete protocol class (decided there)
        meta = ws.params[2] if len(ws.params) > 2 else "meta"
        writes = [n for n in ast.walk(ws.node) if isinstance(n, ast.Call) and isinstance(n.func, ast.Attribute) and n.func.attr == "write"]
        problems = []
        # decided by evaluating write_status() on a text with every kind of line break, when the evaluator can follow it
        verdict = _status_line_evaluation(ctx, P, ws)
        if verdict is not None:
            rep.add("R03g", f"{P.qualname}.write_status: one-line status", not verdict, ctx.where(ws), "; ".join(verdict), key=f"R03g|{P.qualname}.write_status")
            continue
        uses_meta = any(isinstance(x, ast.Name) and x.id == meta for w_ in writes for x in ast.walk(w_))
        if uses_meta:
            collapsed = False
            for n in ast.walk(ws.node):
                if isinstance(n, ast.Assign) and any(isinstance(tg, ast.Name) and tg.id == meta for tg in n.targets) and _collapses_lines(n.value, meta):
                    # the collapse must come before the write
                    if all(n.lineno < w_.lineno for w_ in writes):
                        collapsed = True
            for w_ in writes:
                for x in ast.walk(w_):
                    if _collapses_lines(x, meta):
                        collapsed = True
            if not collapsed:
                problems.append(f"the status line interpolates `{meta}` (error texts echo the percent-decoded selector) without removing CR/LF: "
                                "a request such as /a%0Ab breaks the one-line status into two")
        rep.add("R03g", f"{P.qualname}.write_status: one-line status", not problems, ctx.where(ws), "; ".join(problems), key=f"R03g|{P.qualname}.write_status")

    # ------------------------------------------------------------------ R03e
    seen_ctor_sites = set()
    for H in ctx.handler_classes():
        # methods the class actually runs, wherever they are defined (mixins, base classes)
        own = [m_ for c_ in prog.mro(H) for m_ in c_.methods.values() if prog.resolve_method(H, m_.name) is m_]
        for m in own:
            for call, t in eff.calls_of(m, H):
                if t.kind == "ext" and t.ext in MAILBOX_CTORS:
                    if (id(call), H.qualname) in seen_ctor_sites or (m.cls is not H and any(
                            (id(call), B.qualname) in seen_ctor_sites for B in prog.mro(H)[1:] if hasattr(B, "qualname") and m.cls is not None and prog.is_subclass(B, m.cls) and B in ctx.handler_classes())):
                        continue
                    seen_ctor_sites.add((id(call), H.qualname))
                    guarded = False
                    for tr in enclosing_tries(m.node, call):
                        for hd in tr.handlers:
                            if catches(hd, "NoSuchMailboxError") or catches(hd, "Error"):
                                guarded = True
                    # ... or every caller inside the class hierarchy guards the call
                    if not guarded:
                        callers = []
                        for c in prog.mro(H):
                            for m2 in c.methods.values():
                                for call2, t2 in eff.calls_of(m2, H):
                                    if t2.kind == "repo" and m in t2.funcs:
                                        callers.append((m2, call2))
                        if callers and all(any(catches(hd, "NoSuchMailboxError") for tr in enclosing_tries(m2.node, call2) for hd in tr.handlers)
                                           for m2, call2 in callers):
                            guarded = True
                    create_false = any(k.arg == "create" and isinstance(k.value, ast.Constant) and k.value.value is False for k in call.keywords)
                    # create=True (the default for Maildir) never raises NoSuchMailboxError
                    if not create_false and t.ext.endswith("Maildir"):
                        guarded = guarded or True
                    # a folder handler has verified the mailbox in canhandlerequest (same request);
                    # message handlers accept on the selector text alone
                    verified = _existence_checked(ctx, prog, H)
                    ok = guarded or verified
                    detail = "" if ok else ("raises mailbox.NoSuchMailboxError (not an OSError) when the mailbox does not exist; "
                                            "nothing converts it into a not-found reply and canhandlerequest does not check existence")
                    # a mailbox constructor creates the mailbox on disk unless told not to (Maildir: create=True by default)
                    creates = (t.ext.endswith("Maildir") and not create_false) or \
                        any(k.arg == "create" and not (isinstance(k.value, ast.Constant) and k.value.value is False) for k in call.keywords)
                    if creates and not verified:
                        ok = False
                        detail = (detail + "; " if detail else "") + "creates the mailbox directories when the path does not exist: a read request for " \
                            "`<missing path>|/…MESSAGE/n` leaves new directories in the content tree, and later listings differ"
                    owner = f"{H.name}:" if m.cls is not H else ""
                    rep.add("R03e", f"{owner}{m.qualname}: {norm(call)[:60]}", ok, ctx.where(m, call), detail,
                            key=f"R03e|{owner}{m.qualname}|{norm(call.func)}")
    # zipfile.ZipFile() raises zipfile.BadZipFile (not an OSError) for an archive is_zipfile() accepted but that is damaged
    for f in prog.all_functions():
        if not f.module.name.startswith("pygopherd.handlers"):
            continue
        for call, t in eff.calls_of(f, f.cls):
            if t.kind == "ext" and t.ext == "zipfile.ZipFile":
                ok = False
                for tr in enclosing_tries(f.node, call):
                    for hd in tr.handlers:
                        if catches(hd, "BadZipFile") or catches(hd, "Exception"):
                            # the handler must not let it go on as BadZipFile
                            w_ = Walker(prog, ctx.resolver)
                            hp = w_.run_body(hd.body, f, f.cls)
                            if all(p.kind != "raise" or str(p.value).split(".")[-1] in ("OSError", "IOError", "FileNotFound", "FileNotFoundError") for p in hp):
                                ok = True
                rep.add("R03e", f"{f.qualname}: {norm(call)[:60]}", ok, ctx.where(f, call),
                        "" if ok else "raises zipfile.BadZipFile (not an OSError) for a damaged archive that passed is_zipfile(); nothing converts it "
                        "into the protocol's error reply, and a directory containing the archive cannot be listed", key=f"R03e|{f.qualname}|zipfile.ZipFile")


def pregate_functions(ctx, eff):
    """Code that runs on a selector before any filter has seen it: the multiplexer prologue with the
    module-level helpers it calls, and the handler constructors with the self-methods they call."""
    prog = ctx.prog
    gh = ctx.func("handlers.HandlerMultiplexer.getHandler")
    pre = []
    seen_pre = set()
    if gh is not None:
        work = [gh]
        while work:
            g = work.pop()
            if (g, None) in seen_pre:
                continue
            seen_pre.add((g, None))
            pre.append((g, None))
            for call, t in eff.calls_of(g, None):
                if t.kind == "repo" and not t.by_name:
                    # module-level helpers (of the multiplexer's module, or small shared ones such as a stat-or-None function)
                    work.extend(f2 for f2 in t.funcs if f2 is not None and f2.cls is None and f2.module.name.startswith("pygopherd")
                                and (f2.module is g.module or len(f2.node.body) <= 8))
    for H in ctx.handler_classes():
        init = prog.resolve_method(H, "__init__")
        work = [init] if init is not None else []
        while work:
            m = work.pop()
            if (m, H) in seen_pre:
                continue
            seen_pre.add((m, H))
            pre.append((m, H))
            for call, t in eff.calls_of(m, H):
                if t.kind == "repo" and (t.bound_cls is not None or (call.args and dotted(call.args[0]) == "self")):
                    work.extend(t.funcs)
    return pre


def pregate_stat_obligations(ctx, rep, rule, eff):
    """VFS calls made on a selector no filter has seen yet (multiplexer prologue, handler
    constructors): must catch ValueError (embedded NUL) besides OSError."""
    prog = ctx.prog
    pre = pregate_functions(ctx, eff)
    done_calls = set()
    for m, H in pre:
        for call, t in eff.calls_of(m, H):
            if id(call) in done_calls:
                continue
            # os.path.exists/isdir/isfile (what the VFS predicates are built on) swallow ValueError and OSError themselves
            is_stat = eff.is_vfs_call(t) and t.funcs[0].name in ("stat", "listdir", "open")
            if not is_stat:
                continue
            done_calls.add(id(call))
            tries = enclosing_tries(m.node, call)
            need = ["OSError", "ValueError"]
            missing = [e for e in need if not any(catches(hd, e) for tr in tries for hd in tr.handlers)]
            rep.add(rule, f"{m.qualname}: {norm(call)[:50]}", not missing, ctx.where(m, call),
                    f"runs on a selector no filter has seen yet and does not catch {missing}: a selector containing a NUL byte makes os.stat raise "
                    "ValueError, which escapes and leaves the client without a reply" if missing else "", key=f"{rule}|{m.qualname}|{norm(call.func)}")


def pregate_flow_obligations(ctx, rep, rule, eff):
    """What the stat on the unfiltered selector found may only be handed on to the handlers (which look at it after
    their filter): it must not steer the multiplexer itself or reach its reply, or the reply tells a client whether a
    path outside the root exists."""
    from ..structure import parents
    pre = pregate_functions(ctx, eff)
    stat_helpers = set()
    for m, H in pre:
        if H is not None:
            continue
        looks = [call for call, t in eff.calls_of(m, H) if eff.is_vfs_call(t) and t.funcs[0].name in ("stat", "exists", "isdir", "isfile")]
        if not looks:
            continue
        rets = [n for n in ast.walk(m.node) if isinstance(n, ast.Return)]
        stmts = [n for n in ast.walk(m.node) if isinstance(n, ast.stmt) and n is not m.node]
        simple = all(isinstance(n, (ast.Return, ast.Try, ast.With, ast.Pass, ast.Expr)) and
                     (not isinstance(n, ast.Expr) or isinstance(n.value, ast.Constant)) for n in stmts)
        if simple and rets and all(r.value is None or isinstance(r.value, ast.Constant) or r.value in looks for r in rets) and any(r.value in looks for r in rets):
            stat_helpers.add(m)
    for m, H in pre:
        if H is not None:
            continue
        stat_calls = [call for call, t in eff.calls_of(m, H) if eff.is_vfs_call(t) and t.funcs[0].name in ("stat", "listdir", "open", "exists", "isdir", "isfile")]
        # a helper that only looks and hands back what it found (or None): its callers hold the result
        stat_calls += [call for call, t in eff.calls_of(m, H) if t.kind == "repo" and any(f_ in stat_helpers for f_ in t.funcs)]
        if m in stat_helpers:
            continue
        if not stat_calls:
            continue
        pm = parents(m.node)
        held = {}
        for call in stat_calls:
            cur = call
            while cur is not None and not isinstance(cur, ast.stmt):
                cur = pm.get(cur)
            if isinstance(cur, (ast.Assign, ast.AnnAssign)):
                tg = cur.targets if isinstance(cur, ast.Assign) else [cur.target]
                for t_ in tg:
                    if isinstance(t_, ast.Name):
                        held[t_.id] = call
            elif cur is not None and not isinstance(cur, ast.Expr):
                rep.fail(rule, f"{m.qualname}: {norm(call)[:50]}", ctx.where(m, call),
                         "the result of a look at the unfiltered selector is used directly in a statement of the multiplexer "
                         "(only the handlers, after their filter, may look at it)", key=f"{rule}|{m.qualname}|direct|{norm(call.func)}")
            # the handlers of the try around it must not answer themselves
            for tr in enclosing_tries(m.node, call):
                for hd in tr.handlers:
                    bad = [n for st_ in hd.body for n in ast.walk(st_) if isinstance(n, (ast.Raise, ast.Return, ast.Continue, ast.Break))
                           or (isinstance(n, ast.Call))]
                    rep.add(rule, f"{m.qualname}: failure of {norm(call.func)} is only noted", not bad, ctx.where(m, hd),
                            "the handler of a failing look at the unfiltered selector answers or branches by itself: missing and "
                            "present paths outside the root get different replies" if bad else "",
                            key=f"{rule}|{m.qualname}|except|{norm(call.func)}")
        for name, call in held.items():
            problems = []
            for n in ast.walk(m.node):
                if not (isinstance(n, ast.Name) and n.id == name and isinstance(n.ctx, ast.Load)):
                    continue
                par = pm.get(n)
                ok = False
                if isinstance(par, ast.Call) and (n in par.args):
                    ok = True
                elif isinstance(par, ast.keyword):
                    ok = True
                # ... but not inside a raise / return / test
                cur = n
                while cur is not None and not isinstance(cur, ast.stmt):
                    nxt = pm.get(cur)
                    if isinstance(nxt, (ast.If, ast.While, ast.IfExp, ast.Assert)) and getattr(nxt, "test", None) is cur:
                        ok = False
                    cur = nxt
                if isinstance(cur, (ast.Raise, ast.Return)) and not (isinstance(cur, ast.Return) and isinstance(par, ast.Call)):
                    ok = False
                if isinstance(cur, ast.Raise):
                    ok = False
                if not ok:
                    problems.append(f"line {n.lineno}: `{norm(pm.get(n))[:50]}`")
            rep.add(rule, f"{m.qualname}: {name} (from {norm(call.func)}) only reaches the handlers", not problems, ctx.where(m, call),
                    "what the stat on the unfiltered selector found steers the multiplexer or its reply (" + "; ".join(problems[:3]) +
                    "): a selector that climbs out of the root is answered differently depending on what exists there" if problems else "",
                    key=f"{rule}|{m.qualname}|{name}")



def _only_from_cache_savers(prog, eff, func, depth=0) -> bool:
    """Is this function part of writing one of the two cache files: named savecache/save_cache itself, or only ever called
    from such functions (a helper, a small cache-file class or module the writers delegate to)?"""
    if func.name in ("savecache", "save_cache"):
        return True
    if depth > 3:
        return False
    cache = prog.__dict__.setdefault("_pgv_callers", None)
    if cache is None:
        cache = {}
        for g in prog.all_functions():
            if not g.module.name.startswith("pygopherd"):
                continue
            for call, t in eff.calls_of(g, g.cls):
                if t.kind in ("repo", "ctor"):
                    for f2 in t.funcs:
                        if f2 is not None:
                            cache.setdefault(f2, set()).add(g)
        prog.__dict__["_pgv_callers"] = cache
    callers = cache.get(func) or set()
    callers = {g for g in callers if g is not func}
    return bool(callers) and all(_only_from_cache_savers(prog, eff, g, depth + 1) for g in callers)


def _status_line_evaluation(ctx, P, ws):
    """write_status(51, <text with CR, LF and CRLF inside>) evaluated: what is written has to be a single line.
    -> list of problems, or None when the evaluation could not follow the code."""
    from ..paths import Const, Walker

    prog = ctx.prog
    if len(ws.params) < 3:
        return None
    holder = {}

    def cv(call, target, st):
        f = call.func
        if isinstance(f, ast.Attribute) and f.attr == "write" and "wfile" in norm(f.value):
            a = holder["w"].cur_args
            prev = st.facts.get("__written")
            prev = prev.value if prev is not None and prev.kind == "const" else ()
            st.facts["__written"] = Const(prev + ((a[0].value if a and a[0].kind == "const" else None),))
            return Const(None)
        return None

    w = Walker(prog, ctx.resolver, call_value=cv, exact_loops=True, unroll=6,
               inline=lambda fn, t, d: d < 3 and (t.bound_cls is not None or (fn.cls is None and fn.module.name.startswith("pygopherd"))))
    holder["w"] = w
    outs = set()
    long_outs = set()
    # (the second text is what a request for a long missing path with accented letters echoes: longer than any limit a protocol
    # might want to put on its status text, and every second byte is inside a character)
    for meta in ("not found: /a\r\nb\nc\rd", "'/x" + "\u00e9" * 700 + "' does not exist", "'/" + "\u20ac" * 500 + "a' does not exist"):
        try:
            paths = w.run(ws, P, env={ws.params[1]: Const(51), ws.params[2]: Const(meta)})
        except Exception:
            return None
        for p in paths:
            if p.kind == "raise":
                return None
            wv = p.state.facts.get("__written")
            if wv is None or wv.kind != "const" or not wv.value or any(not isinstance(x, (bytes, str)) for x in wv.value):
                return None
            (outs if len(meta) < 100 else long_outs).add(b"".join(x if isinstance(x, bytes) else x.encode() for x in wv.value))
    if not outs:
        return None
    problems = []
    for text in long_outs:
        try:
            text.decode("utf-8")
        except UnicodeDecodeError as exc:
            problems.append(f"a long status text with non-ASCII letters is written as {len(text)} bytes that are not UTF-8 ({exc.reason} at byte {exc.start}): "
                            "the text was cut in the middle of a character")
        if not text.startswith(b"51 ") or not text.endswith(b"\r\n") or b"\n" in text[:-2]:
            problems.append(f"a long status text is written as {text[:30]!r}...{text[-12:]!r}: not one `<code> <text>` line")
    for text in outs:
        body = text[:-2] if text.endswith(b"\r\n") else (text[:-1] if text.endswith(b"\n") else None)
        if body is None:
            problems.append(f"the status line {text!r} does not end with a line break")
        elif b"\r" in body or b"\n" in body:
            problems.append(f"a status text containing line breaks is written as {text!r}: error texts echo the percent-decoded selector, so a request "
                            "such as /a%0Ab breaks the one-line status into two")
    return problems


def _collapses_lines(expr, name) -> bool:
    """Does `expr` compute `name` with every CR/LF removed or replaced?"""
    import re as _re

    if isinstance(expr, ast.Call):
        d = dotted(expr.func) or ""
        if d in ("re.sub",) and len(expr.args) >= 3 and isinstance(expr.args[0], ast.Constant) and isinstance(expr.args[1], ast.Constant) \
                and any(isinstance(x, ast.Name) and x.id == name for x in ast.walk(expr.args[2])):
            try:
                rx = _re.compile(expr.args[0].value)
            except Exception:
                return False
            rep_ = str(expr.args[1].value)
            return all(rx.fullmatch(c) or rx.sub("", c) == "" for c in ("\r", "\n")) and "\n" not in rep_ and "\r" not in rep_
        if isinstance(expr.func, ast.Attribute) and expr.func.attr == "replace" and len(expr.args) == 2:
            # name.replace("\r", x).replace("\n", y)
            seen = set()
            cur = expr
            while isinstance(cur, ast.Call) and isinstance(cur.func, ast.Attribute) and cur.func.attr == "replace" and len(cur.args) == 2:
                if isinstance(cur.args[0], ast.Constant) and isinstance(cur.args[1], ast.Constant) and "\n" not in str(cur.args[1].value) and "\r" not in str(cur.args[1].value):
                    seen.add(cur.args[0].value)
                cur = cur.func.value
            return isinstance(cur, ast.Name) and cur.id == name and {"\r", "\n"} <= seen
        if isinstance(expr.func, ast.Attribute) and expr.func.attr == "join" and isinstance(expr.func.value, ast.Constant) \
                and "\n" not in str(expr.func.value.value) and "\r" not in str(expr.func.value.value) and expr.args:
            a = expr.args[0]
            return isinstance(a, ast.Call) and isinstance(a.func, ast.Attribute) and a.func.attr in ("splitlines", "split") \
                and isinstance(a.func.value, ast.Name) and a.func.value.id == name and (a.func.attr == "splitlines" or not a.args)
    return False


def _existence_checked(ctx, prog, H) -> bool:
    """Does every accepting path of H.canhandlerequest test self.statresult (truthy)?"""
    acc = accept_paths(prog, ctx.resolver, H)
    if not acc:
        return False
    for facts, evs in acc:
        ok = False
        for f in facts:
            if f.truth and norm(f.node) == "self.statresult":
                ok = True
        if not ok:
            return False
    return True


# ---------------------------------------------------------------------------------------------- R03k
_MIXED_PARSERS = ("parsedate_to_datetime", "strptime", "fromisoformat", "parsedate", "parsedate_tz", "mktime_tz", "Decimal", "Fraction")


def parsed_value_obligations(ctx, rep, rule="R03k"):
    """Ordering comparisons whose operand comes from a date / number parser applied to something that is not a constant."""
    prog = ctx.prog
    n = 0
    for f in prog.all_functions():
        if not (f.module.name.startswith("pygopherd.protocols") or f.module.name.startswith("pygopherd.handlers") or f.module.name == "pygopherd.server"):
            continue
        assigns = {}
        for a in ast.walk(f.node):
            if isinstance(a, ast.Assign) and len(a.targets) == 1 and isinstance(a.targets[0], ast.Name):
                assigns.setdefault(a.targets[0].id, []).append(a.value)

        def parsed(e, depth=0):
            if depth > 3:
                return None
            if isinstance(e, ast.Call):
                d = dotted(e.func) or ""
                if d.split(".")[-1] in _MIXED_PARSERS and e.args and not all(isinstance(a, ast.Constant) for a in e.args):
                    return d
            if isinstance(e, ast.Name):
                for v in assigns.get(e.id, []):
                    got = parsed(v, depth + 1)
                    if got:
                        return got
            return None

        for c in ast.walk(f.node):
            if not (isinstance(c, ast.Compare) and any(isinstance(o, (ast.Lt, ast.LtE, ast.Gt, ast.GtE)) for o in c.ops)):
                continue
            src = next((parsed(x) for x in [c.left] + list(c.comparators) if parsed(x)), None)
            if not src:
                continue
            n += 1
            guarded = any(catches(h, "TypeError") for tr in enclosing_tries(f.node, c) for h in tr.handlers
                          if any(x is c for b_ in tr.body for x in ast.walk(b_)))
            rep.add(rule, f"{f.qualname}: {norm(c)[:60]}", guarded, ctx.where(f, c),
                    "" if guarded else f"`{norm(c)[:50]}` orders a value from {src}() against another object outside any guard for TypeError: for some request texts "
                    "the parser returns an object of a kind that does not compare (a date without time zone against one with), the error is not one the "
                    "protocol turns into a reply, and the client gets no response", key=f"{rule}|{f.qualname}|{norm(c)[:60]}")
    if not n:
        rep.ok(rule, "no ordering comparison on a parsed request value", "pygopherd/protocols", "", key=f"{rule}|none", nontrivial=False)
