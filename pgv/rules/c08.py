"""C08  UMN link files, .cap overrides and abstracts - ordering clause only.

R08a  the comparator touches its arguments only through comparisons, so its result is a
      function of the order type of (num1, num2, 0) x (name1 ? name2).  The bodies of
      entrycmp / sgn / cmp are evaluated by the abstract walker on representatives of
      every order type (25 number pairs x 3 name relations) and checked against the
      documented bucket order: positive numbers ascending, then unnumbered (0) by title,
      then negative numbers; antisymmetry everywhere.  Ties on number and title are
      skipped, as in the property.
R08b  the sort that produces the final order uses that comparator, after the merge
R08c  MergeLinkFiles, per path of its loop: add / merge / hide as documented (see merge_obligations)
R08d  mergeentries overrides only the fields a block sets
R08e  .cap files: Type=X or - hides, anything else overrides; unreadable .cap files are ignored
R08f  Host=+ / Port=+ leave the field unset, which every renderer reads as "this server"
R08g  the text of link files: getLinkItem() evaluated on scripted blocks (Path= forms, Host=+/Port=+, Numb=,
      Abstract= continuation, comments, .cap files) must give the documented entry
"""

from __future__ import annotations

import ast

from ..loader import dotted, norm
from ..paths import Const, Walker, truth, AVal


def expected(n1, t1, n2, t2):
    """Sign of the documented order (None = not specified)."""
    def bucket(n):
        return 0 if n > 0 else (1 if n == 0 else 2)
    b1, b2 = bucket(n1), bucket(n2)
    if b1 != b2:
        return -1 if b1 < b2 else 1
    if b1 == 2:
        if n1 == n2:
            return (t1 > t2) - (t1 < t2) if t1 != t2 else None
        return None  # order among negative numbers is not documented
    if n1 != n2:
        return -1 if n1 < n2 else 1
    if t1 == t2:
        return None
    return -1 if t1 < t2 else 1



def extension_strip_obligations(ctx, rep, rule):
    """`extstrip` takes the file's own extension off its title - the last occurrence, once - and leaves every other name alone:
    fileext.extstrip evaluated with a two-entry type map."""
    from ..paths import Const, Walker

    prog = ctx.prog
    mod = prog.modules.get("pygopherd.fileext")
    f = mod.functions.get("extstrip") if mod else None
    if f is None or len(f.params) < 2:
        rep.fail(rule, "fileext.extstrip", detail="extension stripping routine not found")
        return
    tm = {"text/plain": [".txt", ".text"], "text/html": [".html", ".htm"]}
    cases = [("notes.txt", "text/plain", "notes"), ("notes.txt.old.txt", "text/plain", "notes.txt.old"), ("a.txt.txt", "text/plain", "a.txt"),
             ("index.html.en.html", "text/html", "index.html.en"), ("readme", "text/plain", "readme"), ("notes.txt", "text/html", "notes.txt"),
             ("notes.txt", None, "notes.txt"), ("notes.txt", "image/png", "notes.txt"), ("x.text", "text/plain", "x"), (".txt", "text/plain", "")]
    problems, n = [], 0
    for name, typ, want in cases:
        facts = {"typemap": Const({k: list(v) for k, v in tm.items()})}
        w = Walker(prog, ctx.resolver, exact_loops=True, unroll=6, max_paths=500, assumptions=dict(facts), sticky=set(facts),
                   inline=lambda fn, t, d: d < 2 and fn.module is mod)
        outs = set()
        try:
            for p in w.run(f, None, env={f.params[0]: Const(name), f.params[1]: Const(typ)}, facts=dict(facts)):
                outs.add(p.value.value if p.kind == "return" and p.value is not None and p.value.kind == "const" else "?")
        except Exception:
            outs = {"?"}
        if len(outs) != 1 or "?" in outs:
            continue
        n += 1
        got = next(iter(outs))
        if got != want:
            problems.append(f"extstrip({name!r}, {typ!r}) gives {got!r}, the title without its extension is {want!r}")
    rep.add(rule, f"{f.qualname}: the file's own extension is taken off, once, at the end [{n} of {len(cases)} evaluated]", not problems and n >= len(cases) // 2,
            ctx.where(f), "; ".join(problems[:2]) if problems else ("" if n >= len(cases) // 2 else "the walker could not follow the routine"),
            key=f"{rule}|extstrip", nontrivial=n > 0)


def check(ctx, rep):
    prog = ctx.prog
    rep.rule("R08a", "entrycmp evaluated on every order type of (num1, num2, 0) x (name1 ? name2): documented bucket order and antisymmetry", floor=40)
    rep.rule("R08b", "the final sort uses entrycmp, after link files were merged", floor=1)
    rep.rule("R08c", "MergeLinkFiles: non-merging / unmatched blocks are appended once; Type=X removes the walked entry (idempotently); other blocks merge into it; index not shrunk; nothing dropped by selector text", floor=1)
    rep.rule("R08d", "mergeentries overrides exactly the fields the block sets (not-None guard per field) and carries extended attributes", floor=1)
    rep.rule("R08e", ".cap files: Type=X or - hides the file, anything else is merged and the file listed once; unreadable .cap ignored", floor=1)
    rep.rule("R08g", "link-file text: getLinkItem evaluated on scripted blocks gives the documented entry (Path= forms, Host=+/Port=+, Numb, Abstract continuation, comments, .cap)", floor=10)
    rep.rule("R08f", "Host=+ / Port=+ leave host/port unset (this server)", floor=2)
    rep.rule("R08i", "titles lose exactly the file's own extension (the last occurrence, at the end): fileext.extstrip evaluated on 10 names", floor=1)
    extension_strip_obligations(ctx, rep, "R08i")
    rep.rule("R08h", "= R15e: a sidecar .abstract file becomes the entry's abstract line for line (lines end at the line feed only; form feeds and "
             "other separators inside a line stay where they are): the sidecar reader evaluated on a scripted file", floor=0)
    from .c15 import _sidecars_by_evaluation
    ge_ = ctx.cls("gopherentry.GopherEntry")
    he_ = prog.resolve_method(ge_, "handleeaext") if ge_ else None
    if he_ is None:
        rep.fail("R08h", "GopherEntry.handleeaext", detail="sidecar reader not found")
    elif not _sidecars_by_evaluation(ctx, rep, ge_, he_, rule="R08h"):
        rep.ok("R08h", "sidecar reader: decided by its shape under C15 (R15e), the evaluation could not follow it", ctx.where(he_), "", key="R08h|shape", nontrivial=False)
    umn = ctx.cls("handlers.UMN.UMNDirHandler")
    ec = prog.resolve_method(umn, "entrycmp") if umn else None
    if ec is None:
        rep.fail("R08a", "UMNDirHandler.entrycmp", detail="comparison function not found")
        return
    rep.analysed(ec.qualname)
    rep.extra["exhaustive"] = True
    p1, p2 = ec.params[1], ec.params[2]
    # arguments are used only through comparisons / getnum / name
    for n in ast.walk(ec.node):
        if isinstance(n, ast.Attribute) and isinstance(n.value, ast.Name) and n.value.id in (p1, p2) and n.attr not in ("name", "num", "getnum", "getname"):
            rep.fail("R08a", f"entrycmp reads .{n.attr}", ctx.where(ec, n), "the comparator depends on something other than number and title",
                     key=f"R08a|attr|{n.attr}")

    def run(n1, t1, n2, t2):
        facts = {f"{p1}.name": Const(t1), f"{p2}.name": Const(t2), f"{p1}.num": Const(n1), f"{p2}.num": Const(n2),
                 f"{p1}.getname()": Const(t1), f"{p2}.getname()": Const(t2)}

        def call_value(call, target, st):
            if isinstance(call.func, ast.Attribute) and call.func.attr == "getnum" and isinstance(call.func.value, ast.Name):
                return Const(n1 if call.func.value.id == p1 else n2)
            if isinstance(call.func, ast.Attribute) and call.func.attr == "getname" and isinstance(call.func.value, ast.Name):
                return Const(t1 if call.func.value.id == p1 else t2)
            return None
        w = Walker(prog, ctx.resolver, assumptions=facts, call_value=call_value, sticky=set(facts),
                   inline=lambda fn, t, d: True, max_depth=4)
        paths = w.run(ec, umn)
        vals = set()
        for p in paths:
            if p.kind == "return" and p.value.kind == "const" and isinstance(p.value.value, (int, bool)):
                vals.add(int(p.value.value))
            else:
                vals.add("?")
        return vals

    nums = [-2, -1, 0, 1, 2]
    names = [("a", "b"), ("b", "a"), ("a", "a")]
    results = {}
    for n1 in nums:
        for n2 in nums:
            for t1, t2 in names:
                results[(n1, t1, n2, t2)] = run(n1, t1, n2, t2)
    for (n1, t1, n2, t2), vals in sorted(results.items()):
        inst = f"cmp(num={n1},title={t1!r} ; num={n2},title={t2!r})"
        if len(vals) != 1 or "?" in vals:
            rep.fail("R08a", inst, ctx.where(ec), f"the comparator's result is not determined by the order type: {sorted(map(str, vals))}",
                     key=f"R08a|undetermined")
            continue
        got = next(iter(vals))
        sgn = (got > 0) - (got < 0)
        exp = expected(n1, t1, n2, t2)
        back = results.get((n2, t2, n1, t1), set())
        problems = []
        if exp is not None and sgn != exp:
            problems.append(f"gives {sgn:+d}, the documented order (numbered ascending, then unnumbered by title, then negative) requires {exp:+d}")
        if len(back) == 1 and "?" not in back:
            b = next(iter(back))
            if ((b > 0) - (b < 0)) != -sgn:
                problems.append("not antisymmetric (the sort result would depend on the input order)")
        rep.add("R08a", inst, not problems, ctx.where(ec), "; ".join(problems) if problems else f"{sgn:+d}",
                key=f"R08a|{'; '.join(p.split(',')[0] for p in problems)}|{(n1 > 0) - (n1 < 0)}{(n2 > 0) - (n2 < 0)}{(n1 > n2) - (n1 < n2)}{(t1 > t2) - (t1 < t2)}",
                nontrivial=exp is not None)

    # ------------------------------------------------------------------ R08b
    prep = prog.resolve_method(umn, "prepare")
    problems = []
    if prep is None:
        problems.append("UMNDirHandler.prepare not found")
    else:
        w = Walker(prog, ctx.resolver)
        ok_any = False
        for p in w.run(prep, umn):
            im = isort = None
            for i, e in enumerate(p.events):
                if e.kind == "call" and e.target.kind == "repo" and any(f.name == "MergeLinkFiles" for f in e.target.funcs):
                    im = i
                if e.kind == "call" and isinstance(e.node.func, ast.Attribute) and e.node.func.attr == "sort" and norm(e.node.func.value) == "self.fileentries":
                    isort = i
                    text = norm(e.node)
                    if "entrycmp" not in text:
                        problems.append(f"the entry list is sorted by `{text[:60]}`, not by entrycmp")
                if e.kind == "assign" and e.target == "self.fileentries" and isinstance(e.node, ast.Assign) and "sorted(" in norm(e.node.value):
                    isort = i
                    if "entrycmp" not in norm(e.node.value):
                        problems.append("the entry list is sorted by something other than entrycmp")
            if im is not None or isort is not None:
                ok_any = True
                if isort is None:
                    problems.append("generated entries are not sorted")
                elif im is not None and isort < im:
                    problems.append("entries are sorted before link files are merged")
        if not ok_any:
            problems.append("prepare() never merges/sorts")
    rep.add("R08b", "final order = entrycmp after the merge", not problems, ctx.where(prep) if prep else "", "; ".join(sorted(set(problems))), key="R08b|sort")
    # whenever the listing is generated (no cache hit), link files are merged and the result sorted - whatever the directory contains
    if prep is not None:
        from ..paths import FALSY as FALSY_
        problems = []

        def cv(call, target, st):
            if isinstance(call.func, ast.Attribute) and call.func.attr == "loadcache":
                return FALSY_
            return None

        w = Walker(prog, ctx.resolver, call_value=cv, inline=lambda fn, t, d: d < 2 and fn.name == "prepare" and fn is not prep)
        n_paths = 0
        for p in w.run(prep, umn):
            if p.kind == "raise":
                continue
            n_paths += 1
            merged = any(e.kind == "call" and e.target.kind == "repo" and any(f.name == "MergeLinkFiles" for f in e.target.funcs) for e in p.events)
            sorted_ = any((e.kind == "call" and isinstance(e.node.func, ast.Attribute) and e.node.func.attr == "sort" and norm(e.node.func.value) == "self.fileentries")
                          or (e.kind == "assign" and e.target == "self.fileentries" and isinstance(e.node, ast.Assign) and "sorted(" in norm(e.node.value))
                          for e in p.events)
            if not (merged and sorted_):
                tests = [norm(e.node)[:40] for e in p.events if e.kind == "test"][-2:]
                problems.append(f"a path that generates the listing (no cache hit) returns without {'merging the link files' if not merged else 'sorting'}"
                                + (f" [after {tests}]" if tests else "") + ": the blocks of .Links/.names files are dropped for such a directory")
        if not n_paths:
            problems.append("no path through prepare() on a cache miss")
        rep.add("R08b", "every generated listing is merged and sorted", not problems, ctx.where(prep), "; ".join(sorted(set(problems))[:2]), key="R08b|always")
    ctx.r08g = linkfile_text_obligations(ctx, rep, umn, "R08g") or {}
    merge_obligations(ctx, rep, umn)


# ---------------------------------------------------------------------------- R08c-R08f
def _is_lookup(expr, dname, lvar, defs=None):
    """D[L.selector] / D.get(L.selector) (possibly through a local)."""
    e = expr
    for _ in range(3):
        if isinstance(e, ast.Name) and defs and e.id in defs:
            e = defs[e.id]
    if isinstance(e, ast.Subscript) and norm(e.value) == dname and norm(e.slice) == f"{lvar}.selector":
        return True
    if isinstance(e, ast.Call) and isinstance(e.func, ast.Attribute) and e.func.attr == "get" and norm(e.func.value) == dname \
            and e.args and norm(e.args[0]) == f"{lvar}.selector":
        return True
    return False


def _merge_by_evaluation(ctx, rep, umn, me, rule="R08d") -> bool:
    """mergeentries(old, new) evaluated on model entries: the block sets selector, name and port and one abstract; it leaves
    type, host and num unset.  Afterwards old has exactly those three fields and the abstract from the block and keeps its own
    type, host and num.  True when the evaluation decided."""
    from ..paths import Const as _C, Walker as _W

    prog = ctx.prog
    if len(me.params) < 3:
        return False
    OLD, NEW = "<the walked entry>", "<the block>"
    scenarios = [({"selector": "/from/block", "type": None, "name": "Block name", "host": None, "port": 7070, "num": None}, {"ABSTRACT": "text of the abstract"}),
                 ({"selector": None, "type": "1", "name": None, "host": "other.example", "port": None, "num": 3}, {})]
    all_problems = []
    for newvals, newea in scenarios:
        r = _merge_scenario(ctx, umn, me, OLD, NEW, newvals, newea)
        if r is None:
            return False
        all_problems.extend(r)
    rep.add(rule, f"{me.qualname}: only fields the block sets override", not all_problems, ctx.where(me), "; ".join(all_problems[:3]), key=f"{rule}|mergeentries")
    return True


def _merge_scenario(ctx, umn, me, OLD, NEW, newvals, newea):
    from ..paths import Const as _C, Walker as _W

    prog = ctx.prog
    holder = {}

    def which(v):
        return v.value if v is not None and v.kind == "const" and v.value in (OLD, NEW) else None

    def cv(call, target, st):
        w = holder["w"]
        f = call.func
        d = dotted(f) or ""
        args = w.cur_args or []
        if d == "getattr" and len(args) >= 2 and which(args[0]) and args[1].kind == "const":
            if which(args[0]) == NEW:
                return _C(newvals.get(args[1].value)) if args[1].value in newvals else None
            return st.facts.get("__old." + str(args[1].value), _C("old " + str(args[1].value)))
        if d == "setattr" and len(args) == 3 and which(args[0]) == OLD and args[1].kind == "const":
            st.facts["__old." + str(args[1].value)] = args[2]
            return _C(None)
        if isinstance(f, ast.Attribute) and which(w.cur_recv):
            obj = which(w.cur_recv)
            if obj == NEW and f.attr == "geteadict":
                return _C(dict(newea))
            if obj == NEW and f.attr == "getea" and args and args[0].kind == "const":
                return _C(newea.get(args[0].value))
            if obj == NEW and f.attr.startswith("get") and f.attr[3:] in newvals:
                v = newvals[f.attr[3:]]
                return _C(v) if v is not None or not args else args[0]
            if obj == OLD and f.attr == "geteadict":
                return _C({"KEYWORDS": "old keywords"})
            if obj == OLD and f.attr == "setea" and len(args) == 2 and args[0].kind == "const":
                st.facts["__oldea." + str(args[0].value)] = args[1]
                return _C(None)
            if obj == OLD and f.attr.startswith("set") and f.attr[3:] in newvals and args:
                st.facts["__old." + f.attr[3:]] = args[0]
                return _C(None)
        return None

    def ev(node, st):
        if isinstance(node, ast.Attribute) and isinstance(node.ctx, ast.Load) and isinstance(node.value, ast.Name):
            obj = which(st.env.get(node.value.id))
            if obj == NEW and node.attr in newvals:
                return _C(newvals[node.attr])
            if obj == OLD and node.attr in newvals:
                return st.facts.get("__old." + node.attr, _C("old " + node.attr))
        return None

    def sh(target, val, st):
        if isinstance(target, ast.Attribute) and isinstance(target.value, ast.Name) and which(st.env.get(target.value.id)) == OLD:
            st.facts["__old." + target.attr] = val

    w = _W(prog, ctx.resolver, call_value=cv, expr_value=ev, store_hook=sh, exact_loops=True, unroll=12, inline_by_name=True,
           inline=lambda fn, t, d: d < 3 and fn is not me)
    holder["w"] = w
    try:
        paths = w.run(me, umn, env={me.params[1]: _C(OLD), me.params[2]: _C(NEW)})
    except Exception:
        return None
    outs = set()
    for p in paths:
        if p.kind == "raise":
            return None
        st_ = {k: (v.value if v.kind == "const" else "?") for k, v in p.state.facts.items() if k.startswith(("__old.", "__oldea."))}
        outs.add(repr(sorted(st_.items())))
        last_ = st_
    if len(outs) != 1:
        return None
    got = dict(last_)
    if "?" in got.values() or not got:
        return None
    want = {"__old." + k: v for k, v in newvals.items() if v is not None}
    want.update({"__oldea." + k: v for k, v in newea.items()})
    problems = []
    for k, v in want.items():
        if got.get(k) != v:
            problems.append(f"the block's {k.split('.', 1)[1]} ({v!r}) is not carried over to the walked entry (it has {got.get(k, 'its old value')!r})")
    if isinstance(got.get("__old.ea"), dict):
        # the attribute table was assigned as a whole: it has to hold the entry's own blocks and the block's
        whole = got.pop("__old.ea")
        if whole.get("KEYWORDS") != "old keywords":
            problems.append(f"the walked entry's own attribute blocks are replaced by the block's ({sorted(whole)} instead of its KEYWORDS plus {sorted(newea)}): "
                            "side-file blocks of a file vanish from the listing as soon as a link file gives it an abstract")
        for k, v in newea.items():
            if whole.get(k) == v:
                got["__oldea." + k] = v
        problems = [p_ for p_ in problems if not any(f"block's {k} " in p_ for k in newea if whole.get(k) == newea[k])]
    for k, v in got.items():
        if k not in want and not (isinstance(v, str) and v == "old " + k.split(".", 1)[1]):
            problems.append(f"the walked entry's {k.split('.', 1)[1]} is overwritten with {v!r} although the block does not set it")
    return problems


def merge_obligations(ctx, rep, umn, rule_c="R08c", only_merge=False):
    """MergeLinkFiles, per path of the loop over the link entries: a block that does not ask to be merged, or
    names no walked file, is appended (once); Type=X on a walked file removes that file's entry (tolerating
    that it is already gone) and adds nothing; any other block for a walked file is merged into its entry and
    adds nothing.  The selector index covers every walked entry and is not shrunk while blocks are processed,
    and entries are never dropped by comparing selector text."""
    prog = ctx.prog
    from ..paths import State
    from ..structure import enclosing_tries, catches

    ml = prog.resolve_method(umn, "MergeLinkFiles")
    if ml is None:
        rep.fail(rule_c, "UMNDirHandler.MergeLinkFiles", detail="link-file merge not found")
        return
    rep.analysed(ml.qualname)
    problems = set()
    # the index
    dname = None
    for n in ast.walk(ml.node):
        if isinstance(n, ast.Assign) and len(n.targets) == 1 and isinstance(n.targets[0], ast.Name):
            if isinstance(n.value, ast.Dict) and not n.value.keys:
                for f in ast.walk(ml.node):
                    if isinstance(f, ast.For) and norm(f.iter) == "self.fileentries":
                        var = norm(f.target)
                        for a in ast.walk(f):
                            if isinstance(a, ast.Assign) and isinstance(a.targets[0], ast.Subscript) and norm(a.targets[0].value) == n.targets[0].id \
                                    and norm(a.targets[0].slice) == f"{var}.selector" and norm(a.value) == var:
                                dname = n.targets[0].id
            elif isinstance(n.value, ast.DictComp) and len(n.value.generators) == 1 and not n.value.generators[0].ifs \
                    and norm(n.value.generators[0].iter) == "self.fileentries":
                var = norm(n.value.generators[0].target)
                if norm(n.value.key) == f"{var}.selector" and norm(n.value.value) == var:
                    dname = n.targets[0].id
    loops = [n for n in ast.walk(ml.node) if isinstance(n, ast.For) and norm(n.iter) == "self.linkentries"]
    if dname is None:
        problems.add("no index of the walked entries by selector (built from all of self.fileentries)")
    if len(loops) != 1:
        problems.add(f"{len(loops)} loops over the link entries (expected one)")
    n_paths = 0
    for loop, tval in [(l, t) for l in loops for t in ("X", "-", "1")]:
        lvar = norm(loop.target)

        def _type(call, target, st, _t=tval, _v=lvar):
            # the block's type character: X and - mean "hide", anything else is an ordinary block
            if isinstance(call.func, ast.Attribute) and call.func.attr == "gettype" and norm(call.func.value) == _v and not call.args:
                return Const(_t)
            return None

        w = Walker(prog, ctx.resolver, merge_loops=True, call_value=_type)
        w.frame = (ml, umn)
        w._budget = 100000
        for kind, val, st in w.exec_block(loop.body, State()):
            if kind == "raise":
                continue
            n_paths += 1
            needs = indict = None
            isx = tval in ("X", "-")
            still_listed = False
            for e in st.events:
                if e.kind != "test" or e.extra is None:
                    continue
                t = norm(e.node)
                n = e.node
                if t == f"{lvar}.getneedsmerge()" or t == f"{lvar}.needsmerge":
                    needs = bool(e.extra)
                elif isinstance(n, ast.Compare) and len(n.ops) == 1 and norm(n.left) == f"{lvar}.selector" and dname and norm(n.comparators[0]) == dname:
                    indict = bool(e.extra) if isinstance(n.ops[0], ast.In) else (not bool(e.extra) if isinstance(n.ops[0], ast.NotIn) else indict)
                elif isinstance(n, ast.Compare) and len(n.ops) == 1 and isinstance(n.ops[0], ast.In) and norm(n.comparators[0]) == "self.fileentries" and e.extra:
                    still_listed = True
            appends = [e for e in st.events if e.kind == "call" and isinstance(e.node.func, ast.Attribute) and e.node.func.attr in ("append", "insert", "extend")
                       and norm(e.node.func.value) == "self.fileentries"]
            removes = [e for e in st.events if e.kind == "call" and isinstance(e.node.func, ast.Attribute) and e.node.func.attr in ("remove", "pop")
                       and norm(e.node.func.value) == "self.fileentries"]
            merges = [e for e in st.events if e.kind == "call" and isinstance(e.node.func, ast.Attribute) and e.node.func.attr == "mergeentries"]
            shrinks = [e for e in st.events if dname and e.kind == "call" and isinstance(e.node.func, ast.Attribute)
                       and e.node.func.attr in ("pop", "popitem", "clear") and norm(e.node.func.value) == dname]
            for x in ast.walk(ast.Module(body=loop.body, type_ignores=[])):
                if dname and isinstance(x, ast.Delete) and any(isinstance(t, ast.Subscript) and norm(t.value) == dname for t in x.targets):
                    problems.add("the selector index is shrunk while link blocks are still being processed: a later block for a hidden file is taken for a new entry and the file shows up again")
            if shrinks:
                problems.add("the selector index is shrunk while link blocks are still being processed: a later block for a hidden file is taken for a new entry and the file shows up again")
            where = f"[needsmerge={needs}, names a walked file={indict}, Type={tval}]"
            if needs is False or (needs is True and indict is False):
                if len(appends) != 1 or not (appends[0].node.args and norm(appends[0].node.args[-1]) == lvar) or removes or merges:
                    problems.add(f"{where}: a block that adds a new entry must be appended once and touch nothing else "
                                 f"(appends={len(appends)}, removals={len(removes)}, merges={len(merges)})")
            elif needs is True and indict is True and isx is True:
                if appends or merges:
                    problems.add(f"{where}: hiding a file must not add or merge anything")
                for r in removes:
                    if not (r.node.args and _is_lookup(r.node.args[0], dname, lvar, r.defs)):
                        problems.add(f"{where}: `{norm(r.node)[:50]}` does not remove the walked file's own entry")
                    guarded = still_listed or any(catches(h, "ValueError") for tr in enclosing_tries(ml.node, r.node) for h in tr.handlers)
                    if not guarded:
                        problems.add(f"{where}: `{norm(r.node)[:50]}` raises ValueError when another block has hidden the same file already "
                                     "(the directory request is then left unanswered)")
                if not removes and (still_listed or not any(e.kind == "test" and "self.fileentries" in norm(e.node) for e in st.events)):
                    problems.add(f"{where}: a block with Type={tval} for a walked file does not remove the file's entry (Type=X and Type=- both hide)")
            elif needs is True and indict is True and isx is False:
                if appends or removes or len(merges) != 1:
                    problems.add(f"{where}: a block for a walked file must be merged into its entry exactly once and add nothing "
                                 f"(appends={len(appends)}, removals={len(removes)}, merges={len(merges)})")
                for m in merges:
                    a = m.node.args
                    if not (len(a) == 2 and _is_lookup(a[0], dname, lvar, m.defs) and norm(a[1]) == lvar):
                        problems.add(f"{where}: `{norm(m.node)[:60]}` does not merge the block into the walked file's entry")
            else:
                if appends or removes or merges:
                    problems.add(f"{where}: the list is changed on a path that has not decided whether the block merges, names a walked file and hides it")
    if loops and not n_paths:
        problems.add("no path through the merge loop")
    # nothing is dropped by selector text
    for n in ast.walk(ml.node):
        if isinstance(n, ast.Assign) and any(norm(t) == "self.fileentries" or norm(t) == "self.fileentries[:]" for t in n.targets):
            if any(isinstance(x, ast.Attribute) and x.attr in ("selector", "getselector") for x in ast.walk(n.value)):
                problems.add("entries are dropped by comparing selector text: link entries that were added under a hidden file's selector disappear with it")
    rep.add(rule_c, f"{ml.qualname}: add / merge / hide per block", not problems, ctx.where(ml), "; ".join(sorted(problems)[:4]),
            key=f"{rule_c}|merge|" + ";".join(sorted(p.split(":")[0] for p in problems))[:120])
    if only_merge:
        return

    # ------------------------------------------------------------------ R08d  only set fields override
    me = prog.resolve_method(umn, "mergeentries")
    if me is None:
        rep.fail("R08d", "UMNDirHandler.mergeentries", detail="field merge not found")
    elif _merge_by_evaluation(ctx, rep, umn, me):
        pass
    else:
        old, new = (me.params + ["old", "new"])[1:3]
        problems = []
        setattrs = [n for n in ast.walk(me.node) if isinstance(n, ast.Call) and dotted(n.func) == "setattr" and n.args and norm(n.args[0]) == old]
        direct = [n for n in ast.walk(me.node) if isinstance(n, ast.Assign) and any(isinstance(t, ast.Attribute) and norm(t.value) == old for t in n.targets)]
        if not setattrs and not direct:
            problems.append("no field of the walked entry is overridden")
        pm = {}
        for p_ in ast.walk(me.node):
            for c in ast.iter_child_nodes(p_):
                pm[c] = p_
        for s_ in setattrs:
            fld = norm(s_.args[1]) if len(s_.args) > 1 else "?"
            cur, guarded = pm.get(s_), False
            while cur is not None and cur is not me.node:
                if isinstance(cur, ast.If):
                    t = cur.test
                    if isinstance(t, ast.Compare) and len(t.ops) == 1 and isinstance(t.ops[0], ast.IsNot) and isinstance(t.comparators[0], ast.Constant) \
                            and t.comparators[0].value is None and norm(t.left) == f"getattr({new}, {fld})":
                        guarded = True
                cur = pm.get(cur)
            if not guarded:
                problems.append(f"`{norm(s_)[:50]}` overrides a field the block did not set (no `getattr({new}, {fld}) is not None` guard)")
            if not (len(s_.args) == 3 and norm(s_.args[2]) == f"getattr({new}, {fld})"):
                problems.append(f"`{norm(s_)[:50]}` does not copy the block's own value")
        fields = set()
        for n in ast.walk(me.node):
            if isinstance(n, ast.For) and isinstance(n.iter, (ast.List, ast.Tuple)):
                fields |= {e.value for e in n.iter.elts if isinstance(e, ast.Constant)}
        missing = {"selector", "type", "name", "host", "port", "num"} - fields
        if setattrs and missing:
            problems.append(f"fields {sorted(missing)} set by a block are not carried over")
        eas = [n for n in ast.walk(me.node) if isinstance(n, ast.Call) and isinstance(n.func, ast.Attribute) and n.func.attr == "setea" and norm(n.func.value) == old]
        if not eas:
            problems.append("extended attributes (abstracts) of the block are not carried over")
        rep.add("R08d", f"{me.qualname}: only fields the block sets override", not problems, ctx.where(me), "; ".join(problems), key="R08d|mergeentries")

    # ------------------------------------------------------------------ R08e  .cap: X / - hide, otherwise merge then list
    pa = umn.methods.get("prep_entriesappend")
    if pa is None:
        rep.fail("R08e", "UMNDirHandler.prep_entriesappend", detail=".cap processing not found")
    else:
        def rp(call, target):
            return ["OSError"] if isinstance(call.func, ast.Attribute) and call.func.attr == "processLinkFile" else []

        from ..facts import expand_ast as _xa

        def _from_capfile(node, st):
            """Is `node` (a local or expression) derived from what processLinkFile() returned?"""
            try:
                e = _xa(node, None, st.defs) if st.defs else node
            except Exception:
                e = node
            return "processLinkFile(" in norm(e)

        def cv(hide):
            def f(call, target, st):
                if isinstance(call.func, ast.Attribute) and call.func.attr == "gettype" and not call.args and _from_capfile(call.func.value, st):
                    return Const(hide)
                return None
            return f

        problems = set()
        for label, tval in (("X", "X"), ("-", "-"), ("other", "1")):
            w = Walker(prog, ctx.resolver, raise_points=rp, call_value=cv(tval),
                       inline=lambda fn, t, d: d < 2 and t.bound_cls is not None and fn.cls is umn
                       and fn.name not in ("processLinkFile", "mergeentries", "prep_entriesappend", "getLinkItem"))
            for p in w.run(pa, umn):
                if p.kind == "raise":
                    problems.add(f"an exception ({p.value}) escapes .cap processing and takes the listing down")
                    continue
                sup = [e for e in p.events if e.kind == "call" and isinstance(e.node.func, ast.Attribute) and e.node.func.attr == "prep_entriesappend"]
                mg = [e for e in p.events if e.kind == "call" and isinstance(e.node.func, ast.Attribute) and e.node.func.attr == "mergeentries"]
                failed = any(e.kind == "raise" for e in p.events)
                have = [e for e in p.events if e.kind == "test" and e.extra is not None
                        and "processLinkFile(" in norm(_xa(e.node, None, e.defs) if e.defs else e.node) and "gettype" not in norm(e.node)]
                has_block = any(bool(e.extra) for e in have) if have else None
                if failed or has_block is False:
                    if len(sup) != 1:
                        problems.add("a file without a (readable, non-empty) .cap file is not listed exactly once")
                    continue
                if label in ("X", "-"):
                    if sup:
                        problems.add(f"a .cap file with Type={label} does not hide the file")
                else:
                    if len(sup) != 1:
                        problems.add("a file with an ordinary .cap file is not listed exactly once")
                    if len(mg) != 1:
                        problems.add("an ordinary .cap file is not merged into the file's entry")
                    elif mg:
                        # what the .cap file set stays: nothing rewrites the entry between the merge and the listing
                        eparam = pa.params[3] if len(pa.params) > 3 else "fileentry"
                        after = False
                        for e in p.events:
                            if e is mg[0]:
                                after = True
                                continue
                            if after and e.kind == "call" and isinstance(e.node.func, ast.Attribute) and e.node.func.attr.startswith("set") \
                                    and e.node.func.attr != "setdefault":
                                recv = e.node.func.value
                                rtxt = norm(_xa(recv, None, e.defs) if e.defs else recv)
                                if rtxt == eparam or norm(recv) == eparam:
                                    problems.add(f"`{norm(e.node)[:60]}` rewrites the entry after the .cap file was merged into it: "
                                                 "the .cap override does not reach the menu as written")
        rep.add("R08e", f"{pa.qualname}: .cap Type=X/- hides, anything else overrides and lists", not problems, ctx.where(pa), "; ".join(sorted(problems)),
                key="R08e|cap")

    # ------------------------------------------------------------------ R08f  Host=+ / Port=+ leave the field unset (= this server)
    gl = prog.resolve_method(umn, "getLinkItem")
    if gl is None:
        rep.fail("R08f", "UMNDirHandler.getLinkItem", detail="link-file parser not found")
    else:
        res = getattr(ctx, "r08g", None) or {}
        plus = next((v for k, v in res.items() if "Host=+" in k), None)
        other = res.get("new entry on another server")
        decided = plus is not None and other is not None and plus[0] != "undetermined" and other[0] != "undetermined"
        if decided:
            # decided by evaluating the parser on a block with Host=+ / Port=+ and on one naming a host and a port (R08g)
            for setter, key in (("sethost", "Host="), ("setport", "Port=")):
                ok = plus[0] == "ok" and other[0] == "ok"
                rep.add("R08f", f"{gl.qualname}: {key}+ means this server", ok, ctx.where(gl), "" if ok else (plus[1] or other[1]), key=f"R08f|{setter}")
        pm = {}
        for p_ in ast.walk(gl.node):
            for c in ast.iter_child_nodes(p_):
                pm[c] = p_
        for setter, key in (() if decided else (("sethost", "Host="), ("setport", "Port="))):
            calls = [n for n in ast.walk(gl.node) if isinstance(n, ast.Call) and isinstance(n.func, ast.Attribute) and n.func.attr == setter]
            problems = []
            if not calls:
                problems.append(f"{key} lines are not parsed")
            for c in calls:
                cur, plus_guard, key_guard = pm.get(c), False, False
                child = c
                while cur is not None and cur is not gl.node:
                    if isinstance(cur, ast.If):
                        in_body = any(child is b or any(child is x for x in ast.walk(b)) for b in cur.body)
                        for t in ast.walk(cur.test):
                            if isinstance(t, ast.Compare) and len(t.ops) == 1 and isinstance(t.comparators[0], ast.Constant):
                                if t.comparators[0].value == "+" and ((isinstance(t.ops[0], ast.NotEq) and in_body) or (isinstance(t.ops[0], ast.Eq) and not in_body)):
                                    plus_guard = True
                                if t.comparators[0].value == key and isinstance(t.ops[0], ast.Eq) and in_body:
                                    key_guard = True
                            if isinstance(t, ast.Call) and isinstance(t.func, ast.Attribute) and t.func.attr == "startswith" and t.args \
                                    and isinstance(t.args[0], ast.Constant) and t.args[0].value == key and in_body:
                                key_guard = True
                    child = cur
                    cur = pm.get(cur)
                if not plus_guard:
                    problems.append(f"`{norm(c)[:40]}` also runs for {key}+ (the entry would point at a host/port literally called '+', not at this server)")
                if not key_guard:
                    problems.append(f"`{norm(c)[:40]}` is not tied to a {key} line")
            rep.add("R08f", f"{gl.qualname}: {key}+ means this server", not problems, ctx.where(gl), "; ".join(problems), key=f"R08f|{setter}")


# ---------------------------------------------------------------------------- R08g
LINKFILE_CASES = [
    # (label, capfilepath, lines, expected entry state (fields not named stay unset), expected nextstep)
    ("new entry on another server", None, ["Name=Other place", "Type=1", "Path=/abs/dir", "Host=gopher.example.org", "Port=7070", ""],
     {"name": "Other place", "type": "1", "selector": "/abs/dir", "host": "gopher.example.org", "port": 7070}, "continue"),
    ("./ path: merge with the walked file", None, ["Path=./fred", "Name=Fred's file", ""],
     {"selector": "/SB/fred", "needsmerge": True, "name": "Fred's file"}, "continue"),
    ("~/ path: merge with the walked file", None, ["Path=~/fred", ""], {"selector": "/SB/fred", "needsmerge": True}, "continue"),
    ("./ path to a name that starts with a dot", None, ["Path=./.archive", "Type=1", ""], {"selector": "/SB/.archive", "needsmerge": True, "type": "1"}, "continue"),
    ("./ path to a name that starts with dots and a slash-free tail", None, ["Path=./..data", ""], {"selector": "/SB/..data", "needsmerge": True}, "continue"),
    ("relative path, Host=+ Port=+ : this server, resolved against the directory", None, ["Name=Rel", "Path=sub/x", "Host=+", "Port=+", ""],
     {"name": "Rel", "selector": "/SB/sub/x", "needsabspath": True}, "continue"),
    ("relative path, no host: resolved against the directory", None, ["Path=../up/x", ""], {"selector": "/up/x", "needsabspath": True}, "continue"),
    ("relative path on another server: left alone", None, ["Path=rel/x", "Host=other.example", "Port=70", ""],
     {"selector": "rel/x", "needsabspath": True, "host": "other.example", "port": 70}, "continue"),
    ("trailing slash dropped", None, ["Path=/dir/", "Type=1", ""], {"selector": "/dir", "type": "1"}, "continue"),
    ("URL: path kept", None, ["Path=URL:http://example.org/", "Name=Web", ""], {"selector": "URL:http://example.org", "name": "Web"}, "continue"),
    ("Numb and Abstract with continuation", None, ["Path=./a", "Numb=5", "Abstract=line one\\", "line two", ""],
     {"selector": "/SB/a", "needsmerge": True, "num": 5, "ea:ABSTRACT": "line one\nline two"}, "continue"),
    ("comment before the block is skipped, comment after the path ends it", None, ["# about", "Path=./a", "# next", "Name=ignored"],
     {"selector": "/SB/a", "needsmerge": True}, "continue"),
    (".cap file: path is the walked file, last block", "/SB/file.txt", ["Name=Cap title", "Numb=2"],
     {"selector": "/SB/file.txt", "name": "Cap title", "num": 2}, "stop"),
    ("no Path= line: no entry", None, ["Name=Nothing", ""], None, "continue"),
    ("negative number (sorts last)", None, ["Path=./z", "Numb=-2", ""], {"selector": "/SB/z", "needsmerge": True, "num": -2}, "continue"),
    ("every field given, number and abstract last", None,
     ["Name=Full", "Type=0", "Path=/full/doc", "Host=other.example", "Port=70", "Numb=3", "Abstract=About it", ""],
     {"name": "Full", "type": "0", "selector": "/full/doc", "host": "other.example", "port": 70, "num": 3, "ea:ABSTRACT": "About it"}, "continue"),
    ("every field given for this server, number last", None, ["Type=1", "Name=Here", "Host=+", "Port=+", "Path=./sub", "Numb=-1", ""],
     {"name": "Here", "type": "1", "selector": "/SB/sub", "needsmerge": True, "num": -1}, "continue"),
    (".cap file naming every field, number last", "/SB/file.txt", ["Name=Cap", "Type=0", "Host=+", "Port=+", "Numb=4"],
     {"selector": "/SB/file.txt", "name": "Cap", "type": "0", "num": 4}, "stop"),
    ("abstract before the path, a continuation line that starts like a comment", None,
     ["Name=Community", "Abstract=Where to find us:\\", "#gopher on irc\\", "or the list", "Path=./community", ""],
     {"name": "Community", "selector": "/SB/community", "needsmerge": True, "ea:ABSTRACT": "Where to find us:\n#gopher on irc\nor the list"}, "continue"),
    ("values that contain = themselves", None, ["Name=Why E=mc2", "Path=/URL:http://example.com/find?q=x&y=z", "Abstract=a=b", ""],
     {"name": "Why E=mc2", "selector": "/URL:http://example.com/find?q=x&y=z", "ea:ABSTRACT": "a=b"}, "continue"),
    ("unparsable number and port are ignored", None, ["Path=/q", "Numb=first", "Host=other.example", "Port=gopher", ""],
     {"selector": "/q", "host": "other.example"}, "continue"),
]


def linkfile_text_obligations(ctx, rep, umn, rule="R08g"):
    """getLinkItem() is evaluated by the walker on scripted link-file blocks (exact loops, constant folding); the entry is
    modelled by what its setters were called with, its getters answer from that model.  The result has to be the entry
    the UMN link-file format documents for the block."""
    from ..paths import Const as _C

    prog = ctx.prog
    gl = prog.resolve_method(umn, "getLinkItem")
    if gl is None:
        rep.fail(rule, "UMNDirHandler.getLinkItem", detail="link-file parser not found")
        return
    fdparam = gl.params[1] if len(gl.params) > 1 else "fd"
    capparam = gl.params[2] if len(gl.params) > 2 else "capfilepath"
    SETTERS = {"setselector": "selector", "setname": "name", "settype": "type", "sethost": "host", "setport": "port", "setnum": "num",
               "setneedsmerge": "needsmerge", "setneedsabspath": "needsabspath"}
    GETTERS = {"getselector": "selector", "getname": "name", "gettype": "type", "gethost": "host", "getport": "port", "getnum": "num",
               "getneedsmerge": "needsmerge", "getneedsabspath": "needsabspath"}
    results = {}
    for label, cap, lines, want, wantstep in LINKFILE_CASES:
        script = [l + "\n" for l in lines]
        holder = {}

        ENT = "<the link entry>"

        def is_entry(node_, st):
            if not isinstance(node_, ast.Name):
                return False
            v = st.env.get(node_.id)
            return v is not None and v.kind == "const" and v.value == ENT

        def cv(call, target, st, _script=script):
            w = holder["w"]
            f = call.func
            if isinstance(f, ast.Attribute) and f.attr == "readline":
                i = st.facts.get("__rl", _C(0)).value
                st.facts["__rl"] = _C(i + 1)
                return _C(_script[i] if i < len(_script) else "")
            if (dotted(f) or "").endswith("LinkEntry"):
                st.facts["__made"] = _C(True)
                return _C(ENT)
            if isinstance(f, ast.Attribute) and is_entry(f.value, st):
                if f.attr in SETTERS and w.cur_args:
                    st.facts["__ent." + SETTERS[f.attr]] = w.cur_args[0]
                    return _C(None)
                if f.attr == "setea" and len(w.cur_args) == 2 and w.cur_args[0].kind == "const":
                    st.facts["__ent.ea:" + str(w.cur_args[0].value)] = w.cur_args[1]
                    return _C(None)
                if f.attr in GETTERS:
                    v = st.facts.get("__ent." + GETTERS[f.attr])
                    if v is not None:
                        return v
                    if w.cur_args:
                        return w.cur_args[0]
                    d = next((w.cur_kws[k] for k in (w.cur_kws or {}) if k == "default"), None)
                    return d if d is not None else _C(False if GETTERS[f.attr].startswith("needs") else None)
            return None

        from ..paths import Walker as _W

        facts = {"self.selectorbase": _C("/SB")}
        w = _W(prog, ctx.resolver, call_value=cv, assumptions=facts, sticky=set(facts), exact_loops=True, unroll=len(script) + 4,
               inline=lambda fn, t, d: d < 3 and (t.bound_cls is not None or fn.cls is umn or (fn.cls is None and fn.module is gl.module)))
        holder["w"] = w

        problems = []
        outs = set()
        try:
            paths = w.run(gl, umn, env={capparam: _C(cap)}, facts=dict(facts))
        except Exception as exc:  # the evaluator met something it cannot model
            paths = []
            problems.append(f"the parser could not be evaluated on this block ({type(exc).__name__})")
        if paths and not any("__made" in p.state.facts for p in paths):
            problems.append("no LinkEntry is created")
        for p in paths:
            if p.kind != "return":
                outs.add(("?", f"{p.kind}:{p.value}"))
                continue
            state = {k[len("__ent."):]: (v.value if v.kind == "const" else "?") for k, v in p.state.facts.items() if k.startswith("__ent.")}
            rv = p.value
            step, has_entry = "?", None
            ret = [e for e in p.events if e.kind == "return"][-1].node.value if any(e.kind == "return" for e in p.events) else None
            if isinstance(ret, ast.Tuple) and len(ret.elts) == 2:
                # (nextstep, entry-or-None)
                for e in reversed(p.events):
                    if e.kind == "assign" and e.target == norm(ret.elts[0]) and e.extra is not None and e.extra.kind == "const":
                        step = e.extra.value
                        break
                has_entry = not (isinstance(ret.elts[1], ast.Constant) and ret.elts[1].value is None)
            if rv is not None and rv.kind == "const" and isinstance(rv.value, tuple) and len(rv.value) == 2:
                step, has_entry = rv.value[0], rv.value[1] is not None
            outs.add((step, tuple(sorted(state.items())) if has_entry else None))
        if not problems:
            wantstate = None if want is None else tuple(sorted(want.items()))
            if len(outs) != 1:
                problems.append(f"the result is not determined: {sorted(map(str, outs))[:3]}")
            else:
                step, state = next(iter(outs))
                if step == "?" and isinstance(state, str):
                    problems.append(f"the parser could not be followed on block {lines!r} ({state})")
                elif state != wantstate:
                    got = dict(state) if state is not None else None
                    problems.append(f"block {lines!r}{' (.cap for ' + cap + ')' if cap else ''} gives {got!r}, the documented meaning is {want!r}")
                elif step != wantstep:
                    problems.append(f"block {lines!r} ends with next step {step!r} instead of {wantstep!r}")
        rep.add(rule, f"{gl.qualname}: {label}", not problems, ctx.where(gl), "; ".join(problems), key=f"{rule}|{label}")
        results[label] = ("ok" if not problems else ("undetermined" if any("not determined" in x or "could not be evaluated" in x for x in problems) else "wrong"),
                          "; ".join(problems))
    return results
