"""C08  UMN link files, .cap overrides and abstracts - ordering clause only.

R08a  the comparator touches its arguments only through comparisons, so its result is a
      function of the order type of (num1, num2, 0) x (name1 ? name2).  The bodies of
      entrycmp / sgn / cmp are evaluated by the abstract walker on representatives of
      every order type (25 number pairs x 3 name relations) and checked against the
      documented bucket order: positive numbers ascending, then unnumbered (0) by title,
      then negative numbers; antisymmetry everywhere.  Ties on number and title are
      skipped, as in the property.
R08b  the sort that produces the final order uses that comparator, after the merge
Link-file parsing, merge, .cap, Host=+ and abstracts have no structural proxy and are
not decided.
"""

from __future__ import annotations

import ast

from ..loader import dotted, norm
from ..paths import Const, Walker, truth, AVal


def expected(n1, t1, n2, t2):
    """Sign of the documented order (None = not specified)."""
    def bucket(n):
        return 0 if n > 0 else (1 if n == 0 else 2)
    b1, b2 = bucket(n1), bucket(n2)
    if b1 != b2:
        return -1 if b1 < b2 else 1
    if b1 == 2:
        if n1 == n2:
            return (t1 > t2) - (t1 < t2) if t1 != t2 else None
        return None  # order among negative numbers is not documented
    if n1 != n2:
        return -1 if n1 < n2 else 1
    if t1 == t2:
        return None
    return -1 if t1 < t2 else 1


def check(ctx, rep):
    prog = ctx.prog
    rep.rule("R08a", "entrycmp evaluated on every order type of (num1, num2, 0) x (name1 ? name2): documented bucket order and antisymmetry", floor=40)
    rep.rule("R08b", "the final sort uses entrycmp, after link files were merged", floor=1)
    umn = ctx.cls("handlers.UMN.UMNDirHandler")
    ec = prog.resolve_method(umn, "entrycmp") if umn else None
    if ec is None:
        rep.fail("R08a", "UMNDirHandler.entrycmp", detail="comparison function not found")
        return
    rep.analysed(ec.qualname)
    rep.extra["exhaustive"] = True
    p1, p2 = ec.params[1], ec.params[2]
    # arguments are used only through comparisons / getnum / name
    for n in ast.walk(ec.node):
        if isinstance(n, ast.Attribute) and isinstance(n.value, ast.Name) and n.value.id in (p1, p2) and n.attr not in ("name", "num", "getnum", "getname"):
            rep.fail("R08a", f"entrycmp reads .{n.attr}", ctx.where(ec, n), "the comparator depends on something other than number and title",
                     key=f"R08a|attr|{n.attr}")

    def run(n1, t1, n2, t2):
        facts = {f"{p1}.name": Const(t1), f"{p2}.name": Const(t2), f"{p1}.num": Const(n1), f"{p2}.num": Const(n2),
                 f"{p1}.getname()": Const(t1), f"{p2}.getname()": Const(t2)}

        def call_value(call, target, st):
            if isinstance(call.func, ast.Attribute) and call.func.attr == "getnum" and isinstance(call.func.value, ast.Name):
                return Const(n1 if call.func.value.id == p1 else n2)
            if isinstance(call.func, ast.Attribute) and call.func.attr == "getname" and isinstance(call.func.value, ast.Name):
                return Const(t1 if call.func.value.id == p1 else t2)
            return None
        w = Walker(prog, ctx.resolver, assumptions=facts, call_value=call_value, sticky=set(facts),
                   inline=lambda fn, t, d: True, max_depth=4)
        paths = w.run(ec, umn)
        vals = set()
        for p in paths:
            if p.kind == "return" and p.value.kind == "const" and isinstance(p.value.value, (int, bool)):
                vals.add(int(p.value.value))
            else:
                vals.add("?")
        return vals

    nums = [-2, -1, 0, 1, 2]
    names = [("a", "b"), ("b", "a"), ("a", "a")]
    results = {}
    for n1 in nums:
        for n2 in nums:
            for t1, t2 in names:
                results[(n1, t1, n2, t2)] = run(n1, t1, n2, t2)
    for (n1, t1, n2, t2), vals in sorted(results.items()):
        inst = f"cmp(num={n1},title={t1!r} ; num={n2},title={t2!r})"
        if len(vals) != 1 or "?" in vals:
            rep.fail("R08a", inst, ctx.where(ec), f"the comparator's result is not determined by the order type: {sorted(map(str, vals))}",
                     key=f"R08a|undetermined")
            continue
        got = next(iter(vals))
        sgn = (got > 0) - (got < 0)
        exp = expected(n1, t1, n2, t2)
        back = results.get((n2, t2, n1, t1), set())
        problems = []
        if exp is not None and sgn != exp:
            problems.append(f"gives {sgn:+d}, the documented order (numbered ascending, then unnumbered by title, then negative) requires {exp:+d}")
        if len(back) == 1 and "?" not in back:
            b = next(iter(back))
            if ((b > 0) - (b < 0)) != -sgn:
                problems.append("not antisymmetric (the sort result would depend on the input order)")
        rep.add("R08a", inst, not problems, ctx.where(ec), "; ".join(problems) if problems else f"{sgn:+d}",
                key=f"R08a|{'; '.join(p.split(',')[0] for p in problems)}|{(n1 > 0) - (n1 < 0)}{(n2 > 0) - (n2 < 0)}{(n1 > n2) - (n1 < n2)}{(t1 > t2) - (t1 < t2)}",
                nontrivial=exp is not None)

    # ------------------------------------------------------------------ R08b
    prep = prog.resolve_method(umn, "prepare")
    problems = []
    if prep is None:
        problems.append("UMNDirHandler.prepare not found")
    else:
        w = Walker(prog, ctx.resolver)
        ok_any = False
        for p in w.run(prep, umn):
            im = isort = None
            for i, e in enumerate(p.events):
                if e.kind == "call" and e.target.kind == "repo" and any(f.name == "MergeLinkFiles" for f in e.target.funcs):
                    im = i
                if e.kind == "call" and isinstance(e.node.func, ast.Attribute) and e.node.func.attr == "sort" and norm(e.node.func.value) == "self.fileentries":
                    isort = i
                    text = norm(e.node)
                    if "entrycmp" not in text:
                        problems.append(f"the entry list is sorted by `{text[:60]}`, not by entrycmp")
                if e.kind == "assign" and e.target == "self.fileentries" and isinstance(e.node, ast.Assign) and "sorted(" in norm(e.node.value):
                    isort = i
                    if "entrycmp" not in norm(e.node.value):
                        problems.append("the entry list is sorted by something other than entrycmp")
            if im is not None or isort is not None:
                ok_any = True
                if isort is None:
                    problems.append("generated entries are not sorted")
                elif im is not None and isort < im:
                    problems.append("entries are sorted before link files are merged")
        if not ok_any:
            problems.append("prepare() never merges/sorts")
    rep.add("R08b", "final order = entrycmp after the merge", not problems, ctx.where(prep) if prep else "", "; ".join(sorted(set(problems))), key="R08b|sort")
