"""C19  Privileges are dropped completely and in the right order at start-up.

R19a  order in `initialize` (bind + TLS keys before any privilege change; the dropper
      is called on every normally completing path; bin/pygopherd calls initialize
      before serve_forever)
R19b  exhaustive path enumeration of the dropper (`init_security`): chroot first,
      root rewritten to "/", cwd moved into the new root, setgroups(()) < set*gid <
      set*uid, complete drops only, configured option => drop performed
R19c  no privileged call / bind / key load is inside a `try` (or suppress) whose
      handler can complete normally, along the whole chain bin -> initialize -> ...
"""

from __future__ import annotations

import ast
from typing import List

from ..effects import Effects, PRIMITIVES
from ..loader import dotted, norm
from ..paths import NOTNONE, Const, Walker, truth
from ..structure import (enclosing_tries, enclosing_withs, handler_completes, is_suppress_with,
                         module_func)

UID_FULL = {"os.setreuid", "os.setuid", "os.setresuid"}
GID_FULL = {"os.setregid", "os.setgid", "os.setresgid"}
UID_PARTIAL = {"os.seteuid"}
GID_PARTIAL = {"os.setegid"}
LOOKUPS = {"pwd.getpwnam", "pwd.getpwuid", "grp.getgrnam", "grp.getgrgid"}


def _is_server_ctor(ctx, ev) -> bool:
    t = ev.target
    if t.kind == "ctor" and t.cls is not None:
        return any(b.startswith("socketserver.") for b in ctx.prog.external_bases(t.cls))
    # the class is picked at run time (a local, a table lookup, a helper's result): a call that is handed the
    # request-handler class is the server being constructed, which binds the listening socket
    if (t.kind in ("unknown", "repo") or (t.kind == "ext" and str(getattr(t, "ext", "") or "").startswith("?."))) \
            and isinstance(ev.node, ast.Call) and ev.frame and ev.frame[0] is not None:
        for a in list(ev.node.args) + [k.value for k in ev.node.keywords]:
            d = dotted(a)
            if not d:
                continue
            res = ctx.prog.resolve_dotted(ev.frame[0].module, d)
            if res and res[0] == "class" and any(b.startswith("socketserver.") and b.endswith("RequestHandler")
                                                 for b in ctx.prog.external_bases(res[1])):
                return True
    return False


def _classify(ctx, ev):
    """Map a call event to an abstract start-up event name (or None)."""
    if ev.kind != "call":
        return None
    name = ev.name
    if name == "os.chroot":
        return "CHROOT"
    if name in ("os.chdir", "os.fchdir"):
        return "CHDIR"
    if name == "os.setgroups" or name == "os.initgroups":
        return "SETGROUPS"
    if name in GID_FULL:
        return "SETGID"
    if name in UID_FULL:
        return "SETUID"
    if name in UID_PARTIAL:
        return "SETUID_PARTIAL"
    if name in GID_PARTIAL:
        return "SETGID_PARTIAL"
    if name in LOOKUPS:
        return "LOOKUP"
    if isinstance(ev.node, ast.Call) and isinstance(ev.node.func, ast.Attribute):
        attr = ev.node.func.attr
        if attr == "load_cert_chain":
            return "TLSKEYS"
        if attr == "set" and len(ev.node.args) == 3:
            from ..paths import NOCONST, const_value

            fr = getattr(ev, "frame", None) or (None, None)
            vals = [x.value if isinstance(x, ast.Constant) else (const_value(ctx.prog, x, fr[0], fr[1]) if fr[0] is not None else NOCONST)
                    for x in ev.node.args]
            if all(v is not NOCONST for v in vals) and vals[0] == "pygopherd" and vals[1] == "root":
                return "ROOTSET" if vals[2] == "/" else "ROOTSET_OTHER"
    if _is_server_ctor(ctx, ev):
        return "BIND"
    return None


def _droppers(ctx, eff: Effects):
    init_mod = ctx.prog.modules.get("pygopherd.initialization")
    out = []
    if init_mod is None:
        return out
    for f in init_mod.functions.values():
        if any(s.effect == "PRIV" for s in eff.direct(f)):
            out.append(f)
    if not out:
        # the privileged calls live in helpers (possibly of another module): the dropper is the start-up step of this
        # module that reaches them - not initialize() itself, which sequences the steps
        for f in init_mod.functions.values():
            if f.name != "initialize" and "PRIV" in eff.summary(f):
                out.append(f)
        inner = {g for f in out for c_, t_ in eff.calls_of(f, None) if t_.kind == "repo" for g in t_.funcs if g in out and g is not f}
        out = [f for f in out if f not in inner] or out
    return out


def _expr_value(node, st):
    # pwd.getpwnam(...)[2] / grp.getgrnam(...)[2] (and .pw_uid/.gr_gid) are never None
    inner = node
    if isinstance(node, ast.Subscript):
        inner = node.value
    elif isinstance(node, ast.Attribute):
        inner = node.value
    else:
        return None
    if isinstance(inner, ast.Call) and (dotted(inner.func) or "").split(".")[-1] in (
            "getpwnam", "getgrnam", "getpwuid", "getgrgid"):
        return NOTNONE
    return None


def _samearg_full_drop(call: ast.Call, name: str) -> bool:
    """setreuid(u, u) / setresuid(u, u, u) with identical, non -1 arguments."""
    if name in ("os.setuid", "os.setgid"):
        return len(call.args) == 1
    texts = [norm(a) for a in call.args]
    if name in ("os.setreuid", "os.setregid"):
        return len(texts) == 2 and texts[0] == texts[1] and texts[0] != "-1"
    if name in ("os.setresuid", "os.setresgid"):
        return len(texts) == 3 and len(set(texts)) == 1 and texts[0] != "-1"
    return False



def confined_root_obligations(ctx, rep, rule):
    """The document root is rewritten (to '/', for the chroot jail) only on start-up paths on which the chroot call has
    succeeded: os.chroot is made to fail (PermissionError) at every call site and the paths that survive are followed."""
    prog = ctx.prog
    eff = Effects(prog, ctx.resolver)
    droppers = _droppers(ctx, eff)
    n = 0
    for dropper in droppers:
        def rp(node, target):
            return ["PermissionError"] if target is not None and target.kind == "ext" and target.ext == "os.chroot" else []

        w = Walker(prog, ctx.resolver, expr_value=_expr_value, raise_points=rp,
                   inline=lambda fn, t, d: d < 3 and fn.module.name.startswith("pygopherd.") and fn.cls is None and fn is not dropper
                   and bool({"PRIV"} & eff.summary(fn)))
        try:
            paths = w.run(dropper)
        except Exception:
            rep.add(rule, f"{dropper.qualname}: document root rewritten only inside the jail", False, ctx.where(dropper),
                    "the paths of the privilege dropper could not be enumerated", key=f"{rule}|{dropper.qualname}")
            continue
        bad = None
        sets = 0
        for p in paths:
            if p.kind == "raise":
                continue
            failed = {id(e.node) for e in p.events if e.kind == "raise" and e.extra == "implicit"}
            jailed = False
            for ev in p.events:
                k = _classify(ctx, ev)
                if k == "CHROOT" and id(ev.node) not in failed:
                    jailed = True
                elif k == "ROOTSET":
                    sets += 1
                    if not jailed and bad is None:
                        bad = ev
        if sets or any(_classify(ctx, e) == "CHROOT" for p in paths for e in p.events):
            n += 1
            rep.add(rule, f"{dropper.qualname}: document root rewritten to '/' only after a chroot that succeeded", bad is None,
                    ctx.where(dropper, bad.node) if bad is not None else ctx.where(dropper),
                    "" if bad is None else f"`{norm(bad.node)[:60]}` is reached on a path where os.chroot has failed (or was not called): the server then "
                    "serves the whole file system as its document root", key=f"{rule}|{dropper.qualname}")
    if not n:
        rep.ok(rule, "no start-up function rewrites the document root", "pygopherd/initialization.py", "", key=f"{rule}|none", nontrivial=False)


def bind_obligations(ctx, rep, rule):
    """"The listening socket is bound before any privilege is given up" rests on socketserver binding in the constructor: the server
    classes must let a failed bind propagate out of server_bind() (so the constructor fails and start-up aborts) and must not bind
    anywhere else (a bind retried from serve_forever() happens after the privilege drop)."""
    prog = ctx.prog
    bs = ctx.cls("server.BaseServer")
    classes = [bs] + list(prog.subclasses(bs, strict=True)) if bs else []
    problems, n = [], 0
    for C in classes:
        for m in C.methods.values():
            for call in [x for x in ast.walk(m.node) if isinstance(x, ast.Call) and isinstance(x.func, ast.Attribute)]:
                attr = call.func.attr
                recv = norm(call.func.value)
                is_bind = attr in ("server_bind", "bind") and (recv.startswith("super(") or recv in ("self", "self.socket") or "socketserver." in recv)
                if not is_bind:
                    continue
                n += 1
                if m.name != "server_bind":
                    problems.append((m, call, f"`{norm(call)[:40]}` in {m.qualname}: the socket is (re)bound outside the constructor's server_bind() - after "
                                     "start-up has gone on to drop privileges"))
                    continue
                for tr in enclosing_tries(m.node, call):
                    for h in tr.handlers:
                        if handler_completes(Walker(prog, ctx.resolver), m, h, C):
                            problems.append((m, call, f"`except {norm(h.type) if h.type is not None else ''}` (line {h.lineno}) around the bind can complete: the "
                                             "constructor returns an unbound server, start-up goes on and drops privileges before any bind"))
    if not n:
        rep.ok(rule, "the server classes leave binding to socketserver's constructor", "pygopherd/server.py", "", key=f"{rule}|none", nontrivial=False)
        return
    rep.add(rule, f"server classes: bind only in server_bind(), failures propagate [{n} bind sites]", not problems,
            ctx.where(problems[0][0], problems[0][1]) if problems else "pygopherd/server.py", "; ".join(p[2] for p in problems[:2]), key=f"{rule}|bind")


_SWITCHES = ("usechroot", "detach", "enable_tls")


def strict_switch_obligations(ctx, rep, rule):
    """The on/off switches that decide whether a privilege step happens are read with ConfigParser.getboolean(): it accepts the
    documented spellings in any case and *aborts* on anything else.  A home-made test (`== "yes"`, a look-up in BOOLEAN_STATES with a
    default) reads `Yes` or a typo as off - the chroot is silently skipped and start-up goes on."""
    prog = ctx.prog
    mod = prog.modules.get("pygopherd.initialization")
    if mod is None:
        rep.fail(rule, "pygopherd.initialization", detail="start-up module not found")
        return
    from ..structure import parents

    pm = parents(mod.tree)
    n, problems = 0, []
    for node in ast.walk(mod.tree):
        if not (isinstance(node, ast.Constant) and node.value in _SWITCHES):
            continue
        par = pm.get(node)
        if isinstance(par, ast.Call) and isinstance(par.func, ast.Attribute) and node in par.args:
            n += 1
            if par.func.attr == "getboolean":
                continue
            if par.func.attr in ("has_option", "remove_option", "set"):
                n -= 1
                continue
            problems.append((node, f"`{norm(par)[:60]}` reads the switch {node.value!r} without ConfigParser.getboolean()"))
        elif isinstance(par, ast.Call) and node in par.args:
            n += 1
            g = None
            t = ctx.resolver.resolve(par, None) if False else None
            name = dotted(par.func) or ""
            g = mod.functions.get(name.split(".")[-1])
            strict = g is not None and any(isinstance(x, ast.Call) and isinstance(x.func, ast.Attribute) and x.func.attr == "getboolean" for x in ast.walk(g.node))
            if not strict:
                problems.append((node, f"`{norm(par)[:60]}` reads the switch {node.value!r} through a helper that does not use ConfigParser.getboolean()"))
    rep.add(rule, f"privilege switches are parsed by getboolean() [{n} reads of {', '.join(_SWITCHES)}]", not problems and n >= 1,
            ctx.where(mod, problems[0][0]) if problems else mod.relpath,
            "; ".join(p[1] for p in problems[:2]) + (": a spelling getboolean() accepts (`Yes`, `ON`) or a typo is then read as 'off' and the step is skipped "
                                                     "without a word" if problems else ""), key=f"{rule}|switches")

from .c20 import with_swallows


def check(ctx, rep):
    prog = ctx.prog
    eff = Effects(prog, ctx.resolver)
    rep.rule("R19a", "in initialize(): socket bound and TLS keys loaded before any privilege change; "
             "dropper called on every normal path; bin script initialises before serving", floor=3)
    rep.rule("R19b", "all feasible paths of the privilege dropper: chroot < root:='/' & chdir into root < "
             "setgroups(()) < set*gid < set*uid; complete drops only; configured option => drop performed", floor=4)
    rep.rule("R19c", "no privileged call, bind or key load inside a try/suppress whose handler can complete normally", floor=3)
    rep.rule("R19f", "the switches that decide a privilege step (usechroot, detach, enable_tls) are read with ConfigParser.getboolean(), which "
             "accepts every documented spelling and aborts on anything else", floor=1)
    strict_switch_obligations(ctx, rep, "R19f")
    rep.rule("R19e", "a failed bind aborts start-up and there is no later bind: server_bind() of the server classes lets errors propagate, "
             "nothing else binds the listening socket", floor=1)
    bind_obligations(ctx, rep, "R19e")
    rep.rule("R19k", "nothing that runs before the privilege dropper stores the configured document root in process-wide state: the root "
             "rewritten to '/' inside the jail must be the one the handlers use (call graph of the start-up steps before the dropper)", floor=1)
    root_memo_obligations(ctx, rep, "R19k")
    rep.rule("R19d", "= R01n: the document root is rewritten to '/' only on paths on which chroot has succeeded (chroot made to fail at every "
             "call site, surviving paths followed)", floor=1)
    confined_root_obligations(ctx, rep, "R19d")
    rep.assume("os.* privileged calls raise OSError on failure; socketserver binds in the server constructor")
    rep.assume("pwd.getpwnam/grp.getgrnam never return None fields")

    initialize = ctx.func("initialization.initialize")
    droppers = _droppers(ctx, eff)
    if initialize is None:
        rep.fail("R19a", "initialization.initialize", detail="start-up function initialize() not found")
        return
    if not droppers:
        rep.fail("R19b", "dropper", detail="no function in pygopherd/initialization.py performs a privilege change; "
                 "the configured chroot/setuid/setgid options would have no effect")
        return
    rep.analysed(initialize.qualname, *[d.qualname for d in droppers])

    # ------------------------------------------------------------------ R19b
    for dropper in droppers:
        w = Walker(prog, ctx.resolver, expr_value=_expr_value,
                   inline=lambda fn, t, d: d < 3 and fn.module.name.startswith("pygopherd.") and fn.cls is None and fn is not dropper
                   and bool({"PRIV"} & eff.summary(fn) or any((dotted(n.func) or "") in LOOKUPS for n in ast.walk(fn.node) if isinstance(n, ast.Call))))
        paths = w.run(dropper)
        rep.extra["exhaustive"] = True
        rep.extra.setdefault("paths_enumerated", {})[dropper.qualname] = len(paths)
        seen_sigs = set()
        for p in paths:
            if p.kind == "raise":
                continue
            seq = []
            for ev in p.events:
                k = _classify(ctx, ev)
                if k:
                    seq.append((k, ev))
            names = [k for k, _ in seq]
            # branch decisions on option tests (for "configured => performed")
            decisions = {}
            for ev in p.events:
                if ev.kind == "test" and isinstance(ev.node, ast.Call):
                    d = dotted(ev.node.func) or ""
                    if d.endswith("has_option") and len(ev.node.args) == 2 and isinstance(ev.node.args[1], ast.Constant):
                        decisions[ev.node.args[1].value] = ev.extra
                    if d.endswith("getboolean") and len(ev.node.args) == 2 and isinstance(ev.node.args[1], ast.Constant):
                        decisions[ev.node.args[1].value] = ev.extra
            sig = (tuple(names), tuple(sorted((k, bool(v)) for k, v in decisions.items())))
            if sig in seen_sigs:
                continue
            seen_sigs.add(sig)
            inst = f"{dropper.qualname} path[{','.join(f'{k}={int(bool(v))}' for k, v in sorted(decisions.items()))}]"
            problems = []

            def idx(kind):
                return [i for i, n in enumerate(names) if n == kind]

            # partial drops are never acceptable
            for kind in ("SETUID_PARTIAL", "SETGID_PARTIAL"):
                for i in idx(kind):
                    problems.append(f"{seq[i][1].name} changes only the effective id (privilege can be regained)")
            for i in idx("SETUID") + idx("SETGID"):
                ev = seq[i][1]
                if not _samearg_full_drop(ev.node, ev.name):
                    problems.append(f"{norm(ev.node)} is not a complete drop (real, effective and saved ids must all change)")
            ch = idx("CHROOT")
            priv_after = [i for i, n in enumerate(names) if n in ("SETGROUPS", "SETGID", "SETUID", "SETUID_PARTIAL", "SETGID_PARTIAL")]
            if ch:
                c0 = ch[0]
                if any(i < c0 for i in priv_after):
                    problems.append("a uid/gid/groups change happens before chroot (chroot needs root and must come first)")
                if not any(n == "ROOTSET" for n in names):
                    problems.append("after chroot the document root is not rewritten to '/'")
                # cwd must end up inside the new root
                chroot_arg = norm(seq[c0][1].node.args[0]) if seq[c0][1].node.args else None
                ok_chdir = False
                for i in idx("CHDIR"):
                    cev = seq[i][1]
                    arg = cev.node.args[0] if cev.node.args else None
                    if i > c0 and isinstance(arg, ast.Constant) and arg.value == "/":
                        ok_chdir = True
                    if i < c0 and arg is not None and chroot_arg is not None and norm(arg) == chroot_arg \
                            and not any(j for j in idx("CHDIR") if i < j < c0):
                        ok_chdir = True
                if not ok_chdir:
                    problems.append("chroot is not accompanied by a chdir into the new root (working directory stays outside the jail)")
            sg, gi, ui = idx("SETGROUPS"), idx("SETGID"), idx("SETUID")
            if (gi or ui) and not sg:
                problems.append("uid/gid changed without clearing supplementary groups")
            if sg and (gi or ui) and min(gi + ui) < sg[0]:
                problems.append("supplementary groups are cleared after the gid/uid change")
            if gi and ui and max(gi) > min(ui):
                problems.append("the user id is changed before the group id (setgid would then fail or be skipped)")
            for i in sg:
                ev = seq[i][1]
                if ev.name == "os.setgroups":
                    arg = ev.node.args[0] if ev.node.args else None
                    if not (isinstance(arg, (ast.Tuple, ast.List)) and not arg.elts):
                        problems.append(f"{norm(ev.node)} does not clear the supplementary group list")
            # configured => performed
            if decisions.get("setuid") is True and not ui:
                problems.append("setuid option present but no uid change on this path")
            if decisions.get("setgid") is True and not gi:
                problems.append("setgid option present but no gid change on this path")
            if decisions.get("usechroot") is True and not ch:
                problems.append("usechroot enabled but no chroot on this path")
            rep.add("R19b", inst, not problems, ctx.where(dropper),
                    "; ".join(problems) if problems else "events: " + " < ".join(names or ["(none)"]),
                    key=f"R19b|{dropper.qualname}|" + ("; ".join(sorted(set(problems))) if problems else inst))

    # ------------------------------------------------------------------ R19b (deferred actions)
    init_mod_ = prog.modules.get("pygopherd.initialization")
    for f_ in (list(init_mod_.functions.values()) if init_mod_ else []):
        for loop in [n for n in ast.walk(f_.node) if isinstance(n, ast.For)]:
            loopvars = {x.id for x in ast.walk(loop.target) if isinstance(x, ast.Name)}
            # ... and what the loop body assigns on each turn
            loopvars |= {x.id for st_ in loop.body for x in ast.walk(st_) if isinstance(x, ast.Name) and isinstance(x.ctx, ast.Store)}
            for inner in [n for st_ in loop.body for n in ast.walk(st_) if isinstance(n, (ast.Lambda, ast.FunctionDef))]:
                a_ = inner.args
                own = {x.arg for x in a_.posonlyargs + a_.args + a_.kwonlyargs}
                body_nodes = [inner.body] if isinstance(inner, ast.Lambda) else inner.body
                used = {x.id for b_ in body_nodes for x in ast.walk(b_) if isinstance(x, ast.Name) and isinstance(x.ctx, ast.Load)}
                late = sorted((used & loopvars) - own)
                if late:
                    rep.fail("R19b", f"{f_.qualname}: deferred action refers to the loop variable(s) {late}", ctx.where(f_, inner),
                             f"a function created inside the loop uses {late} when it is *called*, not when it is created: every queued privilege change "
                             "then acts on the values of the last turn (e.g. the uid is set twice and the gid never)", key=f"R19b|late|{f_.qualname}")

    # ------------------------------------------------------------------ R19a
    dropper_set = set(droppers)
    # the droppers themselves are not inlined here: a call to one is the privilege change (their insides are R19b's)
    w = Walker(prog, ctx.resolver, inline=lambda f, t, d: f.module.name.startswith("pygopherd.") and f.name != "log"
               and f not in dropper_set
               and f.module.name not in ("pygopherd.logger", "pygopherd.fileext", "pygopherd.sighandlers"),
               expr_value=_expr_value, max_depth=4, max_paths=2000000, exact_loops=True, unroll=8)
    paths = w.run(initialize)
    rep.extra.setdefault("paths_enumerated", {})[initialize.qualname] = len(paths)
    prob_order, prob_call = set(), set()
    n_normal = 0
    for p in paths:
        names = []
        called_dropper = False
        for ev in p.events:
            if ev.kind == "call" and ev.target.kind == "repo" and any(f in dropper_set for f in ev.target.funcs):
                called_dropper = True
                names.append(("DROPPER", ev))
            k = _classify(ctx, ev)
            if k:
                names.append((k, ev))
        kinds = [k for k, _ in names]
        privs = [i for i, k in enumerate(kinds) if k in ("CHROOT", "SETGROUPS", "SETGID", "SETUID", "SETUID_PARTIAL", "SETGID_PARTIAL", "DROPPER")]
        if privs:
            first = privs[0]
            if "BIND" not in kinds[:first]:
                prob_order.add("a privilege change can happen before the listening socket is bound")
            if any(k == "BIND" for k in kinds[first:]):
                prob_order.add("the listening socket is bound after privileges were given up")
            if any(k == "TLSKEYS" for k in kinds[first:]):
                prob_order.add("TLS keys are loaded after privileges were given up")
            tls_on = any(e.kind == "test" and e.extra is True and "enable_tls" in norm(e.node) and "getboolean" in norm(e.node) for e in p.events)
            if tls_on and "TLSKEYS" not in kinds[:first]:
                prob_order.add("with enable_tls set, privileges are given up without the TLS certificate and key having been loaded "
                               "(the load is left for later, when the process can no longer read a root-only key)")
        if p.kind != "raise":
            n_normal += 1
            if not called_dropper:
                prob_call.add("initialize() can complete without calling the privilege dropper")
    rep.add("R19a", "initialize: bind/TLS before drop", not prob_order, ctx.where(initialize),
            "; ".join(sorted(prob_order)) or f"{len(paths)} paths", key="R19a|order|" + ";".join(sorted(prob_order)))
    rep.add("R19a", "initialize: dropper on every normal path", not prob_call and n_normal > 0, ctx.where(initialize),
            "; ".join(sorted(prob_call)) or f"{n_normal} normally completing paths", key="R19a|dropper-called")
    # TLS context creation precedes the server: get_server must receive the context
    # (structural: the TLS loader is called in initialize at all)
    binmod = prog.modules.get("bin.pygopherd")
    if binmod is None:
        rep.fail("R19a", "bin/pygopherd", detail="start-up script not found")
    else:
        mf = module_func(binmod)
        # a main() in the script - or in a module of the package the script only calls - is part of it
        wb = Walker(prog, ctx.resolver, inline=lambda fn, t, d: d < 3 and fn is not initialize and fn.cls is None
                    and (fn.module is binmod or (fn.module.name.startswith("pygopherd.") and fn.name in ("main", "run", "cli"))))
        bpaths = wb.run_body(binmod.tree.body, mf)
        problems = set()
        found_init = False
        for p in bpaths:
            order = []
            for ev in p.events:
                if ev.kind == "call":
                    if ev.target.kind == "repo" and initialize in ev.target.funcs:
                        order.append("INIT")
                        found_init = True
                    elif isinstance(ev.node.func, ast.Attribute) and ev.node.func.attr in ("serve_forever", "handle_request"):
                        order.append("SERVE")
            if "SERVE" in order and "INIT" not in order[: order.index("SERVE")]:
                problems.add("the server starts serving before initialize() (and so before the privilege drop)")
        if not found_init:
            problems.add("bin/pygopherd does not call initialization.initialize")
        rep.add("R19a", "bin/pygopherd: initialize before serve_forever", not problems, "bin/pygopherd",
                "; ".join(sorted(problems)), key="R19a|bin-order")

    # ------------------------------------------------------------------ R19c
    sensitive_funcs = set()

    def is_sensitive_call(func, call, target) -> bool:
        if target.kind == "ext":
            if "PRIV" in PRIMITIVES.get(target.ext, ()) or target.ext in LOOKUPS:
                return True
            if isinstance(call.func, ast.Attribute) and call.func.attr == "load_cert_chain":
                return True
        if target.kind == "ctor" and target.cls is not None and any(
                b.startswith("socketserver.") for b in prog.external_bases(target.cls)):
            return True
        if target.kind in ("repo",) and any(f in sensitive_funcs for f in target.funcs):
            return True
        return False

    startup_funcs = [f for f in prog.modules["pygopherd.initialization"].functions.values()]
    if binmod is not None:
        startup_funcs.append(module_func(binmod))
    # `server_class(...)` where server_class is a local holding a server class
    def local_server_ctor(func, call) -> bool:
        if not isinstance(call.func, ast.Name):
            return False
        for n in ast.walk(func.node):
            if isinstance(n, ast.Assign) and any(isinstance(t, ast.Name) and t.id == call.func.id for t in n.targets):
                d = dotted(n.value)
                res = prog.resolve_dotted(func.module, d) if d else None
                if res and res[0] == "class" and any(b.startswith("socketserver.") for b in prog.external_bases(res[1])):
                    return True
        return False

    changed = True
    while changed:
        changed = False
        for f in startup_funcs:
            if f in sensitive_funcs:
                continue
            for call, t in eff.calls_of(f):
                if is_sensitive_call(f, call, t) or local_server_ctor(f, call):
                    sensitive_funcs.add(f)
                    changed = True
                    break
    n_sites = 0
    for f in startup_funcs:
        for call, t in eff.calls_of(f):
            if not (is_sensitive_call(f, call, t) or local_server_ctor(f, call)):
                continue
            n_sites += 1
            problems = []
            for tr in enclosing_tries(f.node, call):
                for h in tr.handlers:
                    ways = handler_completes(Walker(prog, ctx.resolver), f, h)
                    if ways:
                        problems.append(f"`except {norm(h.type) if h.type else ''}` at line {h.lineno} can complete normally")
            for wnode in enclosing_withs(f.node, call):
                for why in with_swallows(ctx, f, wnode):
                    problems.append(f"inside a with block (line {wnode.lineno}) that can swallow it: {why}")
            rep.add("R19c", f"{f.qualname}: {norm(call)[:70]}", not problems, ctx.where(f, call),
                    "failure would be swallowed: " + "; ".join(problems) if problems else "errors propagate",
                    key=f"R19c|{f.qualname}|{norm(call.func)}")


def root_memo_obligations(ctx, rep, rule="R19k"):
    """Nothing that runs in initialize() before the privilege dropper stores the configured document root in process-wide
    state (a module global that later requests read instead of the configuration): the dropper rewrites the *configuration*
    to '/' after chroot, and a root remembered earlier keeps pointing at the pre-chroot path, so the jailed server resolves
    selectors against a directory that does not exist inside the jail (or, worse, exists with other content)."""
    prog = ctx.prog
    eff = Effects(prog, ctx.resolver)
    initialize = ctx.func("initialization.initialize")
    droppers = _droppers(ctx, eff)
    if initialize is None or not droppers:
        rep.fail(rule, "initialization.initialize", detail="start-up function or privilege dropper not found")
        return
    writers = {}
    for f in prog.all_functions():
        if not f.module.name.startswith("pygopherd"):
            continue
        g = {n_ for s in ast.walk(f.node) if isinstance(s, ast.Global) for n_ in s.names}
        if not g:
            continue
        for s in ast.walk(f.node):
            if isinstance(s, (ast.Assign, ast.AnnAssign, ast.AugAssign)) and s.value is not None:
                tg = s.targets if isinstance(s, ast.Assign) else [s.target]
                if any(isinstance(t, ast.Name) and t.id in g for t in tg) and any(
                        isinstance(c, ast.Constant) and c.value == "root" for c in ast.walk(s.value)):
                    writers[f] = s
    rep.analysed(initialize.qualname, *[w.qualname for w in writers])
    if not writers:
        rep.ok(rule, "no function keeps the configured root in process-wide state", "pygopherd/", "", key=f"{rule}|none", nontrivial=False)
        return
    wnames = {w.name for w in writers}
    before = []
    for st in initialize.node.body:
        calls = [c for c in ast.walk(st) if isinstance(c, ast.Call)]
        hit = False
        for c in calls:
            t = ctx.resolver.resolve(c, initialize, None)
            if t is not None and t.kind == "repo" and set(t.funcs) & set(droppers):
                hit = True
        if hit:
            break
        before.append(st)
    else:
        rep.fail(rule, "initialization.initialize", detail="initialize() never calls the privilege dropper")
        return
    problems = []
    seen = set()
    work = []
    for st in before:
        for c in ast.walk(st):
            if isinstance(c, ast.Call):
                t = ctx.resolver.resolve(c, initialize, None)
                if t is not None and t.kind == "repo":
                    work.extend((x, [norm(c)[:40]]) for x in t.funcs if x is not None)
    n_funcs = 0
    while work:
        fn, trail = work.pop()
        if fn in seen or not fn.module.name.startswith("pygopherd"):
            continue
        seen.add(fn)
        n_funcs += 1
        if fn in writers:
            problems.append(f"{' -> '.join(trail)} -> {fn.qualname} stores the configured root in a module global (`{norm(writers[fn])[:50]}`) before the "
                            "privilege dropper has run: after chroot the configuration says '/', the remembered root still names the old path")
            continue
        if len(trail) > 6:
            continue
        for c2, t2 in eff.calls_of(fn, fn.cls):
            if t2.kind == "repo":
                work.extend((x, trail + [fn.name]) for x in t2.funcs if x is not None)
        for c2 in ast.walk(fn.node):
            if isinstance(c2, ast.Call) and isinstance(c2.func, ast.Attribute) and c2.func.attr in wnames:
                work.extend((w, trail + [fn.name]) for w in writers if w.name == c2.func.attr)
    rep.add(rule, f"initialize(): {len(before)} start-up steps before the privilege dropper reach no root memo [{n_funcs} functions followed, "
            f"memo writers: {', '.join(sorted(w.qualname for w in writers))}]", not problems, ctx.where(initialize), "; ".join(sorted(set(problems))),
            key=f"{rule}|initialize")
