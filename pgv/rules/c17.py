"""C17  simpleTAL executes templates according to TAL/TALES semantics - structural clause.

R17a  opcode exhaustiveness: every opcode the compiler can emit has an interpreter
      handler; every TAL/METAL attribute maps to a compiler handler
R17b  priority: the numeric order of the TAL opcodes is the TAL 1.4 order of operations
      and the commands found on an element are sorted before they are emitted
R17c  jump targets: the tuple position where each compile function stores the
      end-of-element symbol is the position its interpreter handler looks up; the symbol
      is defined right before the end-tag/end-scope command; a scope is opened for every
      element that gets a symbol
R17d  save/restore agreement: the field sequence pushed by cmdStartScope equals the one
      restored by cmdEndTagEndScope; same for pushProgram/popProgram
R17e  progress: every path through every cmd* handler sets the program counter
R17f  attributes read on a value narrowed by isinstance(v, C) exist in class C
R17i  the TALES name `attrs` is bound to the current element's original attributes at every evaluation
R17g  sibling keyword discriminators of one if/elif chain test the same position
That expansion equals the TAL/TALES specification is not decided.
"""

from __future__ import annotations

import ast

from ..loader import dotted, norm
from ..paths import Const, Walker, truth

TAL_ORDER = ["TAL_DEFINE", "TAL_CONDITION", "TAL_REPEAT", "TAL_CONTENT", "TAL_REPLACE", "TAL_ATTRIBUTES", "TAL_OMITTAG"]
PARSE_ONLY = {"TAL_REPLACE", "METAL_FILL_SLOT", "METAL_DEFINE_MACRO"}


def saved_names(prog, interp, m, _depth=0):
    """Names of the self attributes a push/pop method saves or restores (tuple of attributes, or a constant name table
    driven by getattr/setattr)."""
    from ..paths import NOCONST, const_value

    out = set()
    for n in ast.walk(m.node):
        if isinstance(n, ast.Tuple) and n.elts and all(isinstance(e, ast.Attribute) and dotted(e.value) == "self" for e in n.elts if not isinstance(e, ast.Name)):
            out |= {e.attr for e in n.elts if isinstance(e, ast.Attribute)}
        # [getattr(self, name) for name in TABLE] / for name, value in zip(TABLE, vars): setattr(self, name, value)
        if isinstance(n, (ast.ListComp, ast.GeneratorExp)) and len(n.generators) == 1 and isinstance(n.elt, ast.Call) and dotted(n.elt.func) == "getattr":
            v = const_value(prog, n.generators[0].iter, m, interp)
            if v is not NOCONST and isinstance(v, tuple):
                out |= {x for x in v if isinstance(x, str)}
        if isinstance(n, ast.For) and isinstance(n.iter, ast.Call) and dotted(n.iter.func) == "zip" and n.iter.args \
                and any(isinstance(x, ast.Call) and dotted(x.func) == "setattr" for x in ast.walk(n)):
            v = const_value(prog, n.iter.args[0], m, interp)
            if v is not NOCONST and isinstance(v, tuple):
                out |= {x for x in v if isinstance(x, str)}
        # a NamedTuple of the saved state: NT(f=self.f, ...) / a helper handed the class that collects its _fields;
        # one-return helpers of the class (self.currentScope()) are followed
        if isinstance(n, ast.Call):
            from ..paths import _namedtuple_type

            cands = [n.func] + list(n.args)
            for c in cands:
                d = dotted(c)
                res = prog.resolve_dotted(m.module, d) if d and not d.startswith("self") else None
                if res and res[0] == "class" and _namedtuple_type(res[1]) is not None:
                    out |= set(_namedtuple_type(res[1])._fields)
            if isinstance(n.func, ast.Attribute) and dotted(n.func.value) == "self" and _depth < 2:
                h = prog.resolve_method(interp, n.func.attr)
                if h is not None and h is not m and len(h.node.body) <= 12 and n.func.attr not in ("pushProgram", "popProgram", "execute", "cleanState"):
                    out |= saved_names(prog, interp, h, _depth + 1)
    return out



def handler_table(cls, attr="commandHandler"):
    """opcode name -> handler method name, from `self.<attr>[OP] = self.method` assignments."""
    out = {}
    for m in cls.methods.values():
        for n in ast.walk(m.node):
            if isinstance(n, ast.Assign) and len(n.targets) == 1 and isinstance(n.targets[0], ast.Subscript) \
                    and norm(n.targets[0].value) == f"self.{attr}" and isinstance(n.targets[0].slice, ast.Name):
                v = n.value
                out[n.targets[0].slice.id] = v.attr if isinstance(v, ast.Attribute) else norm(v)
            if isinstance(n, ast.Assign) and any(norm(t) == f"self.{attr}" for t in n.targets) and isinstance(n.value, ast.Dict):
                for k, v in zip(n.value.keys, n.value.values):
                    if isinstance(k, ast.Name):
                        out[k.id] = v.attr if isinstance(v, ast.Attribute) else norm(v)
    return out


def check(ctx, rep):
    prog = ctx.prog
    rep.rule("R17a", "emitted opcodes have interpreter handlers; attribute maps point at compiler handlers", floor=12)
    rep.rule("R17b", "TAL opcode values follow define<condition<repeat<content<=replace<attributes<omit-tag; found commands are sorted", floor=2)
    rep.rule("R17c", "end-of-element symbol: stored and looked up at the same tuple position; defined right before END_SCOPE; scope opened for every symbol", floor=6)
    rep.rule("R17d", "scope / program state: pushed field sequence = restored field sequence", floor=2)
    rep.rule("R17e", "every path of every command handler sets the program counter", floor=12)
    rep.rule("R17f", "attributes read after isinstance narrowing exist in the narrowed class", floor=5)
    rep.rule("R17h", "repeat variables and locals are scoped by stack: each loop saves the repeat map and restores it when it ends", floor=1)
    rep.rule("R17i", "`attrs` is the current element's original attributes at every evaluation: handlers pass self.originalAttributes, "
             "Context.evaluate binds it before evaluating, nothing else binds it", floor=3)
    rep.rule("R17j", "every pass of a repeat starts from the element's initial state: on re-entry cmdRepeat re-establishes each register that the "
             "commands ordered after tal:repeat (content, attributes, omit-tag) can change", floor=1)
    rep.rule("R17g", "keyword discriminators of one if/elif chain index the same position", floor=0)
    rep.rule("R17l", "the content, condition, attributes and omit-tag commands treat the value of their expression as TAL prescribes - nothing, "
             "default, and real values including 0, the empty string and empty sequences: each handler is evaluated by the walker on "
             "representative values and the interpreter's registers are compared", floor=3)
    rep.rule("R17p", "in the path walk the no-call switch is read only after the loop over the elements: intermediate elements are always "
             "resolved, nocall: / exists: hold back the final value only", floor=1)
    rep.rule("R17o", "a metal:fill-slot fills the nearest enclosing metal:use-macro (compiler evaluated with nested use-macro elements open)", floor=1)
    rep.rule("R17n", "the slot fillers of a metal:use-macro are gone once its expansion has returned: the register popProgram() restores is cleared "
             "right after the restore", floor=1)
    rep.rule("R17m", "tal:define: each statement is local unless it says global, statements take effect in source order (a later statement sees "
             "the variables of the earlier ones), one local scope per element: the compiler's parser and the interpreter's handler are "
             "evaluated on representative statements", floor=2)
    rep.rule("R17k", "TALES expressions have their prescribed value: Context.evaluate is evaluated by the walker on representative expressions "
             "(alternation, exists / nocall / not / string prefixes, nothing / default, sub-paths) over a small context of true, false, "
             "empty and missing names", floor=1)
    mod = prog.modules.get("simpletal.simpleTAL")
    tales = prog.modules.get("simpletal.simpleTALES")
    if mod is None or tales is None:
        rep.fail("R17a", "simpletal", detail="simpleTAL modules not found")
        return
    interp = mod.classes.get("TemplateInterpreter")
    comp = mod.classes.get("TemplateCompiler")
    if interp is None or comp is None:
        rep.fail("R17a", "TemplateInterpreter/TemplateCompiler", detail="compiler or interpreter class not found")
        return
    opcodes = {}
    for name, vals in mod.globals.items():
        if (name.startswith("TAL_") or name.startswith("METAL_")) and not name.endswith(("_URI", "_REGEX")) \
                and len(vals) == 1 and isinstance(vals[0], ast.Constant) and isinstance(vals[0].value, int):
            opcodes[name] = vals[0].value
    ihandlers = handler_table(interp)
    chandlers = handler_table(comp)

    # ------------------------------------------------------------------ R17a
    emitted = {}
    for C in [c for c in mod.classes.values() if prog.is_subclass(c, comp)]:
        for m in C.methods.values():
            for n in ast.walk(m.node):
                if isinstance(n, ast.Tuple) and n.elts and isinstance(n.elts[0], ast.Name) and n.elts[0].id in opcodes and isinstance(n.ctx, ast.Load):
                    emitted.setdefault(n.elts[0].id, (m, n))
    for op, (m, n) in sorted(emitted.items()):
        ok = op in ihandlers and interp.methods.get(ihandlers[op]) is not None
        rep.add("R17a", f"opcode {op} (emitted in {m.qualname}) has an interpreter handler", ok, ctx.where(m, n),
                "" if ok else f"the compiler emits {op} but TemplateInterpreter.commandHandler has no (existing) handler for it: expanding such a template raises KeyError",
                key=f"R17a|emit|{op}")
    for mapname in ("tal_attribute_map", "metal_attribute_map"):
        for m in comp.methods.values():
            for n in ast.walk(m.node):
                if isinstance(n, ast.Assign) and len(n.targets) == 1 and isinstance(n.targets[0], ast.Subscript) \
                        and norm(n.targets[0].value) == f"self.{mapname}" and isinstance(n.value, ast.Name):
                    op = n.value.id
                    ok = op in chandlers and comp.methods.get(chandlers[op]) is not None
                    rep.add("R17a", f"{mapname}[{norm(n.targets[0].slice)[:30]}] = {op} has a compile handler", ok, ctx.where(m, n),
                            "" if ok else f"attribute maps to {op}, for which TemplateCompiler.commandHandler has no handler", key=f"R17a|map|{mapname}|{op}")
    vals = {}
    for op, v in opcodes.items():
        vals.setdefault(v, []).append(op)
    dup = {v: ops for v, ops in vals.items() if len(ops) > 1}
    rep.add("R17a", "opcode values are distinct", not dup, mod.relpath, f"opcodes share a value: {dup}" if dup else "", key="R17a|distinct", nontrivial=False)

    # ------------------------------------------------------------------ R17b
    seq = [opcodes.get(o) for o in TAL_ORDER]
    ok = all(v is not None for v in seq) and all(a < b for a, b in zip(seq, seq[1:]))
    rep.add("R17b", "TAL opcode order = TAL 1.4 order of operations", ok, mod.relpath,
            "" if ok else f"opcode values {dict(zip(TAL_ORDER, seq))} are not strictly increasing in the order define, condition, repeat, content|replace, attributes, omit-tag",
            key="R17b|order")
    pst = comp.methods.get("parseStartTag")
    problems = []
    if pst is None:
        problems.append("parseStartTag not found")
    else:
        w = Walker(prog, ctx.resolver, merge_loops=True)
        # the list that is iterated to emit commands must have been sorted since its last append
        loops = [n for n in ast.walk(pst.node) if isinstance(n, ast.For) and any(
            isinstance(c, ast.Subscript) and norm(c.value) == "self.commandHandler" for c in ast.walk(n))]
        if not loops:
            problems.append("command emission loop not found")
        for loop in loops:
            it = loop.iter
            src_names = set()
            if isinstance(it, ast.Name):
                for n in ast.walk(pst.node):
                    if isinstance(n, ast.Assign) and any(isinstance(t, ast.Name) and t.id == it.id for t in n.targets):
                        src_names |= {x.id for x in ast.walk(n.value) if isinstance(x, ast.Name)}
            tal_lists = [s for s in src_names if "TAL" in s.upper() and "METAL" not in s.upper()] or [norm(it)]
            for lst in tal_lists:
                sorts = [n for n in ast.walk(pst.node) if isinstance(n, ast.Call) and isinstance(n.func, ast.Attribute) and n.func.attr == "sort"
                         and norm(n.func.value) == lst and n.lineno < loop.lineno and not n.keywords and not n.args]
                sorted_calls = [n for n in ast.walk(pst.node) if isinstance(n, ast.Call) and dotted(n.func) == "sorted" and n.args and norm(n.args[0]) == lst
                                and n.lineno <= loop.lineno and not [k for k in n.keywords if k.arg in ("key", "reverse")]]
                appends_after = [n for n in ast.walk(pst.node) if isinstance(n, ast.Call) and isinstance(n.func, ast.Attribute) and n.func.attr in ("append", "insert", "extend", "reverse")
                                 and norm(n.func.value) == lst and sorts and n.lineno > max(s.lineno for s in sorts) and n.lineno < loop.lineno]
                if not sorts and not sorted_calls:
                    problems.append(f"the TAL commands found on an element ({lst}) are emitted in attribute order, not sorted by priority")
                if appends_after:
                    problems.append(f"{lst} is modified after it was sorted")
    rep.add("R17b", "commands on one element are sorted by opcode before emission", not problems, ctx.where(pst) if pst else mod.relpath,
            "; ".join(problems), key="R17b|sort")

    # ------------------------------------------------------------------ R17c
    interps = [c for c in prog.all_classes() if prog.is_subclass(c, interp) and c.module.name == "simpletal.simpleTAL"]
    for op, (m, n) in sorted(emitted.items()):
        # every emission of op: position of self.endTagSymbol inside the argument tuple
        positions = set()
        for C in [c for c in mod.classes.values() if prog.is_subclass(c, comp)]:
            for mm in C.methods.values():
                for t in ast.walk(mm.node):
                    if isinstance(t, ast.Tuple) and t.elts and isinstance(t.elts[0], ast.Name) and t.elts[0].id == op and len(t.elts) == 2 \
                            and isinstance(t.elts[1], ast.Tuple):
                        for i, e in enumerate(t.elts[1].elts):
                            if norm(e) in ("self.endTagSymbol", "endSymbol", "endTagSymbol"):
                                positions.add(i)
        if not positions:
            continue
        hname = ihandlers.get(op)
        for IC in interps:
            h = prog.resolve_method(IC, hname) if hname else None
            if h is None or (h.cls is not IC and IC is not interp):
                continue
            # the handler is evaluated with args = ("ARG0", "ARG1", ...) and a symbol table that maps ARGk to 1000 + k: the
            # jump targets it can assign tell which argument position it looks the symbol up at, however the value is
            # unpacked, renamed or handed to helper methods
            from ..paths import Const as _C

            nargs = max(positions) + 3
            argv = tuple(f"ARG{i}" for i in range(nargs))
            used = set()
            aname = h.params[2] if len(h.params) > 2 else "args"
            tried = []
            for width in sorted({nargs, max(positions) + 1, max(positions) + 2}):
                argv = tuple(f"ARG{i}" for i in range(width))
                facts = {"self.symbolTable": _C({a: 1000 + i for i, a in enumerate(argv)})}
                wk = Walker(prog, ctx.resolver, assumptions=facts, sticky=set(facts), merge_loops=True,
                            inline=lambda fn, t, d: d < 3 and t.bound_cls is not None and fn.cls is not None and fn.cls.module is h.module
                            and not fn.name.startswith("cmd"))
                try:
                    for pth in wk.run(h, IC, env={aname: _C(argv)}, facts=dict(facts)):
                        for e in pth.events:
                            if e.kind == "assign" and isinstance(e.target, str) and e.target in ("self.programCounter", "self.movePCForward", "self.movePCBack") \
                                    and e.extra is not None and e.extra.kind == "const" and isinstance(e.extra.value, int) and e.extra.value >= 1000:
                                used.add(e.extra.value - 1000)
                except Exception:
                    pass
                if used:
                    break
            # lookups on paths the evaluation does not take (exception handlers): resolved through unpacking and helper parameters
            from ..structure import helper_calls

            def position_of(k, fn, bind, depth=0):
                if isinstance(k, ast.Subscript) and isinstance(k.value, ast.Name) and k.value.id == (fn.params[2] if fn is h and len(fn.params) > 2 else aname) \
                        and isinstance(k.slice, ast.Constant):
                    return k.slice.value
                if isinstance(k, ast.Name):
                    for a_ in ast.walk(fn.node):
                        if isinstance(a_, ast.Assign) and len(a_.targets) == 1 and isinstance(a_.targets[0], (ast.Tuple, ast.List)) \
                                and isinstance(a_.value, ast.Name) and a_.value.id == aname and fn is h:
                            names_ = [x.id if isinstance(x, ast.Name) else None for x in a_.targets[0].elts]
                            if k.id in names_:
                                return names_.index(k.id)
                        if isinstance(a_, ast.Assign) and len(a_.targets) == 1 and isinstance(a_.targets[0], ast.Name) and a_.targets[0].id == k.id and depth < 3:
                            r_ = position_of(a_.value, fn, bind, depth + 1)
                            if r_ is not None:
                                return r_
                    if bind and k.id in bind and depth < 3:
                        return position_of(bind[k.id], h, None, depth + 1)
                return None

            scopes = [(h, None)] + [(g, b) for g, _, caller, b in helper_calls(prog, ctx.resolver, h, IC, depth=1) if not g.name.startswith("cmd")]
            for fn, bind in scopes:
                for s in ast.walk(fn.node):
                    if isinstance(s, ast.Subscript) and norm(s.value) == "self.symbolTable":
                        pos = position_of(s.slice, fn, bind)
                        used.add(pos if pos is not None else norm(s.slice))
            used = {u for u in used if not (isinstance(u, str) and any(isinstance(v, int) for v in used) and False)}
            ok = used and used <= positions and len(positions) == 1
            rep.add("R17c", f"{op}: symbol stored at {sorted(positions)} / looked up at {sorted(map(str, used))} in {h.qualname}", bool(ok), ctx.where(h),
                    "" if ok else f"the compiler stores the end-of-element symbol at tuple position {sorted(positions)} of {op}'s arguments but {h.qualname} "
                    f"jumps through position {sorted(map(str, used)) or 'none'}: the jump lands at the wrong command (or raises)",
                    key=f"R17c|{op}|{h.qualname}")
    pt = comp.methods.get("popTag")
    problems = []
    if pt is None:
        problems.append("popTag not found")
    else:
        found = False
        # popTag itself and the methods of the compiler it hands the work to
        scope_nodes = [pt.node]
        for c_ in ast.walk(pt.node):
            if isinstance(c_, ast.Call) and isinstance(c_.func, ast.Attribute) and dotted(c_.func.value) == "self":
                g_ = prog.resolve_method(comp, c_.func.attr)
                if g_ is not None and g_ is not pt and g_.node not in scope_nodes:
                    scope_nodes.append(g_.node)
        for n in [x for sn_ in scope_nodes for x in ast.walk(sn_)]:
            body = getattr(n, "body", None)
            if not isinstance(body, list):
                continue
            for blk in (body, getattr(n, "orelse", []) or []):
                for i, st in enumerate(blk):
                    if isinstance(st, ast.Assign) and any(isinstance(t, ast.Subscript) and norm(t.value) == "self.symbolLocationTable" for t in st.targets):
                        found = True
                        if norm(st.value) != "len(self.commandList)":
                            problems.append(f"the symbol is bound to `{norm(st.value)}`, not to the index of the next command")
                        nxt = blk[i + 1] if i + 1 < len(blk) else None
                        if not (isinstance(nxt, ast.Expr) and isinstance(nxt.value, ast.Call) and "TAL_ENDTAG_ENDSCOPE" in norm(nxt.value)):
                            problems.append("the symbol is not defined immediately before the END_SCOPE command is emitted")
        if not found:
            problems.append("popTag never defines the end-of-element symbol")
    rep.add("R17c", "end symbol = index of the END_SCOPE command", not problems, ctx.where(pt) if pt else mod.relpath, "; ".join(problems), key="R17c|popTag")
    at = comp.methods.get("addTag")
    problems = []
    if at is None or pst is None:
        problems.append("addTag/parseStartTag not found")
    else:
        # START_SCOPE is emitted exactly when the tag carries a command (every path of addTag, whichever way it is written)
        n_cmd = n_plain = 0
        for pth in Walker(prog, ctx.resolver, merge_loops=True).run(at, comp):
            if pth.kind == "raise":
                continue
            has = None
            for e in pth.events:
                if e.kind == "test" and e.extra is not None:
                    t = norm(e.node)
                    if t in ("command is not None", "command != None", "command"):
                        has = bool(e.extra)
                    elif t in ("command is None", "command == None"):
                        has = not bool(e.extra)
            scoped = [e for e in pth.events if e.kind == "call" and isinstance(e.node.func, ast.Attribute) and e.node.func.attr == "addCommand"
                      and "TAL_START_SCOPE" in norm(e.node)]
            if has is True:
                n_cmd += 1
                if len(scoped) != 1:
                    problems.append("addTag does not open a scope for elements that carry a command")
            elif has is False:
                n_plain += 1
                if scoped:
                    problems.append("a scope is opened for elements without commands")
        if not n_cmd:
            problems.append("addTag does not open a scope for elements that carry a command")
        # in parseStartTag: after a symbol was allocated every path adds the tag with a command
        w = Walker(prog, ctx.resolver, merge_loops=True,
                   inline=lambda fn, t, d: d < 2 and t.bound_cls is not None and fn.cls is not None and fn.cls.module is pst.module
                   and fn.name not in ("addTag", "addCommand", "popTag") and any(isinstance(x, ast.Attribute) and x.attr == "addTag" for x in ast.walk(fn.node)))
        try:
            for p in w.run(pst, comp):
                if p.kind == "raise":
                    continue
                alloc = None
                for i, e in enumerate(p.events):
                    if e.kind == "assign" and isinstance(e.target, str) and e.target == "tagProperties['endTagSymbol']":
                        alloc = i
                if alloc is None:
                    continue
                has_cmd = any(e.kind == "assign" and isinstance(e.target, str) and e.target.endswith("['command']") for e in p.events[alloc:])
                added = any(e.kind == "call" and isinstance(e.node.func, ast.Attribute) and e.node.func.attr == "addTag" for e in p.events[alloc:])
                if not (has_cmd and added):
                    problems.append("a path allocates an end symbol but adds the tag without a command (END_SCOPE would pop a scope that was never pushed)")
                    break
        except Exception:
            problems.append("could not enumerate parseStartTag paths")
    rep.add("R17c", "scope opened iff an end symbol is allocated", not problems, ctx.where(at) if at else mod.relpath, "; ".join(sorted(set(problems))), key="R17c|scope")

    # ------------------------------------------------------------------ R17d
    from ..paths import _namedtuple_type
    from ..structure import resolve_value as _rv

    def _nt_class(expr, fn):
        """The repository NamedTuple class an expression names (None otherwise)."""
        d = dotted(expr)
        if not d:
            return None
        res = prog.resolve_dotted(fn.module, d)
        if res and res[0] == "class" and _namedtuple_type(res[1]) is not None:
            return res[1]
        return None

    def _as_tuple(a, fn, depth=0):
        """A saved-state expression as a tuple of the expressions saved, in field order:
        a tuple literal; NT(f=...)/NT(...); a one-return helper returning one of these; a helper that collects
        getattr(self, f) for f in NT._fields (then the fields are self.<f>)."""
        if depth > 3 or a is None:
            return None
        if isinstance(a, ast.Name):
            for s_ in ast.walk(fn.node):
                if isinstance(s_, ast.Assign) and any(isinstance(t, ast.Name) and t.id == a.id for t in s_.targets):
                    return _as_tuple(s_.value, fn, depth + 1)
            return None
        if isinstance(a, ast.Tuple):
            return a
        if isinstance(a, ast.Call):
            C = _nt_class(a.func, fn)
            if C is not None:
                fields = list(_namedtuple_type(C)._fields)
                vals = dict(zip(fields, a.args))
                vals.update({k.arg: k.value for k in a.keywords if k.arg})
                if all(f in vals for f in fields):
                    return ast.Tuple(elts=[vals[f] for f in fields], ctx=ast.Load())
            if isinstance(a.func, ast.Attribute) and dotted(a.func.value) == "self":
                h = interp.methods.get(a.func.attr) or prog.resolve_method(interp, a.func.attr)
                if h is not None:
                    # reflection over the fields of the class it is handed
                    if any(isinstance(x, ast.Attribute) and x.attr == "_fields" for x in ast.walk(h.node)):
                        for arg in list(a.args) + [k.value for k in a.keywords]:
                            C = _nt_class(arg, fn)
                            if C is not None:
                                return ast.Tuple(elts=[ast.Attribute(value=ast.Name(id="self", ctx=ast.Load()), attr=f, ctx=ast.Load())
                                                       for f in _namedtuple_type(C)._fields], ctx=ast.Load())
                    rets = [r for r in ast.walk(h.node) if isinstance(r, ast.Return) and r.value is not None]
                    if len(rets) == 1:
                        return _as_tuple(rets[0].value, h, depth + 1)
        return None

    def pushed_fields(m, stack):
        for n in ast.walk(m.node):
            if isinstance(n, ast.Call) and isinstance(n.func, ast.Attribute) and n.func.attr == "append" and norm(n.func.value) == stack and n.args:
                t = _as_tuple(n.args[0], m)
                if t is not None:
                    return t
        return None

    def _restore_targets(src_is, fn, depth=0):
        """Targets a saved state is unpacked into, in order; src_is(expr) tells the saved-state expression."""
        for n in ast.walk(fn.node):
            if isinstance(n, ast.Assign) and src_is(n.value) and isinstance(n.targets[0], ast.Tuple):
                return n.targets[0]
        if depth > 2:
            return None
        # handed to a helper of the class, or held in a local first
        for n in ast.walk(fn.node):
            if isinstance(n, ast.Assign) and src_is(n.value) and isinstance(n.targets[0], ast.Name):
                nm = n.targets[0].id
                r = _restore_targets(lambda e, _nm=nm: isinstance(e, ast.Name) and e.id == _nm, fn, depth + 1)
                if r is not None:
                    return r
            if isinstance(n, ast.Call) and isinstance(n.func, ast.Attribute) and dotted(n.func.value) == "self":
                for i, arg in enumerate(n.args):
                    if src_is(arg):
                        h = interp.methods.get(n.func.attr) or prog.resolve_method(interp, n.func.attr)
                        if h is not None and len(h.params) > i + 1:
                            pn = h.params[i + 1]
                            r = _restore_targets(lambda e, _pn=pn: isinstance(e, ast.Name) and e.id == _pn, h, depth + 1)
                            if r is not None:
                                return r
                            if any(isinstance(x, ast.Attribute) and x.attr == "_fields" for x in ast.walk(h.node)) and \
                                    any(isinstance(x, ast.Call) and dotted(x.func) == "setattr" for x in ast.walk(h.node)):
                                return "<all fields>"
        return None

    def restored_fields(m, stack):
        def is_pop(e):
            return isinstance(e, ast.Call) and isinstance(e.func, ast.Attribute) and e.func.attr == "pop" and norm(e.func.value) == stack
        return _restore_targets(is_pop, m)

    for push, pop, stack, label in (("cmdStartScope", "cmdEndTagEndScope", "self.scopeStack", "scope"),
                                    ("pushProgram", "popProgram", "self.programStack", "program")):
        pm_, qm = interp.methods.get(push), interp.methods.get(pop)
        problems = []
        if pm_ is None or qm is None:
            problems.append(f"{push}/{pop} not found")
        else:
            a, b = pushed_fields(pm_, stack), restored_fields(qm, stack)
            if a is None or b is None:
                problems.append("push/pop of the state tuple not found")
            else:
                def flat(t):
                    out = []
                    for e in t.elts:
                        if isinstance(e, ast.Name):
                            # vars tuple: expand through its assignment / unpack
                            out.append("<" + e.id + ">")
                        else:
                            out.append(norm(e))
                    return out
                if b == "<all fields>":
                    b = ast.Tuple(elts=list(a.elts), ctx=ast.Store())  # restored by reflection over the same field list
                fa, fb = flat(a), flat(b)
                if label == "program" and a.elts and not isinstance(a.elts[0], ast.Name):
                    # (state, commandList, symbolTable) with the state given in place
                    inner = _as_tuple(a.elts[0], pm_)
                    if inner is not None:
                        fa = [norm(e) for e in inner.elts] + fa[1:]
                if label == "program" and fb and fb[0].startswith("<"):
                    nm = fb[0][1:-1]
                    rb = _restore_targets(lambda e, _nm=nm: isinstance(e, ast.Name) and e.id == _nm, qm)
                    if rb == "<all fields>":
                        fb = fa[:len(fa) - len(fb) + 1] + fb[1:]
                    elif rb is not None:
                        fb = [norm(e) for e in rb.elts] + fb[1:]
                if label == "program" and fa and fa[0].startswith("<"):
                    inner = _as_tuple(ast.Name(id=fa[0][1:-1], ctx=ast.Load()), pm_)
                    if inner is not None:
                        fa = [norm(e) for e in inner.elts] + fa[1:]
                if label == "program":
                    # (vars, commandList, symbolTable): expand `vars`
                    va = next((s.value for s in ast.walk(pm_.node) if isinstance(s, ast.Assign) and any(isinstance(t, ast.Name) and t.id == "vars" for t in s.targets)), None)
                    vb = next((s.targets[0] for s in ast.walk(qm.node) if isinstance(s, ast.Assign) and isinstance(s.value, ast.Name) and s.value.id == "vars"
                               and isinstance(s.targets[0], ast.Tuple)), None)
                    if va is not None and vb is not None:
                        fa = [norm(e) for e in va.elts] + fa[1:]
                        fb = [norm(e) for e in vb.elts] + fb[1:]
                if fa != fb:
                    diff = [(x, y) for x, y in zip(fa, fb) if x != y][:2]
                    problems.append(f"{push} saves {len(fa)} fields, {pop} restores {len(fb)}; first differences {diff}: state leaks between elements")
        rep.add("R17d", f"{push} / {pop} agree", not problems, ctx.where(pm_) if pm_ else mod.relpath, "; ".join(problems), key=f"R17d|{label}")
        # completeness: everything the nested run / the element can change is part of what is saved
        if pm_ is not None and qm is not None:
            from ..paths import NOCONST, const_value

            names_saved = lambda m: saved_names(prog, interp, m)  # noqa: E731

            def assigned(m):
                return {n.attr for n in ast.walk(m.node) if isinstance(n, ast.Attribute) and isinstance(n.ctx, ast.Store) and dotted(n.value) == "self"}

            saved, restored = names_saved(pm_), names_saved(qm) | (assigned(qm) if label == "scope" else set())
            if label == "program":
                cs = interp.methods.get("cleanState")
                need = (assigned(cs) if cs else set())
                for hm in interp.methods.values():
                    if hm.name.startswith("cmd"):
                        need |= assigned(hm)
                need -= {"commandList", "symbolTable", "programStack", "commandHandler", "file", "context"}
            else:
                # per-element state: what cmdStartScope resets for the new element
                need = assigned(pm_) - {"programCounter"}
            missing = sorted(need - saved)
            rep.add("R17d", f"{push} saves every register a nested {'template run' if label == 'program' else 'element'} can change ({len(need)})", not missing,
                    ctx.where(pm_), f"{missing} are changed by a nested {'run' if label == 'program' else 'element'} but not saved: their values leak back into the enclosing "
                    f"{'template (e.g. the locals-defined flag: the enclosing element then never pops its locals)' if label == 'program' else 'element'}" if missing else "",
                    key=f"R17d|{label}|complete")

    # ------------------------------------------------------------------ R17e
    for IC in interps:
        for op, hname in sorted(ihandlers.items()):
            h = IC.methods.get(hname) if IC is not interp else interp.methods.get(hname)
            if h is None:
                continue
            w = Walker(prog, ctx.resolver, merge_loops=True,
                       inline=lambda fn, t, d: d < 3 and t.bound_cls is not None and fn.cls is not None and fn.cls.module is h.module
                       and not fn.name.startswith("cmd") and any(isinstance(x, ast.Attribute) and x.attr == "programCounter" for x in ast.walk(fn.node)))
            problems = []
            try:
                for p in w.run(h, IC):
                    if p.kind == "raise":
                        continue
                    if not any(e.kind == "assign" and e.target == "self.programCounter" for e in p.events) and \
                            not any(e.kind == "assign" and isinstance(e.target, str) and "self.programCounter" in e.target for e in p.events):
                        problems.append("a path returns without moving the program counter (the interpreter would execute the same command forever)")
                        break
            except Exception:
                problems.append("could not enumerate the handler's paths")
            rep.add("R17e", f"{h.qualname} always sets the program counter", not problems, ctx.where(h), "; ".join(problems), key=f"R17e|{h.qualname}")

    # ------------------------------------------------------------------ R17f
    n_narrow = 0
    for m2 in (mod, tales):
        for f in list(m2.functions.values()) + [x for c in m2.classes.values() for x in c.methods.values()]:
            for n in ast.walk(f.node):
                if isinstance(n, ast.If) and isinstance(n.test, ast.Call) and dotted(n.test.func) == "isinstance" and len(n.test.args) == 2 \
                        and isinstance(n.test.args[0], ast.Name):
                    var = n.test.args[0].id
                    res = prog.resolve_dotted(f.module, dotted(n.test.args[1]) or "")
                    if not (res and res[0] == "class"):
                        continue
                    C = res[1]
                    defined = set()
                    for c in prog.mro(C):
                        defined |= set(c.methods) | set(c.attrs)
                        for mm in c.methods.values():
                            for a in ast.walk(mm.node):
                                if isinstance(a, ast.Attribute) and isinstance(a.ctx, ast.Store) and dotted(a.value) == "self":
                                    defined.add(a.attr)
                    ext = prog.external_bases(C)
                    for st in n.body:
                        for a in ast.walk(st):
                            if isinstance(a, ast.Attribute) and isinstance(a.value, ast.Name) and a.value.id == var and isinstance(a.ctx, ast.Load):
                                n_narrow += 1
                                ok = a.attr in defined or a.attr.startswith("__") or (ext and a.attr in ("args", "with_traceback"))
                                rep.add("R17f", f"{f.qualname}: {var}.{a.attr} after isinstance({var}, {C.name})", ok, ctx.where(f, a),
                                        "" if ok else f"class {C.name} (and its bases) define no attribute `{a.attr}`: this branch raises AttributeError whenever it runs",
                                        key=f"R17f|{f.qualname}|{C.name}.{a.attr}")

    # ------------------------------------------------------------------ R17h
    from .c18 import context_symmetry

    context_symmetry(ctx, rep, "R17h", tales)

    # ------------------------------------------------------------------ R17k
    tales_evaluation_obligations(ctx, rep, "R17k", tales)
    intermediate_call_obligations(ctx, rep, "R17p", tales)

    # ------------------------------------------------------------------ R17l
    command_evaluation_obligations(ctx, rep, "R17l", mod, tales)

    # ------------------------------------------------------------------ R17m
    define_evaluation_obligations(ctx, rep, "R17m", mod)
    slot_parameter_obligations(ctx, rep, "R17n", mod)
    fill_slot_owner_obligations(ctx, rep, "R17o", mod)

    # ------------------------------------------------------------------ R17i
    ctxcls = tales.classes.get("Context")
    ev = ctxcls.methods.get("evaluate") if ctxcls else None
    if ev is None:
        rep.fail("R17i", "Context.evaluate", detail="TALES evaluation entry point not found")
    else:
        oparam = ev.params[2] if len(ev.params) > 2 else "originalAtts"
        problems = set()
        n_outside = 0
        from ..paths import Const as _C

        marker = {"__original_attributes__": 1}
        # evaluated with a non-None attribute mapping: the way the method tests for "called by a template command" does not matter
        for p in Walker(prog, ctx.resolver, merge_loops=True).run(ev, ctxcls, env={oparam: _C(marker)}):
            if p.kind == "raise" and not p.events:
                continue
            n_outside += 1
            bound = None
            for i, e in enumerate(p.events):
                if e.kind == "assign" and e.target == "self.globals['attrs']" and e.extra is not None and e.extra.kind == "const" and e.extra.value is marker:
                    bound = i
                    break
            first_eval = next((i for i, e in enumerate(p.events) if e.kind == "call" and (
                (isinstance(e.node.func, ast.Attribute) and dotted(e.node.func.value) == "self" and e.node.func.attr.startswith("evaluate"))
                or (isinstance(e.node.func, ast.Call) and dotted(e.node.func.func) == "getattr"))), None)
            if bound is None:
                problems.add("an evaluation requested by a template command does not bind `attrs` to that element's attributes "
                             "(`attrs` keeps whatever element set it last, e.g. a child whose scope has already been closed)")
            elif first_eval is not None and bound > first_eval:
                problems.add("`attrs` is bound after the expression has been evaluated")
        if not n_outside:
            problems.add("no path through the evaluation entry point")
        rep.add("R17i", f"{ev.qualname}: binds attrs before evaluating", not problems, ctx.where(ev), "; ".join(sorted(problems)), key="R17i|evaluate")
        # every command handler hands over the attributes of the element it is working on
        ti = mod.classes.get("TemplateInterpreter")
        calls = []
        for C in mod.classes.values():
            if ti is None or not prog.is_subclass(C, ti):
                continue
            for m in C.methods.values():
                for n in ast.walk(m.node):
                    if isinstance(n, ast.Call) and isinstance(n.func, ast.Attribute) and n.func.attr == "evaluate" and norm(n.func.value) == "self.context":
                        calls.append((m, n))
        bad = [(m, n) for m, n in calls if not (len(n.args) >= 2 and norm(n.args[1]) == "self.originalAttributes")]
        rep.add("R17i", f"{len(calls)} evaluations in command handlers pass self.originalAttributes", bool(calls) and not bad,
                ctx.where(bad[0][0], bad[0][1]) if bad else ctx.where(ev),
                f"`{norm(bad[0][1])[:60]}` in {bad[0][0].qualname} evaluates without the element's attributes" if bad else "", key="R17i|callers")
        # nothing else binds the name
        others = []
        for m2 in list(tales.classes.get("Context").methods.values()) + [m3 for C in mod.classes.values() for m3 in C.methods.values()]:
            if m2 is ev:
                continue
            for n in ast.walk(m2.node):
                if isinstance(n, ast.Assign) and any(isinstance(t, ast.Subscript) and norm(t).endswith("globals['attrs']") for t in n.targets):
                    others.append((m2, n))
                if isinstance(n, ast.Call) and isinstance(n.func, ast.Attribute) and n.func.attr == "addGlobal" and n.args \
                        and isinstance(n.args[0], ast.Constant) and n.args[0].value == "attrs":
                    others.append((m2, n))
        rep.add("R17i", "no other code binds the `attrs` global", not others, ctx.where(others[0][0], others[0][1]) if others else ctx.where(ev),
                f"{others[0][0].qualname} binds `attrs` itself: {norm(others[0][1])[:50]}" if others else "", key="R17i|single-binder")

    # ------------------------------------------------------------------ R17j
    rp = interp.methods.get(ihandlers.get("TAL_REPEAT", "cmdRepeat"))
    if rp is None:
        rep.fail("R17j", "cmdRepeat", detail="repeat handler not found")
    else:
        later = [op for op in TAL_ORDER[TAL_ORDER.index("TAL_REPEAT") + 1:] if op in ihandlers]
        need = set()
        for op in later:
            hm = interp.methods.get(ihandlers[op])
            if hm is not None:
                need |= {n.attr for n in ast.walk(hm.node) if isinstance(n, ast.Attribute) and isinstance(n.ctx, ast.Store) and dotted(n.value) == "self"}
        need -= {"programCounter"}
        facts = {"self.repeatVariable is not None": Const(True), "self.repeatVariable is None": Const(False)}
        wk = Walker(prog, ctx.resolver, assumptions=facts, sticky=set(facts), merge_loops=True,
                    inline=lambda fn, t, d: d < 3 and t.bound_cls is not None and fn.cls is not None and fn.cls.module is rp.module and not fn.name.startswith("cmd"))
        problems = set()
        n_re = 0
        for pth in wk.run(rp, interp, facts=dict(facts)):
            if pth.kind == "raise":
                continue
            # a pass that goes on into the body again (the loop is not finished): program counter moves to the next command
            finished = any(e.kind == "call" and isinstance(e.node.func, ast.Attribute) and e.node.func.attr in ("removeRepeat", "popLocals") for e in pth.events)
            if finished:
                continue
            n_re += 1
            est = set()
            for e in pth.events:
                if e.kind == "assign" and isinstance(e.target, str) and e.target.startswith("self.") and "[" not in e.target:
                    est.add(e.target[5:])
                if e.kind == "test" and e.extra is not None and isinstance(e.node, ast.Compare) and len(e.node.ops) == 1:
                    # `if self.x != saved: self.x = copy(saved)`: found equal = already re-established
                    l, r = norm(e.node.left), norm(e.node.comparators[0])
                    equal = (isinstance(e.node.ops[0], ast.Eq) and e.extra) or (isinstance(e.node.ops[0], ast.NotEq) and not e.extra)
                    if equal:
                        for side in (l, r):
                            if side.startswith("self.") and side.count(".") == 1:
                                est.add(side[5:])
            missing = sorted(need - est)
            if missing:
                problems.add(f"a later pass of the loop starts with {missing} as the previous pass left them (set by {[ihandlers[o] for o in later]}): "
                             "e.g. once one item produced content, an item whose content is `default` comes out empty")
        if not n_re:
            problems.add("no path re-enters the loop body")
        rep.add("R17j", f"{rp.qualname}: re-entry re-establishes {sorted(need)}", not problems, ctx.where(rp), "; ".join(sorted(problems)), key="R17j|repeat-reentry")

    # ------------------------------------------------------------------ R17g
    n_chain = 0
    for C in mod.classes.values():
        for f in C.methods.values():
            for n in ast.walk(f.node):
                if isinstance(n, ast.If):
                    chain = []
                    cur = n
                    while isinstance(cur, ast.If):
                        t = cur.test
                        if isinstance(t, ast.Compare) and len(t.ops) == 1 and isinstance(t.ops[0], ast.Eq) and isinstance(t.left, ast.Subscript) \
                                and isinstance(t.left.value, ast.Name) and isinstance(t.left.slice, ast.Constant) and isinstance(t.comparators[0], ast.Constant) \
                                and isinstance(t.comparators[0].value, str):
                            chain.append((t.left.value.id, t.left.slice.value, t.comparators[0].value, cur))
                        else:
                            break
                        cur = cur.orelse[0] if len(cur.orelse) == 1 and isinstance(cur.orelse[0], ast.If) else None
                    if len(chain) >= 2 and len({c[0] for c in chain}) == 1:
                        n_chain += 1
                        idx = {c[1] for c in chain}
                        rep.add("R17g", f"{f.qualname}: keywords {[c[2] for c in chain]} tested at {sorted(idx)}", len(idx) == 1, ctx.where(f, n),
                                "" if len(idx) == 1 else f"the alternatives of one keyword position are looked for at different positions {sorted(idx)} of {chain[0][0]}",
                                key=f"R17g|{f.qualname}|{chain[0][0]}")


# ---------------------------------------------------------------------------------------------- R17k
_DEFAULT = "<the default value>"
_RAISES = "<PathNotFound>"
# names of the model context: t true text, f empty text (exists, false), z zero, n None (exists, is nothing), d mapping, lst sequence;
# a, b and q are defined nowhere
_TALES_LOCALS = {"t": "x", "f": "", "z": 0, "n": None, "d": {"k": "v", "e": ""}, "lst": [10, 20], "u": "y"}
_TALES_CASES = [
    # paths and alternation: the first alternative that exists gives the value, whatever its truth
    ("t", "x"), ("path:t", "x"), ("a | t", "x"), ("a|t", "x"), ("a | b | t", "x"), ("a | f | t", ""), ("z | t", 0), ("t | u", "x"),
    ("a | b", _RAISES), ("a", _RAISES), ("a | nothing", None), ("nothing", None), ("n", None), ("a | default", _DEFAULT),
    ("a | string:lit", "lit"), ("a | exists: b", 0), ("a | not: b", 1), ("d/k", "v"), ("d/q | t", "x"), ("d/q", _RAISES), ("lst/1", 20),
    ("a | d/q | d/k", "v"),
    # a later step that the value reached so far does not have (a name on a sequence, a step on a number, a string or nothing) is a
    # missing path like any other - the next alternative is taken
    ("lst/name | t", "x"), ("lst/5 | t", "x"), ("z/part | u", "y"), ("t/part | u", "y"), ("n/part | t", "x"), ("lst/name", _RAISES),
    ("exists: lst/name", 0), ("exists: z/part", 0), ("not: lst/name", 1), ("string:${lst/name | t}", "x"),
    # exists: true when a path exists (whatever its value); later alternatives are whole expressions
    ("exists: t", 1), ("exists: a", 0), ("exists: f", 1), ("exists: n", 1), ("exists: a | t", 1), ("exists: a | b", 0),
    ("exists:a | b | t", 1), ("exists: a | exists: b", 0), ("exists: a | exists: b | exists: t", 1), ("exists: a | exists: t | exists: b", 1),
    ("exists: d/k", 1), ("exists: d/q", 0), ("exists: d/e", 1),
    # nocall: the same alternation, the value is handed on as it is
    ("nocall: t", "x"), ("nocall: a | t", "x"), ("nocall: a | b", _RAISES), ("nocall: a | f | t", ""), ("nocall: a | b | t", "x"),
    ("nocall: a | string:s", "s"),
    # not: missing, nothing, empty and zero are false; everything else is true
    ("not: a", 1), ("not: t", 0), ("not: f", 1), ("not: z", 1), ("not: n", 1), ("not: a | t", 0), ("not: a | b", 1), ("not: exists: a", 1),
    ("not: exists: t", 0), ("not: lst", 0), ("not: default", 0), ("not: not: t", 1),
    # string: literal text, $$, ${path expression}, $name
    ("string:hello", "hello"), ("string:a$$b", "a$b"), ("string:${t}", "x"), ("string:hi ${a | t}!", "hi x!"), ("string:$t and $t", "x and x"),
    ("string:[$t\tx]", "["), ("string:$t\nz", ""),  # (only a blank ends a $name: `t<TAB>x]` is a path that does not exist)
    ("string:[${n}]", "[]"), ("string:${z}", "0"), ("string:${d/k}${t}", "vx"), ("string:", ""),
]


def tales_evaluation_obligations(ctx, rep, rule, tales):
    """Context.evaluate, walked as an evaluator (exact loops, bounded recursion) over a constant context, for each
    representative expression: the value returned, or the PathNotFoundException that escapes, has to be the prescribed one."""
    from ..paths import Const, PathLimit, Walker

    prog = ctx.prog
    C = tales.classes.get("Context")
    ev = C.methods.get("evaluate") if C else None
    if ev is None or len(ev.params) < 2:
        rep.fail(rule, "Context.evaluate", detail="TALES evaluation entry point not found")
        return
    glob = {"nothing": None, "default": _DEFAULT}
    default_name = None
    for name, vals in tales.globals.items():
        if name.upper().startswith("DEFAULT") and len(vals) == 1 and isinstance(vals[0], ast.Constant) and isinstance(vals[0].value, str):
            default_name = name
            glob["default"] = vals[0].value
    problems, undecided, n = [], [], 0
    for expr, want in _TALES_CASES:
        if want is _DEFAULT:
            want = glob["default"]
        facts = {"self.locals": Const(dict(_TALES_LOCALS)), "self.globals": Const(dict(glob)), "self.true": Const(1), "self.false": Const(0),
                 "self.allowPythonPath": Const(0)}
        w = Walker(prog, ctx.resolver, exact_loops=True, unroll=8, inline=lambda fn, t, d: d < 24 and (fn.cls is C or fn.module is tales),
                   assumptions=dict(facts), max_paths=20000, max_depth=24, recursion=6)
        env = {ev.params[1]: Const(expr)}
        if len(ev.params) > 2:
            env[ev.params[2]] = Const(None)
        try:
            outs = set()
            for p in w.run(ev, C, env=env, facts=dict(facts)):
                if p.kind == "raise":
                    outs.add(("raise", str(p.value).split(".")[-1]))
                elif p.kind == "return" and p.value is not None and p.value.kind == "const":
                    outs.add(("value", repr(p.value.value)))
                elif p.kind == "fall":
                    outs.add(("value", repr(None)))
                else:
                    outs.add(("?", ""))
        except (PathLimit, RecursionError):
            outs = {("?", "")}
        if len(outs) != 1 or next(iter(outs))[0] == "?":
            undecided.append(expr)
            continue
        n += 1
        kind, got = next(iter(outs))
        if want is _RAISES:
            if not (kind == "raise" and got == "PathNotFoundException"):
                problems.append(f"`{expr}` gives {got} where no alternative exists (PathNotFoundException prescribed)")
        elif kind == "raise":
            problems.append(f"`{expr}` raises {got}, prescribed value {want!r}")
        elif got != repr(want) and not (want in (0, 1) and type(want) is int and got in (repr(bool(want)),)):
            problems.append(f"`{expr}` evaluates to {got}, prescribed value {want!r}")
    decided_enough = n >= len(_TALES_CASES) // 2
    rep.add(rule, f"{ev.qualname}: representative expressions have the prescribed value [{n} of {len(_TALES_CASES)} evaluated]",
            not problems and decided_enough, ctx.where(ev),
            "; ".join(problems[:4]) if problems else ("" if decided_enough else f"the walker could follow only {n} expressions (not: {undecided[:3]})"),
            key=f"{rule}|evaluate", nontrivial=decided_enough)
    rep.extra["tales_undecided"] = undecided



def slot_parameter_obligations(ctx, rep, rule, mod):
    """The slot fillers a metal:use-macro hands over belong to that one expansion: when the nested program has run and the caller's
    state is restored, the fillers are gone.  popProgram() restores whatever pushProgram() saved - the filler map included, if it is
    one of the saved registers - so the reset has to come after the restore (or the map must not be among the saved registers and be
    reset where the nested program starts)."""
    interp = mod.classes.get("TemplateInterpreter")
    pp = interp.methods.get("popProgram") if interp else None
    um = interp.methods.get("cmdUseMacro") if interp else None
    if pp is None or um is None:
        rep.fail(rule, "TemplateInterpreter.popProgram / cmdUseMacro", detail="interpreter methods not found")
        return
    reg = None
    for n in ast.walk(um.node):
        if isinstance(n, ast.Assign) and not isinstance(n.value, (ast.Dict, ast.Constant)):
            for t in n.targets:
                if isinstance(t, ast.Attribute) and dotted(t.value) == "self" and "slot" in t.attr.lower():
                    reg = t.attr
    if reg is None:
        rep.fail(rule, "cmdUseMacro", ctx.where(um), "the register that receives the slot fillers was not found")
        return
    restored = any(isinstance(x, ast.Attribute) and dotted(x.value) == "self" and x.attr == reg and isinstance(x.ctx, ast.Store) for x in ast.walk(pp.node))
    push = interp.methods.get("pushProgram")
    if not restored and push is not None:
        try:
            restored = reg in saved_names(ctx.prog, interp, push)  # saved as a record / through a helper and restored by reflection
        except Exception:
            pass
    problems, n = [], 0

    def is_reset(st):
        return isinstance(st, ast.Assign) and any(isinstance(t, ast.Attribute) and dotted(t.value) == "self" and t.attr == reg for t in st.targets) \
            and isinstance(st.value, (ast.Dict, ast.Call)) and not (isinstance(st.value, ast.Dict) and st.value.keys)

    if restored:
        from ..structure import parents

        for m in interp.methods.values():
            pm = None
            for c in ast.walk(m.node):
                if isinstance(c, ast.Call) and isinstance(c.func, ast.Attribute) and c.func.attr == "popProgram" and dotted(c.func.value) == "self":
                    n += 1
                    pm = pm or parents(m.node)
                    stmt = c
                    while stmt is not None and not isinstance(stmt, ast.stmt):
                        stmt = pm.get(stmt)
                    holder = pm.get(stmt)
                    after = []
                    for fld in ("body", "orelse", "finalbody"):
                        blk = getattr(holder, fld, None)
                        if isinstance(blk, list) and stmt in blk:
                            after = blk[blk.index(stmt) + 1:]
                    if not any(is_reset(a) for a in after):
                        problems.append(f"{m.qualname} (line {c.lineno}): popProgram() restores `self.{reg}` - the fillers of the use-macro that has just been "
                                        "expanded - and nothing clears it afterwards: the next template included from this program fills its slots with them")
    else:
        cs = interp.methods.get("cleanState")
        n += 1
        if cs is None or not any(is_reset(x) for x in ast.walk(cs.node) if isinstance(x, ast.stmt)):
            problems.append(f"`self.{reg}` is neither saved around a nested program nor cleared when one starts")
    rep.add(rule, f"TemplateInterpreter: slot fillers (`self.{reg}`) are consumed by the expansion they were given to [{n} restore sites]", not problems,
            ctx.where(pp), "; ".join(problems[:2]), key=f"{rule}|slots")



def fill_slot_owner_obligations(ctx, rep, rule, mod):
    """A metal:fill-slot belongs to the nearest enclosing metal:use-macro: the compiler's search through the open tags is evaluated
    with two use-macro elements open, one inside the other."""
    from ..paths import Const, PathLimit, Walker

    prog = ctx.prog
    comp = mod.classes.get("TemplateCompiler")
    f = prog.resolve_method(comp, "compileMetalFillSlot") if comp else None
    if f is None or len(f.params) < 2:
        rep.fail(rule, "TemplateCompiler.compileMetalFillSlot", detail="fill-slot compiler not found")
        return
    idx = None
    for n in ast.walk(f.node):
        if isinstance(n, ast.Assign) and isinstance(n.targets[0], ast.Subscript) and norm(n.targets[0].value) == "self.commandList" \
                and isinstance(n.targets[0].slice, ast.Name):
            idx = n.targets[0].slice.id
    if idx is None:
        rep.fail(rule, f.qualname, ctx.where(f), "the update of the use-macro command was not found")
        return
    OUTER, INNER = 3, 8
    # the open tags may be kept as records (a NamedTuple of the module) instead of plain triples
    mk = tuple
    for m_ in comp.methods.values():
        for c_ in ast.walk(m_.node):
            if isinstance(c_, ast.Call) and isinstance(c_.func, ast.Attribute) and c_.func.attr == "append" and norm(c_.func.value) == "self.tagStack" \
                    and c_.args and isinstance(c_.args[0], ast.Call) and isinstance(c_.args[0].func, ast.Name):
                R = mod.classes.get(c_.args[0].func.id)
                if R is not None and len(R.annotations) == 3 and any("NamedTuple" in (b if isinstance(b, str) else "") for b in prog.external_bases(R)):
                    import collections

                    rec = collections.namedtuple(R.name, list(R.annotations))
                    mk = lambda t, _rec=rec: _rec(*t)  # noqa: E731
    stacks = {"two nested use-macro elements, the slot inside the inner one": ([(("div", []), None, OUTER), (("p", []), None, None), (("span", []), None, INNER), (("b", []), None, None)], INNER),
              "one use-macro element": ([(("html", []), None, None), (("div", []), None, OUTER), (("b", []), None, None)], OUTER),
              "the slot directly on a child of the inner use-macro": ([(("div", []), None, OUTER), (("span", []), None, INNER)], INNER)}
    cmds = [(0, ())] * 12
    cmds[OUTER] = (15, ("outer", {}, 20))
    cmds[INNER] = (15, ("inner", {}, 21))
    problems, n = [], 0
    for label, (stack, want) in stacks.items():
        facts = {"self.tagStack": Const([mk(t) for t in stack]), "self.commandList": Const(list(cmds)), "self.endTagSymbol": Const(9)}

        def cv(call, target, st):
            fn = call.func
            if isinstance(fn, ast.Attribute) and fn.attr in ("debug", "error", "info", "warn"):
                return Const(None)
            if (dotted(fn) or "").endswith("SubTemplate"):
                return Const("<slot>")
            return None

        w = Walker(prog, ctx.resolver, call_value=cv, exact_loops=True, unroll=8, max_paths=2000, assumptions=dict(facts),
                   inline=lambda fn, t, d: d < 3 and (t.bound_cls is not None or (fn.cls is None and fn.module.name.startswith("simpletal")))
                   and fn.name not in ("tagAsText",))
        outs = set()
        try:
            for p in w.run(f, comp, env={f.params[1]: Const("title")}, facts=dict(facts)):
                if p.kind == "raise":
                    outs.add("raises " + str(p.value))
                else:
                    v = p.state.env.get(idx)
                    outs.add(v.value if v is not None and v.kind == "const" else "?")
        except (PathLimit, Exception):
            outs = {"?"}
        if len(outs) != 1 or "?" in outs:
            continue
        n += 1
        got = next(iter(outs))
        if got != want:
            problems.append(f"with {label}, the filler goes to {'the outer' if got == OUTER else got!r} use-macro instead of {'the inner' if want == INNER else 'that'} one")
    rep.add(rule, f"{f.qualname}: a fill-slot belongs to the nearest enclosing use-macro [{n} of {len(stacks)} evaluated]", not problems and n >= 2, ctx.where(f),
            "; ".join(problems[:2]) if problems else ("" if n >= 2 else "the walker could not follow the search through the open tags"),
            key=f"{rule}|fillslot", nontrivial=n > 0)



def intermediate_call_obligations(ctx, rep, rule, tales):
    """nocall: / exists: stop the *final* value of a path from being called; every element on the way is resolved (a callable or a
    context variable in the middle of a path is called to get at the next element).  In the path walk the no-call switch is therefore
    read only after the loop over the elements - never inside it, and it is not handed to what the loop calls."""
    C = tales.classes.get("Context")
    f = C.methods.get("traversePath") if C else None
    if f is None:
        rep.fail(rule, "Context.traversePath", detail="path walk not found")
        return
    sw = [p for p in f.params if "call" in p.lower()]
    loops = [n for n in ast.walk(f.node) if isinstance(n, (ast.For, ast.While))]
    if not sw or not loops:
        rep.fail(rule, f.qualname, ctx.where(f), "no-call switch or element loop not found")
        return
    bad = []
    for lp in loops:
        for b in lp.body:
            for x in ast.walk(b):
                if isinstance(x, ast.Name) and x.id in sw and isinstance(x.ctx, ast.Load):
                    bad.append(x)
    rep.add(rule, f"{f.qualname}: `{sw[0]}` governs the final value only", not bad, ctx.where(f, bad[0]) if bad else ctx.where(f),
            "" if not bad else f"`{sw[0]}` is used inside the loop over the path elements: with nocall: / exists: a callable in the middle of a path "
            "(handler/getentry/..., a context variable) is then not resolved, the next element is looked up on the function object and the path 'does not exist'",
            key=f"{rule}|traversePath")


# ---------------------------------------------------------------------------------------------- R17l
def command_evaluation_obligations(ctx, rep, rule, mod, tales):
    from ..paths import Const, PathLimit, Walker

    prog = ctx.prog
    interp = mod.classes.get("TemplateInterpreter")
    if interp is None:
        rep.fail(rule, "TemplateInterpreter", detail="interpreter not found")
        return
    default = _DEFAULT
    for name, vals in tales.globals.items():
        if name.upper().startswith("DEFAULT") and len(vals) == 1 and isinstance(vals[0], ast.Constant) and isinstance(vals[0].value, str):
            default = vals[0].value
    VALUES = {"e:text": "x", "e:zero": 0, "e:none": None, "e:default": default, "e:empty": "", "e:list0": [], "e:list": [1], "e:false": False}
    END, PC = 42, 7

    def run(hname, args):
        h = prog.resolve_method(interp, hname)
        if h is None or len(h.params) < 3:
            return None, None
        holder = {}

        def cv(call, target, st):
            f = call.func
            if isinstance(f, ast.Attribute) and f.attr == "evaluate" and "context" in norm(f.value):
                a = holder["w"].cur_args or []
                if a and a[0].kind == "const" and a[0].value in VALUES:
                    v = VALUES[a[0].value]
                    return Const(list(v) if isinstance(v, list) else v)
                return None
            return None

        facts = {"self.symbolTable": Const({"SYM": END}), "self.programCounter": Const(PC), "self.outputTag": Const(1), "self.tagContent": Const(None),
                 "self.movePCForward": Const(None), "self.originalAttributes": Const({}),
                 "self.currentAttributes": Const([("href", "old"), ("title", "t"), ("class", "c"), ("id", "i")])}
        w = Walker(prog, ctx.resolver, call_value=cv, exact_loops=True, unroll=8, max_paths=20000,
                   inline=lambda fn, t, d: d < 3 and t.bound_cls is not None and fn.cls is not None and fn.cls.module is mod)
        holder["w"] = w
        try:
            paths = [p for p in w.run(h, interp, env={h.params[1]: Const(None), h.params[2]: Const(args)}, facts=dict(facts))]
        except (PathLimit, RecursionError):
            return h, None
        outs = set()
        for p in paths:
            if p.kind == "raise":
                outs.add(("raises", str(p.value)))
                continue
            regs = []
            for r_ in ("programCounter", "outputTag", "tagContent", "movePCForward", "currentAttributes"):
                v = p.state.facts.get("self." + r_)
                regs.append(repr(v.value) if v is not None and v.kind == "const" else "?")
            outs.add(tuple(regs))
        if len(outs) != 1:
            return h, None
        return h, next(iter(outs))

    cases = []
    for r in (0, 1):
        kind = "replace" if r else "content"
        for e in ("e:text", "e:zero", "e:list0", "e:false"):
            cases.append(("cmdContent", (r, 0, e, "SYM"), f"tal:{kind} of {VALUES[e]!r}",
                          {"programCounter": PC + 1, "outputTag": 0 if r else 1, "tagContent": (0, VALUES[e]), "movePCForward": END}))
        cases.append(("cmdContent", (r, 0, "e:none", "SYM"), f"tal:{kind} of nothing",
                      {"programCounter": PC + 1, "outputTag": 0 if r else 1, "tagContent": None, "movePCForward": END}))
        cases.append(("cmdContent", (r, 0, "e:default", "SYM"), f"tal:{kind} of default",
                      {"programCounter": PC + 1, "outputTag": 1, "tagContent": None, "movePCForward": None}))
    cases.append(("cmdContent", (0, 1, "e:text", "SYM"), "tal:content structure", {"tagContent": (1, "x"), "movePCForward": END}))
    for e, truthy in (("e:text", True), ("e:list", True), ("e:default", True), ("e:none", False), ("e:zero", False), ("e:empty", False),
                      ("e:list0", False), ("e:false", False)):
        cases.append(("cmdCondition", (e, "SYM"), f"tal:condition on {VALUES[e]!r}",
                      {"programCounter": PC + 1, "outputTag": 1} if truthy else {"programCounter": END, "outputTag": 0, "tagContent": None}))
        if e != "e:default":
            cases.append(("cmdOmitTag", e, f"tal:omit-tag on {VALUES[e]!r}", {"programCounter": PC + 1, "outputTag": 0 if truthy else 1}))
    cases.append(("cmdAttributes", [("href", "e:text"), ("title", "e:none"), ("class", "e:default"), ("n", "e:zero")],
                  "tal:attributes with a text, nothing, default and 0",
                  {"programCounter": PC + 1, "currentAttributes": {"href": "x", "n": "0", "class": "c", "id": "i"}}))
    per = {}
    for hname, args, label, want in cases:
        h, got = run(hname, args)
        slot = per.setdefault(hname, {"h": h, "n": 0, "problems": [], "undecided": 0})
        if h is None:
            continue
        if got is None:
            slot["undecided"] += 1
            continue
        if got[0] == "raises":
            slot["n"] += 1
            slot["problems"].append(f"{label}: raises {got[1]}")
            continue
        regs = dict(zip(("programCounter", "outputTag", "tagContent", "movePCForward", "currentAttributes"), got))
        if any(regs[k] == "?" for k in want):
            slot["undecided"] += 1
            continue
        slot["n"] += 1
        for k, v in want.items():
            have = regs[k]
            if k == "currentAttributes":
                try:
                    same = dict(ast.literal_eval(have)) == v
                except Exception:
                    same = False
            else:
                same = have == repr(v)
            if not same:
                slot["problems"].append(f"{label}: {k} is {have}, prescribed {v!r}")
    for hname, slot in per.items():
        h = slot["h"]
        if h is None:
            rep.fail(rule, f"TemplateInterpreter.{hname}", detail="command handler not found")
            continue
        total = slot["n"] + slot["undecided"]
        ok_n = slot["n"] * 2 >= total
        rep.add(rule, f"{h.qualname}: registers after the command, by value of the expression [{slot['n']} of {total} cases evaluated]",
                not slot["problems"] and ok_n, ctx.where(h),
                "; ".join(slot["problems"][:3]) if slot["problems"] else ("" if ok_n else "the walker could not follow the handler on most cases"),
                key=f"{rule}|{hname}", nontrivial=ok_n)


# ---------------------------------------------------------------------------------------------- R17m
def define_evaluation_obligations(ctx, rep, rule, mod):
    from ..paths import Const, PathLimit, Walker

    prog = ctx.prog
    comp = mod.classes.get("TemplateCompiler")
    interp = mod.classes.get("TemplateInterpreter")
    cd = prog.resolve_method(comp, "compileCmdDefine") if comp else None
    hd = prog.resolve_method(interp, "cmdDefine") if interp else None
    if cd is None or hd is None or len(cd.params) < 2 or len(hd.params) < 3:
        rep.fail(rule, "compileCmdDefine / cmdDefine", detail="tal:define compiler or handler not found")
        return
    # ---- the compiler's reading of the attribute
    cases = [("a string:A", [(1, "a", "string:A")]),
             ("global g string:G; a string:A", [(0, "g", "string:G"), (1, "a", "string:A")]),
             ("a string:A; global g a", [(1, "a", "string:A"), (0, "g", "a")]),
             ("local l x/y; global g l; m l", [(1, "l", "x/y"), (0, "g", "l"), (1, "m", "l")]),
             ("global g string:with space inside", [(0, "g", "string:with space inside")]),
             ("a string:one;;two; b a", [(1, "a", "string:one;two"), (1, "b", "a")]),
             ("global one string:1; global two string:2", [(0, "one", "string:1"), (0, "two", "string:2")])]
    problems, n = [], 0
    for text, want in cases:
        w = Walker(prog, ctx.resolver, exact_loops=True, unroll=8, max_paths=20000, inline=lambda fn, t, d: d < 3 and (t.bound_cls is not None or (fn.cls is None and fn.module.name.startswith("simpletal"))) and fn.name != "tagAsText")
        outs = set()
        try:
            for p in w.run(cd, comp, env={cd.params[1]: Const(text)}):
                if p.kind == "raise":
                    outs.add("raises " + str(p.value))
                elif p.kind == "return" and p.value is not None and p.value.kind == "const" and isinstance(p.value.value, tuple) and len(p.value.value) == 2:
                    outs.add(repr([tuple(x) for x in p.value.value[1]]))
                elif p.kind == "return" and p.value is not None and p.value.kind == "record" and len(p.value.value[1]) == 2 \
                        and p.value.value[1][1].kind == "const":
                    outs.add(repr([tuple(x) for x in p.value.value[1][1].value]))
                else:
                    outs.add("?")
        except (PathLimit, RecursionError):
            outs = {"?"}
        if len(outs) != 1 or "?" in outs:
            continue
        n += 1
        got = next(iter(outs))
        if got != repr(want):
            problems.append(f"tal:define=\"{text}\" is compiled to {got}, prescribed {want!r} (scope flag, name, expression per statement)")
    ok_n = n * 2 >= len(cases)
    rep.add(rule, f"{cd.qualname}: statements of a define attribute [{n} of {len(cases)} evaluated]", not problems and ok_n, ctx.where(cd),
            "; ".join(problems[:2]) if problems else ("" if ok_n else "the walker could not follow the parser"), key=f"{rule}|compile", nontrivial=ok_n)

    # ---- the interpreter: order of evaluation and binding
    args = [(1, "t", "E1"), (0, "g", "E2"), (1, "u", "E3"), (0, "h", "E4")]
    want_trace = (("eval", "E1"), ("pushLocals",), ("setLocal", "t", "<E1>"), ("eval", "E2"), ("addGlobal", "g", "<E2>"),
                  ("eval", "E3"), ("setLocal", "u", "<E3>"), ("eval", "E4"), ("addGlobal", "h", "<E4>"))
    holder = {}

    def cv(call, target, st):
        f = call.func
        if not (isinstance(f, ast.Attribute) and "context" in norm(f.value)):
            return None
        a = holder["w"].cur_args or []
        tr = st.facts.get("__trace")
        tr = tr.value if tr is not None and tr.kind == "const" else ()
        if f.attr == "evaluate" and a and a[0].kind == "const":
            st.facts["__trace"] = Const(tr + (("eval", a[0].value),))
            return Const(f"<{a[0].value}>")
        if f.attr in ("setLocal", "addGlobal", "setGlobal") and len(a) >= 2:
            st.facts["__trace"] = Const(tr + ((f.attr, a[0].value if a[0].kind == "const" else "?", a[1].value if a[1].kind == "const" else "?"),))
            return Const(None)
        if f.attr in ("pushLocals", "popLocals"):
            st.facts["__trace"] = Const(tr + ((f.attr,),))
            return Const(None)
        return None

    facts = {"self.programCounter": Const(7), "self.originalAttributes": Const({}), "self.localVarsDefined": Const(0)}
    w = Walker(prog, ctx.resolver, call_value=cv, exact_loops=True, unroll=8, max_paths=20000,
               inline=lambda fn, t, d: d < 2 and t.bound_cls is not None and fn.cls is not None and fn.cls.module is mod)
    holder["w"] = w
    outs = set()
    try:
        for p in w.run(hd, interp, env={hd.params[1]: Const(None), hd.params[2]: Const(args)}, facts=dict(facts)):
            if p.kind == "raise":
                outs.add(("raises", str(p.value)))
                continue
            tr = p.state.facts.get("__trace")
            lv = p.state.facts.get("self.localVarsDefined")
            pc = p.state.facts.get("self.programCounter")
            outs.add((tr.value if tr is not None and tr.kind == "const" else None,
                      truth(lv) if lv is not None else None, pc.value if pc is not None and pc.kind == "const" else None))
    except (PathLimit, RecursionError):
        outs = set()
    problems = []
    decided = len(outs) == 1 and next(iter(outs))[0] not in (None, "raises")
    if decided:
        tr, lv, pc = next(iter(outs))
        if tr != want_trace:
            problems.append(f"for the statements {args!r} the handler does {list(tr)!r}; prescribed: evaluate and bind each statement in source order, "
                            f"one pushLocals before the first local ({list(want_trace)!r})")
        if lv is not True:
            problems.append("localVarsDefined is not set although locals were defined (the scope is never popped)")
        if pc != 8:
            problems.append(f"the program counter is {pc!r} after the command (7 before)")
    rep.add(rule, f"{hd.qualname}: statements take effect in source order, one local scope", decided and not problems, ctx.where(hd),
            "; ".join(problems[:2]) if problems else ("" if decided else "the walker could not follow the handler"), key=f"{rule}|handler", nontrivial=decided)
