"""C01  Nothing outside the document root is ever read, listed, run or revealed.

Structural clauses decided (non-interference of response bytes is not):
R01a  accept language of the selector filter contains no climbing form (factor-closed)
R01b  constant / config / listdir suffixes appended to accepted selectors cannot form one
R01c  the gate: filter AND test, short-circuit; only accepted handlers are returned
R01d  nothing but stat happens before the gate (constructors, filter, multiplexer)
R01e  a handler that relaxes the filter never touches the file system
R01f  who may touch the file system and on which path shapes (root + accepted selector)
R01g  percent-decoding only in protocols and only before handler selection
R01h  selectors taken from served content are filtered before any file-system use
R01i  real-file-only handlers test the VFS kind (shared with C16)
R01j  nothing request- or content-derived is evaluated
"""

from __future__ import annotations

import ast
from typing import Dict, List

from ..effects import Effects, PRIMITIVES, direct_effects
from ..loader import dotted, norm
from ..paths import FALSY, Const, Walker, truth
from ..shape import OBJ, TOPV, V, ShapeDomain, ShapeEngine, shape_problems
from ..strlang import accepts, climb_witnesses, path_constraints

FS_KINDS = ("FS_STAT", "FS_LIST", "FS_OPEN_R", "FS_OPEN_W", "FS_UNLINK", "EXEC", "DESERIALISE")
HEAVY = ("FS_LIST", "FS_OPEN_R", "FS_OPEN_W", "FS_UNLINK", "EXEC", "EVAL", "DESERIALISE")
PROTOCOL_CALLED = ["isrequestsecure", "canhandlerequest", "isrequestforme", "gethandler", "getentry", "prepare",
                   "isdir", "write", "getdirlist", "getselector", "getfspath"]
ENTRY_METHODS = ["canhandlerequest", "gethandler", "getentry", "prepare", "isdir", "write", "getdirlist",
                 "getselector", "getfspath"]
DECODERS = {"urllib.parse.unquote", "urllib.parse.unquote_plus", "urllib.parse.unquote_to_bytes",
            "codecs.decode", "codecs.escape_decode", "bytes.fromhex", "binascii.unhexlify", "binascii.a2b_hex",
            "base64.b64decode", "urllib.request.url2pathname", "html.unescape"}


def filter_paths(ctx, cls):
    """Accepting paths of the class's resolved isrequestsecure -> list of constraint lists."""
    f = ctx.prog.resolve_method(cls, "isrequestsecure")
    if f is None:
        return None, []
    w = Walker(ctx.prog, ctx.resolver, fork_returns=True, symbols={"self.selector": "SEL"},
               inline=lambda fn, t, d: t.bound_cls is not None or fn.cls is None)
    out = []
    for p in w.run(f, cls):
        if p.kind == "raise":
            continue
        if truth(p.value) is False:
            continue
        out.append(path_constraints(p, {"self.selector"}))
    return f, out


def base_filter(ctx):
    base = ctx.cls("handlers.base.BaseHandler")
    if base is None:
        return None, None, []
    f, acc = filter_paths(ctx, base)
    return base, f, acc


def union_constraints(acc_paths):
    """The weakest accepting path decides; for representative generation use the
    constraints common to all accepting paths."""
    if not acc_paths:
        return []
    common = None
    for cs in acc_paths:
        keys = {(c.kind, c.value) for c in cs if c.kind in ("nofactor", "nomatch")}
        common = keys if common is None else (common & keys)
    from ..strlang import Constraint

    return [Constraint(k, v, repr(v)) for k, v in sorted(common or [])]


def config_values(ctx) -> Dict[str, List[str]]:
    """Shipped values of the configuration options that end up in file names."""
    out: Dict[str, List[str]] = {}
    for key in ("handlers.dir.DirHandler.cachefile",):
        sec, _, opt = key.rpartition(".")
        vals = sorted(set(ctx.config.get(sec, opt).values()))
        if vals:
            out[key] = vals
    ea = []
    for rel, raw in ctx.config.get("GopherEntry", "eaexts").items():
        try:
            d = ast.literal_eval(raw)
            ea.extend(list(d.keys()) + list(d.values()))
        except Exception:
            pass
    if ea:
        out["GopherEntry.eaexts"] = sorted(set(map(str, ea)))
    return out


def check(ctx, rep):
    prog = ctx.prog
    eff = Effects(prog, ctx.resolver)
    rep.assume("POSIX path semantics: only a '..' component climbs; listdir never returns '.' or '..' and names contain no '/'")
    rep.assume("content trees contain no symlink leaving the root (excluded by the property)")
    rep.assume("executable content (.pyg modules, CGI scripts, TAL templates) is code installed by the administrator; paths it computes are outside the rules")

    base, filt_func, acc = base_filter(ctx)
    handlers = ctx.handler_classes()
    rep.rule("R01a", "every accepting path of BaseHandler.isrequestsecure rejects each minimal climbing word "
             "(.. component delimited by / or \\ or the ends, //, \\\\\\\\, NUL); accept language is factor-closed", floor=12)
    rep.rule("R01c", "gate: isrequestforme = filter AND test (short-circuit), getHandler returns only accepted handlers, "
             "fall-through raises FileNotFound; gethandler overrides return self or a fresh getHandler()", floor=10)
    rep.rule("R01d", "before the gate only stat: handler constructors, the filter and the multiplexer prologue have no open/list/exec effect", floor=10)
    rep.rule("R01e", "handlers relaxing the filter have no file-system/exec effect in any method a protocol calls", floor=1)
    rep.rule("R01m", "a selector that a handler hands back to handler selection starts with '/': the file-system view joins root and selector "
             "as text, so `<root>` + `x` names a neighbour of the root - and the selector filter has nothing against `x`", floor=2)
    rep.rule("R01n", "= R19d: start-up rewrites the document root to '/' only on paths on which chroot has succeeded - a tolerated chroot failure "
             "followed by the rewrite would make the whole file system the document root", floor=1)
    from .c19 import confined_root_obligations
    confined_root_obligations(ctx, rep, "R01n")
    rep.rule("R01f", "every file-system/exec call site in handlers/protocols/gopherentry is either inside VFS_Real on root+selector, "
             "or acts on a path of shape root + accepted selector + safe suffix (R01b, R01h)", floor=20)
    rep.rule("R01g", "percent-decoding appears only in protocol handle() before handler selection; none in handlers/", floor=4)
    rep.rule("R01i", "handlers that hand getfspath() to real-file APIs reject non-real VFS objects", floor=3)
    rep.rule("R01l", "what the stat on the unfiltered selector found reaches only the handlers (no existence oracle in the multiplexer's own reply)", floor=1)
    rep.rule("R01k", "a NUL byte is answered like any missing file: the stat on the unfiltered selector also catches ValueError", floor=1)
    rep.rule("R01j", "arguments of eval/exec/compile/__import__ have configuration provenance only", floor=5)

    if base is None or filt_func is None:
        rep.fail("R01a", "BaseHandler.isrequestsecure", detail="the selector security filter was not found")
        return
    rep.analysed(filt_func.qualname)

    # ------------------------------------------------------------------ R01a
    wit = climb_witnesses()
    if not acc:
        rep.fail("R01a", "accepting paths", ctx.where(filt_func), "the filter has no accepting path (rejects everything?)")
    for group, words in wit.items():
        for wd in words:
            bad = [cs for cs in acc if accepts(cs, wd)]
            rep.add("R01a", f"rejects {wd!r} ({group})", not bad, ctx.where(filt_func),
                    (f"an accepting path of the filter lets {wd!r} through; its constraints: {bad[0]}" if bad else "contains a forbidden factor"),
                    key=f"R01a|{group}|{wd!r}")
    common = union_constraints(acc)
    cfgvals = config_values(ctx)

    # ------------------------------------------------------------------ R01c
    relaxed = []
    for C in handlers:
        forme = prog.resolve_method(C, "isrequestforme")
        sec = prog.resolve_method(C, "isrequestsecure")
        if forme is None or sec is None:
            rep.fail("R01c", f"{C.qualname}: gate methods", detail="isrequestforme/isrequestsecure missing")
            continue
        w = Walker(prog, ctx.resolver, assumptions={"self.isrequestsecure()": Const(False)})
        problems = []
        for p in w.run(forme, C):
            if p.kind == "return" and truth(p.value) is not False:
                problems.append("can accept although the security filter said no")
            for ev in p.calls():
                if ev.target.kind == "repo" and any(f.name == "canhandlerequest" for f in ev.target.funcs):
                    problems.append("runs canhandlerequest() although the security filter said no")
        # the filter must actually be consulted
        w2 = Walker(prog, ctx.resolver)
        consulted = all(any(ev.kind == "test" and norm(ev.node) == "self.isrequestsecure()" for ev in p.events)
                        or any(ev.kind == "call" and ev.target.kind == "repo" and any(f.name == "isrequestsecure" for f in ev.target.funcs) for ev in p.events)
                        for p in w2.run(forme, C) if p.kind == "return" and truth(p.value) is not False)
        if not consulted:
            problems.append("can accept without consulting isrequestsecure()")
        rep.add("R01c", f"{C.qualname}.isrequestforme", not problems, ctx.where(forme),
                "; ".join(sorted(set(problems))) or f"resolved to {forme.qualname}",
                key=f"R01c|{forme.qualname}|" + ";".join(sorted(set(problems))))
        if sec.cls is not base:
            # an overriding filter: equally strong, or the class is relaxed (R01e)
            _, acc_c = filter_paths(ctx, C)
            weaker = [wd for ws in wit.values() for wd in ws if any(accepts(cs, wd) for cs in acc_c)]
            if weaker or not acc_c:
                relaxed.append((C, sec, weaker))

    gh = ctx.func("handlers.HandlerMultiplexer.getHandler")
    if gh is None:
        rep.fail("R01c", "HandlerMultiplexer.getHandler", detail="handler multiplexer not found")
    else:
        rep.analysed(gh.qualname)
        # the search may live in a helper of the multiplexer's module (a loop, or a generator of candidates)
        w = Walker(prog, ctx.resolver, inline=lambda fn, t, d: d < 3 and fn.cls is None and fn.module is gh.module and fn is not gh
                   and fn.name != "init_default_handlers")
        problems = []
        n_ret = 0
        for p in w.run(gh):
            if p.kind == "return":
                n_ret += 1
                ret = [e for e in p.events if e.kind == "return"][-1]
                val = ret.node.value
                recv = None
                ghc = [e for e in p.events if e.kind == "call" and isinstance(e.node.func, ast.Attribute) and e.node.func.attr == "gethandler"]
                inner_rets = [e for e in p.events if e.kind == "return" and e.node.value is not None]
                if isinstance(val, ast.Call) and isinstance(val.func, ast.Attribute) and val.func.attr == "gethandler":
                    recv = norm(val.func.value)
                elif ghc:
                    recv = norm(ghc[-1].node.func.value)
                elif inner_rets and isinstance(inner_rets[0].node.value, ast.Name):
                    recv = norm(inner_rets[0].node.value)
                elif val is not None:
                    recv = norm(val)
                # the handler may have been handed on under another name (chosen = htry; a helper returning its candidate)
                aliases = {recv}
                for ev in reversed(p.events):
                    if ev.kind == "assign" and isinstance(ev.node, ast.Assign) and isinstance(ev.target, str) and ev.target in aliases:
                        if isinstance(ev.node.value, ast.Name):
                            aliases.add(ev.node.value.id)
                        elif isinstance(ev.node.value, ast.Call):
                            aliases.update(norm(r.node.value) for r in inner_rets if isinstance(r.node.value, ast.Name))
                    elif ev.kind == "return" and isinstance(ev.node.value, ast.Name) and (isinstance(val, ast.Call) or recv in aliases) \
                            and isinstance(val, ast.Call) and not (isinstance(val.func, ast.Attribute) and val.func.attr == "gethandler"):
                        aliases.add(ev.node.value.id)
                ok = any(ev.kind == "test" and ev.extra is True and norm(ev.node) in {f"{a}.isrequestforme()" for a in aliases} for ev in p.events)
                if not ok:
                    problems.append(f"`{norm(ret.node)}` is reachable without {recv}.isrequestforme() having accepted")
            elif p.kind == "fall":
                problems.append("can fall off the end without raising FileNotFound (returns None)")
            elif p.kind == "raise" and str(p.value).split(".")[-1] != "FileNotFound":
                problems.append(f"raises {p.value} instead of FileNotFound")
        if n_ret == 0:
            problems.append("never returns a handler")
        rep.add("R01c", "getHandler returns only accepted handlers", not problems, ctx.where(gh),
                "; ".join(sorted(set(problems))), key="R01c|getHandler|" + ";".join(sorted(set(problems))))
        # list iterated in order is C02/C03 business; here: the loop variable is constructed with the same selector
    for C in handlers:
        g = prog.resolve_method(C, "gethandler")
        if g is None or g.cls is base:
            continue
        problems = []
        for n in ast.walk(g.node):
            if isinstance(n, ast.Return) and n.value is not None:
                if norm(n.value) == "self":
                    continue
                if isinstance(n.value, ast.Call):
                    t = ctx.resolver.resolve(n.value, g, C)
                    if t.kind == "repo" and gh is not None and gh in t.funcs:
                        continue
                problems.append(f"returns `{norm(n.value)}` which did not pass the gate")
        rep.add("R01c", f"{g.qualname} re-enters the gate", not problems, ctx.where(g), "; ".join(problems),
                key=f"R01c|{g.qualname}|gethandler")

    # ------------------------------------------------------------------ R01d
    for C in handlers:
        for mname in ("__init__", "isrequestsecure"):
            m = prog.resolve_method(C, mname)
            if m is None:
                continue
            summ = eff.summary(m, C)
            heavy = sorted(e for e in summ if e in HEAVY)
            detail = ""
            if heavy:
                sites = [s for s in eff.sites(m, C) if s.effect in HEAVY]
                detail = "; ".join(f"{s.effect} via {norm(s.call)[:60]} in {s.func.qualname}" for s in sites[:3])
            rep.add("R01d", f"{C.qualname}.{mname} effects", not heavy, ctx.where(m),
                    f"runs before the security filter but may {heavy}: {detail}" if heavy else f"effects: {sorted(e for e in summ if e in FS_KINDS) or 'none'}",
                    key=f"R01d|{C.qualname}.{mname}|{heavy}", nontrivial=bool(summ))
    if gh is not None:
        heavy = sorted({s.effect for s in eff.direct(gh) if s.effect in HEAVY})
        rep.add("R01d", "getHandler prologue effects", not heavy, ctx.where(gh),
                f"getHandler itself performs {heavy} on an unfiltered selector" if heavy else "stat only",
                key=f"R01d|getHandler|{heavy}")

    # ------------------------------------------------------------------ R01e
    for C, sec, weaker in relaxed:
        bad = []
        for mname in PROTOCOL_CALLED:
            m = prog.resolve_method(C, mname)
            if m is None:
                continue
            for s in eff.sites(m, C):
                if s.effect in FS_KINDS or s.effect == "EVAL":
                    bad.append(f"{s.effect} via {norm(s.call)[:60]} in {s.func.qualname} (from {mname})")
        rep.add("R01e", f"{C.qualname} (filter lets {weaker[:3]} through) is file-system free", not bad, ctx.where(sec),
                "; ".join(sorted(set(bad))[:4]), key=f"R01e|{C.qualname}")
    if not relaxed:
        rep.ok("R01e", "no handler relaxes the filter", nontrivial=False)

    # ------------------------------------------------------- R01f / R01b / R01h
    dom = ShapeDomain(prog, eff, base, relaxed=[c for c, _, _ in relaxed])
    eng = ShapeEngine(prog, ctx.resolver, dom)
    ge = ctx.cls("gopherentry.GopherEntry")
    if ge is not None:
        eng.field_classes = [ge]
    for C in handlers:
        for mname in ENTRY_METHODS:
            m = prog.resolve_method(C, mname)
            if m is None:
                continue
            eng.eval_func(m, C, {})
    rep.analysed(*sorted(f.qualname for f in eng.visited_funcs))
    visited_sites = set()
    for (fq, ctext), rec in sorted(dom.sites.items()):
        visited_sites.add((rec["func"], id(rec["call"])))
        mode = rec["mode"]
        problems = []
        if mode == "gate":
            slash_gate_obligation(ctx, rep, "R01m", fq, ctext, rec)
            continue
        if mode == "ctor":
            # handler constructed directly (not through getHandler): selector must have an accepted shape
            for alt in sorted(rec["values"]):
                problems.extend(shape_problems(alt, "vfs", common, cfgvals))
        elif rec["effect"] == "EXEC" and all(a and a[0][0] == "cfg" for a in rec["values"] if a):
            problems = []  # a program named in the configuration
        else:
            for alt in sorted(rec["values"]):
                problems.extend(shape_problems(alt, "fs" if mode == "fs" else "vfs", common, cfgvals))
        problems = sorted(set(problems))
        rep.add("R01f", f"{fq}: {ctext[:80]}", not problems, ctx.where(rec["func"], rec["call"]),
                (f"{rec['effect']} on a path that may leave the root: " + "; ".join(problems[:3]) +
                 f" [reached via {sorted(rec['chains'])[0]}]") if problems else
                f"{rec['effect']} on {sorted(rec['values'])[:3]}",
                key=f"R01f|{fq}|{ctext}")
    # VFS_Real itself: primitives on root + selector
    vfs = ctx.cls("handlers.base.VFS_Real")
    if vfs is None:
        rep.fail("R01f", "VFS_Real", detail="real file-system layer not found")
    else:
        dom2 = ShapeDomain(prog, eff, base)
        rootf = vfs.methods.get("getrootpath")
        eng2 = ShapeEngine(prog, ctx.resolver, dom2)
        if rootf is not None:
            class _NoIntercept(ShapeDomain):
                def call_repo(self, target, call, recv, args, kws, e, fr):
                    return None
            d3 = _NoIntercept(prog, eff, base)
            e3 = ShapeEngine(prog, ctx.resolver, d3)
            rv = e3.eval_func(rootf, vfs, {})
            strs = [a for a in rv if not (len(a) == 1 and a[0][0] == "obj")]
            ok = bool(strs) and all(a == (("cfg", "pygopherd.root"),) for a in strs)
            rep.add("R01f", "VFS_Real.getrootpath is the configured root", ok, ctx.where(rootf),
                    f"returns {sorted(rv)}", key="R01f|getrootpath")
        for m in vfs.methods.values():
            sites = [s for s in eff.direct(m) if s.effect.startswith("FS_")]
            if not sites:
                continue
            # evaluate with a symbolic selector
            class _Capture(ShapeDomain):
                def on_call(self, target, call, recv, args, kws, e, fr):
                    effs = [x for x in direct_effects(call, target) if x.startswith("FS_")]
                    if effs and args:
                        self.sites.setdefault((fr.func.qualname, norm(call)), {"values": set(), "call": call, "func": fr.func})["values"] |= set(args[0])
            dc = _Capture(prog, eff, base)
            ec = ShapeEngine(prog, ctx.resolver, dc)
            params = {p: V(("param", p)) for p in m.params if p != "self"}
            ec.eval_func(m, vfs, params)
            for (fq, ctext), rec in dc.sites.items():
                visited_sites.add((rec["func"], id(rec["call"])))
                problems = []
                for alt in rec["values"]:
                    pieces = [p for p in alt if not (p[0] == "c" and set(p[1]) <= {"/"})]
                    if len(pieces) == 2 and pieces[0] == ("root",) and pieces[1][0] == "param" and pieces[1][1] in ("selector", "name"):
                        continue
                    problems.append(f"path is {alt}, not root + selector")
                rep.add("R01f", f"{fq}: {ctext[:70]}", not problems, ctx.where(rec["func"], rec["call"]),
                        "; ".join(problems) or "root + selector", key=f"R01f|{fq}|{ctext}")
    # functions reachable from handler constructors through self-calls (pre-gate code, R01d)
    pregate = set()
    work = []
    for C in handlers:
        m = prog.resolve_method(C, "__init__")
        if m is not None:
            work.append((m, C))
    while work:
        m, C = work.pop()
        if (m, C) in pregate:
            continue
        pregate.add((m, C))
        for call, t in eff.calls_of(m, C):
            if t.kind == "repo" and t.bound_cls is not None:
                for f2 in t.funcs:
                    work.append((f2, C))
    pregate_funcs = {m for m, _ in pregate}
    from .c03 import pregate_functions

    pregate_funcs |= {m for m, _ in pregate_functions(ctx, eff)}
    # every other direct FS/exec call site in the request-path packages must have been analysed
    for mod in prog.modules.values():
        if not (mod.name.startswith(("pygopherd.handlers", "pygopherd.protocols")) or mod.name in ("pygopherd.gopherentry",)):
            continue
        funcs = list(mod.functions.values()) + [m for c in mod.classes.values() for m in c.methods.values()]
        for f in funcs:
            for s in eff.direct(f):
                if not (s.effect.startswith("FS_") or s.effect == "EXEC"):
                    continue
                if eff.is_vfs_call(s.target):
                    if (f, id(s.call)) in visited_sites:
                        continue
                    if s.effect == "FS_STAT" and (f is gh or f in pregate_funcs):
                        continue  # the stat before the gate (R01d): result only used after acceptance
                    if f.cls is not None and f.cls.name in ("TALLoader", "RecursiveTALLoader"):
                        continue  # template-driven (executable content), see assumptions
                    if f.cls is not None and vfs is not None and prog.is_subclass(f.cls, vfs):
                        continue  # VFS layer internals: C16
                    rep.fail("R01f", f"{f.qualname}: {norm(s.call)[:80]}", ctx.where(f, s.call),
                             f"{s.effect}: this VFS call is not reachable from any analysed handler entry point, so its selector cannot be shown to be filtered",
                             key=f"R01f|{f.qualname}|{norm(s.call)}")
                    continue
                if (f, id(s.call)) in visited_sites:
                    continue
                if f.cls is not None and vfs is not None and f.cls is vfs:
                    continue
                rep.fail("R01f", f"{f.qualname}: {norm(s.call)[:80]}", ctx.where(f, s.call),
                         f"{s.effect}: raw file-system/exec call outside VFS_Real that no analysed entry point reaches with a filtered path",
                         key=f"R01f|{f.qualname}|{norm(s.call)}")

    # ------------------------------------------------------------------ R01g
    proto_base = ctx.cls("protocols.base.BaseGopherProtocol")
    for mod in prog.modules.values():
        if mod.name.startswith("pygopherd.handlers") or mod.name in ("pygopherd.gopherentry",):
            hits = []
            funcs = list(mod.functions.values()) + [m for c in mod.classes.values() for m in c.methods.values()]
            for f in funcs:
                for call, t in eff.calls_of(f):
                    if t.kind == "ext" and t.ext in DECODERS:
                        hits.append((f, call, t.ext))
            rep.add("R01g", f"{mod.relpath}: no decoding behind the gate", not hits, mod.relpath,
                    "; ".join(f"{t} in {f.qualname}:{c.lineno}" for f, c, t in hits) + (" decodes after the security filter has run" if hits else ""),
                    key=f"R01g|{mod.relpath}", nontrivial=False)
    for P in ctx.protocol_classes():
        h = prog.resolve_method(P, "handle")
        if h is None or not ctx.owns(P, h):
            continue
        w = Walker(prog, ctx.resolver, inline=lambda fn, t, d: t.bound_cls is not None and fn.name in ("handle_input",), max_depth=2)
        problems = set()
        n_dec = 0
        for p in w.run(h, P):
            seen_gate = False
            for ev in p.calls():
                nm = ev.name
                if ev.target.kind == "repo" and any(f.name in ("gethandler", "getHandler") for f in ev.target.funcs):
                    seen_gate = True
                if ev.target.kind == "ext" and nm in DECODERS and nm != "binascii.unhexlify":
                    n_dec += 1
                    if seen_gate:
                        problems.add(f"{nm} at line {ev.lineno} runs after handler selection")
        rep.add("R01g", f"{h.qualname}: decode before selection", not problems, ctx.where(h),
                "; ".join(sorted(problems)) or f"{n_dec} decode events, all before gethandler()", key=f"R01g|{h.qualname}")

    # ------------------------------------------------------------------ R01i
    from .c16 import vfs_gate_obligations

    vfs_gate_obligations(ctx, rep, "R01i", eff)

    # ------------------------------------------------------------------ R01k
    from .c03 import pregate_stat_obligations, pregate_flow_obligations

    pregate_stat_obligations(ctx, rep, "R01k", eff)
    pregate_flow_obligations(ctx, rep, "R01l", eff)

    # ------------------------------------------------------------------ R01j
    dq = ShapeDomain(prog, eff, base)
    eq = ShapeEngine(prog, ctx.resolver, dq)
    for mod in prog.modules.values():
        if not mod.name.startswith("pygopherd") or mod.name == "pygopherd.testutil":
            continue
        funcs = list(mod.functions.values()) + [m for c in mod.classes.values() for m in c.methods.values()]
        for f in funcs:
            for call, t in eff.calls_of(f):
                if t.kind == "ext" and "EVAL" in PRIMITIVES.get(t.ext, ()):
                    from ..prov import Frame

                    fr = Frame(f, f.cls, {}, (), 0)
                    eq.quiet += 1
                    try:
                        # evaluate the function so that locals are bound, then the argument
                        val = _arg_value(eq, f, call)
                    finally:
                        eq.quiet -= 1
                    bad = [a for a in val if any(p[0] not in ("c", "cfg") for p in a)]
                    rep.add("R01j", f"{f.qualname}: {norm(call)[:70]}", not bad, ctx.where(f, call),
                            f"evaluates {sorted(bad)[:2]} (not configuration text)" if bad else f"argument provenance {sorted(val)[:2]}",
                            key=f"R01j|{f.qualname}|{norm(call.func)}")
    # SourceFileLoader / exec_module are covered by R01f (path shape) and R01i


def _arg_value(eng, func, call):
    """Value of the first argument of `call` inside func (locals bound by a forward pass)."""
    from ..prov import Frame

    captured = {}
    orig = eng.x_Call

    def hook(node, fr):
        if node is call and node.args:
            captured["v"] = eng.expr(node.args[0], fr)
        return orig(node, fr)

    eng.x_Call = hook
    try:
        env = {}
        for p in func.params + func.kwonly:
            if p in ("self", "cls"):
                continue
            v = eng.dom.param_default(func, p, eng)
            env[p] = v if v is not None else eng.dom.top()
        fr = Frame(func, func.cls, env, (), 0)
        eng.block(func.node.body, fr)
    finally:
        eng.x_Call = orig
    return captured.get("v", TOPV)


# ---------------------------------------------------------------------------------------------- R01m
_GATE_SELECTORS = ["/1/docs/a.txt", "/0/README", "/0README", "/1", "/1docs", "/0-private/s.txt", "/x/y", "/i", "/h/URL:http://x.example/", "/1/",
                   "/docs/a.txt", "/7/search", "/g-old/pic.gif", "/", ""]


def slash_gate_obligation(ctx, rep, rule, fq, ctext, rec):
    """One call of HandlerMultiplexer.getHandler from handler code.  By shape: the argument starts with an accepted selector
    (which starts with '/': the protocols normalise it) or with a constant that does.  Otherwise by evaluation: the class's
    canhandlerequest() and the calling method are walked on representative selectors; every selector handed on for an accepted
    request has to start with '/'."""
    from ..paths import PathLimit

    prog = ctx.prog
    func, call = rec["func"], rec["call"]
    bad_alts = []
    for alt in sorted(rec["values"]):
        if not alt:
            continue
        first = alt[0]
        if first[0] == "sel" or (first[0] == "c" and str(first[1]).startswith("/")):
            continue
        if len(alt) == 1 and first[0] == "obj":
            continue
        bad_alts.append(alt)
    label = f"{fq}: {ctext[:70]}"
    if not bad_alts:
        rep.ok(rule, label, ctx.where(func, call), "argument starts with an accepted selector or a constant '/...'", key=f"{rule}|{fq}|{ctext}")
        return
    C = func.cls
    can = prog.resolve_method(C, "canhandlerequest") if C is not None else None
    problems, decided = [], 0
    if can is not None:
        for sel in _GATE_SELECTORS:
            facts = {"self.selector": Const(sel), "self.searchrequest": Const(None)}
            inl = lambda fn, t, d: d < 3 and t.bound_cls is not None  # noqa: E731
            try:
                verdicts = set()
                for p in Walker(prog, ctx.resolver, assumptions=dict(facts), exact_loops=True, unroll=4, inline=inl, max_paths=4000).run(can, C, facts=dict(facts)):
                    verdicts.add(truth(p.value) if p.kind == "return" else ("raise" if p.kind == "raise" else False))
            except PathLimit:
                verdicts = {None}
            if verdicts == {False} or verdicts == {"raise"}:
                continue  # not this handler's request
            if verdicts != {True}:
                continue  # undetermined for this representative
            seen = []

            def cv(c_, target, st, _seen=seen):
                if (dotted(c_.func) or "").endswith("getHandler"):
                    a = holder["w"].cur_args or []
                    _seen.append(a[0].value if a and a[0].kind == "const" else None)
                    return Const("<the chosen handler>")
                if (dotted(c_.func) or "").endswith("init_default_handlers"):
                    return Const(None)
                return None

            holder = {}
            w = Walker(prog, ctx.resolver, assumptions=dict(facts), call_value=cv, exact_loops=True, unroll=4, inline=inl, max_paths=4000)
            holder["w"] = w
            try:
                list(w.run(func, C, facts=dict(facts)))
            except PathLimit:
                seen.append(None)
            if not seen or any(x is None for x in seen):
                continue
            decided += 1
            for x in seen:
                if not (isinstance(x, str) and x.startswith("/")):
                    problems.append(f"for the request {sel!r} the selector {x!r} is handed to handler selection: the file-system view looks for "
                                    f"`<root>{x}`, outside the root when the configured root has no trailing slash")
    ok = decided >= 2 and not problems
    rep.add(rule, label, ok, ctx.where(func, call),
            "; ".join(sorted(set(problems))[:2]) if problems else
            ("" if ok else f"the argument need not start with '/' (shape {sorted(bad_alts)[0]}) and its value could not be followed for the class's own requests"),
            key=f"{rule}|{fq}|{ctext}")
