"""C20  A failing client connection is contained in its own handler.

R20a  containment: the connection handler wraps protocol.handle() in handlers for I/O
      errors and Exception that log through GopherExceptions.log(e, protocol, ...) and do
      not re-raise; both server classes wrap finish_request and always shut the request down
R20b  the protocols' own I/O-error replies never index the error's arguments (a
      single-argument socket.timeout must not turn into IndexError)
R20c  every file/archive/mailbox opened on the request path is scoped: a with-item, a
      factory result whose callers scope it, a non-escaping local, or an attribute that
      is closed in a finally of the same method
R20d  the log line carries client address, protocol class and the exception's own class
"""

from __future__ import annotations

import ast

from ..effects import Effects
from ..loader import dotted, norm
from ..paths import Walker, truth
from ..structure import catches, enclosing, enclosing_tries, handler_completes, parents

ACQUIRE_EXT = {"builtins.open", "io.open", "codecs.open", "zipfile.ZipFile", "shelve.open", "mailbox.mbox",
               "tarfile.open", "gzip.open", "bz2.open", "dbm.open", "socket.socket", "os.fdopen", "tempfile.TemporaryFile",
               "tempfile.NamedTemporaryFile"}


def is_acquisition(eff, call, t) -> bool:
    if t.kind == "ext" and t.ext in ACQUIRE_EXT:
        return True
    if eff.is_vfs_call(t) and t.funcs[0].name == "open":
        return True
    if isinstance(call.func, ast.Attribute) and call.func.attr == "open" and t.kind == "ext" \
            and (dotted(call.func.value) or "") in ("self.zip", "self.chain", "self.vfs", "vfs", "chain"):
        return True
    return False


def classify(ctx, eff, func, concrete, call, depth=0):
    """-> (kind, problem): kind in with/factory/local/temp/attr-closed; problem None if fine."""
    prog = ctx.prog
    pm = parents(func.node)
    par = pm.get(call)
    # wrappers: codecs.getreader(...)(fp), contextlib.closing(x)
    if isinstance(par, ast.withitem) and par.context_expr is call:
        return "with", None
    if isinstance(par, ast.Call) and isinstance(pm.get(par), ast.withitem) and (dotted(par.func) or "").endswith("closing"):
        return "with", None
    if isinstance(par, ast.Return):
        return _factory(ctx, eff, func, concrete, depth)
    if isinstance(par, ast.Assign) and len(par.targets) == 1:
        tgt = par.targets[0]
        if isinstance(tgt, ast.Name):
            return _local(ctx, eff, func, concrete, tgt.id, par, depth)
        if isinstance(tgt, ast.Attribute) and dotted(tgt.value) == "self":
            return _attr(func, tgt.attr, par)
        return "stored", f"stored in `{norm(tgt)}` and never released in this method"
    if isinstance(par, ast.Call) and call in par.args:
        # handed to a generator of the repository: the suspended generator holds it until it is exhausted
        from ..paths import _is_generator

        t = ctx.resolver.resolve(par, func, concrete)
        if t.kind == "repo" and t.funcs and all(g is not None and _is_generator(g) for g in t.funcs):
            gp_ = pm.get(par)
            kept = None
            if isinstance(gp_, ast.Assign) and any(isinstance(tg, ast.Attribute) and dotted(tg.value) == "self" for tg in gp_.targets):
                kept = "self." + [tg.attr for tg in gp_.targets if isinstance(tg, ast.Attribute)][0]
            elif isinstance(gp_, ast.Return):
                kept = "the caller (it is returned)"
            if kept is not None:
                bound = any(g.cls is not None for g in t.funcs)
                return "generator", (f"handed to the generator {t.funcs[0].qualname}, which is kept in {kept}: the file stays open until the generator has been "
                                     "run to its end" + ("; while it is suspended its frame refers to the handler, a reference cycle that dropping "
                                                         "protocol.handler does not release - a write that fails half-way through the menu leaves the file open"
                                                         if bound else ""))
    if isinstance(par, (ast.Call, ast.Attribute, ast.Expr, ast.keyword, ast.Starred)):
        return "temp", None  # temporary: dropped when the expression completes
    return "temp", None


CYCLE_BROKEN = {"value": None}


def cycle_broken(ctx) -> bool:
    """Does the connection handler drop protocol.handler in a finally around handle()?
    Then objects held by handler attributes die by reference counting at the end of the
    request (their own finalisers / __del__ close the descriptors)."""
    if CYCLE_BROKEN["value"] is not None and CYCLE_BROKEN.get("prog") is ctx.prog:
        return CYCLE_BROKEN["value"]
    res = False
    rh = ctx.func("server.GopherRequestHandler.handle")
    if rh is not None:
        cands = []
        for n in ast.walk(rh.node):
            if isinstance(n, ast.Call) and isinstance(n.func, ast.Attribute) and n.func.attr == "handle" \
                    and dotted(n.func.value) not in ("self", "super()"):
                cands.append((n, norm(n.func.value)))
            elif isinstance(n, ast.Call) and isinstance(n.func, ast.Attribute) and dotted(n.func.value) in ("self", "cls") and rh.cls is not None:
                # self._serve(protocol): a helper of the connection handler that calls <its parameter>.handle()
                g_ = ctx.prog.resolve_method(rh.cls, n.func.attr)
                if g_ is not None and g_ is not rh:
                    static_ = any(isinstance(d_, ast.Name) and d_.id == "staticmethod" for d_ in g_.node.decorator_list)
                    params_ = g_.params if static_ else g_.params[1:]
                    for x in ast.walk(g_.node):
                        if isinstance(x, ast.Call) and isinstance(x.func, ast.Attribute) and x.func.attr == "handle" and isinstance(x.func.value, ast.Name) \
                                and x.func.value.id in params_ and params_.index(x.func.value.id) < len(n.args):
                            cands.append((n, norm(n.args[params_.index(x.func.value.id)])))
        for n, proto in cands:
            if True:
                from ..structure import bind_params

                def drops(stmts, bind, depth=0):
                    for st in stmts:
                        for x in ast.walk(st):
                            if isinstance(x, ast.Assign) and isinstance(x.value, ast.Constant) and x.value.value is None \
                                    and any(norm(bind_params(t, bind)) == f"{proto}.handler" for t in x.targets):
                                return True
                            if isinstance(x, ast.Delete) and any(norm(bind_params(t, bind)) == f"{proto}.handler" for t in x.targets):
                                return True
                            # a helper of the connection handler that is handed the protocol object
                            if depth < 2 and isinstance(x, ast.Call) and isinstance(x.func, ast.Attribute) and dotted(x.func.value) in ("self", "cls"):
                                g = ctx.prog.resolve_method(rh.cls, x.func.attr) if rh.cls is not None else None
                                if g is not None:
                                    static = any(isinstance(d_, ast.Name) and d_.id == "staticmethod" for d_ in g.node.decorator_list)
                                    params = g.params if static else g.params[1:]
                                    b2 = {p_: bind_params(a_, bind) for p_, a_ in zip(params, x.args)}
                                    if drops(g.node.body, b2, depth + 1):
                                        return True
                    return False

                for tr in enclosing_tries(rh.node, n):
                    if drops(tr.finalbody, {}):
                        res = True
                # ... or a context manager of the repository that hands the protocol out and drops the link in its finally
                from ..structure import enclosing as _enclosing

                for anc, _field in _enclosing(rh.node, n):
                    if not isinstance(anc, (ast.With, ast.AsyncWith)):
                        continue
                    for item in anc.items:
                        ce = item.context_expr
                        if not (isinstance(ce, ast.Call) and isinstance(item.optional_vars, ast.Name) and item.optional_vars.id == proto and ce.args):
                            continue
                        t = ctx.resolver.resolve(ce, rh, rh.cls)
                        g = t.funcs[0] if t.kind == "repo" and len(t.funcs) == 1 else None
                        if g is None or not any((dotted(d_) or "").split(".")[-1] == "contextmanager" for d_ in g.node.decorator_list):
                            continue
                        params = g.params[1:] if g.cls is not None and g.params[:1] == ["self"] else g.params
                        if not params:
                            continue
                        for st_ in g.node.body:
                            if isinstance(st_, ast.Try) and st_.finalbody and any(
                                    isinstance(y, ast.Yield) and isinstance(y.value, ast.Name) and y.value.id == params[0] for b_ in st_.body for y in ast.walk(b_)):
                                if drops(st_.finalbody, {params[0]: ast.Name(id=proto, ctx=ast.Load())}):
                                    res = True
    # the protocol must not keep the handler anywhere else
    pb = ctx.cls("protocols.base.BaseGopherProtocol")
    if res and pb is not None:
        for P in ctx.prog.subclasses(pb):
            for m in P.methods.values():
                for x in ast.walk(m.node):
                    if isinstance(x, ast.Assign) and isinstance(x.value, ast.Call) and isinstance(x.value.func, ast.Attribute) \
                            and x.value.func.attr in ("gethandler", "getHandler"):
                        for t in x.targets:
                            if isinstance(t, ast.Attribute) and dotted(t.value) == "self" and t.attr != "handler":
                                res = False
    CYCLE_BROKEN["value"] = res
    CYCLE_BROKEN["prog"] = ctx.prog
    return res


def _attr(func, attr, assign_stmt):
    # released in a `finally` of a try that starts right after (or contains) the acquisition
    for n in ast.walk(func.node):
        if isinstance(n, ast.Try) and n.finalbody:
            closes = any(isinstance(c, ast.Call) and isinstance(c.func, ast.Attribute) and c.func.attr in ("close", "__exit__")
                         and norm(c.func.value) == f"self.{attr}" for fb in n.finalbody for c in ast.walk(fb))
            if not closes:
                continue
            # acquisition inside the try body, or the try is the next statement
            if any(x is assign_stmt for b in n.body for x in ast.walk(b)):
                return "attr-closed", None
            pm = parents(func.node)
            holder = pm.get(assign_stmt)
            for field in ("body", "orelse", "finalbody"):
                seq = getattr(holder, field, None)
                if isinstance(seq, list) and assign_stmt in seq:
                    i = seq.index(assign_stmt)
                    if i + 1 < len(seq) and seq[i + 1] is n:
                        return "attr-closed", None
    return "attr", (f"kept in self.{attr} and not closed in a finally of this method: the object is reachable from the "
                    f"request's protocol<->handler reference cycle, so the descriptor stays open until the cyclic garbage collector runs")


def _local(ctx, eff, func, concrete, name, assign_stmt, depth):
    pm = parents(func.node)
    for n in ast.walk(func.node):
        if isinstance(n, ast.Name) and n.id == name and isinstance(n.ctx, ast.Load):
            p = pm.get(n)
            if isinstance(p, ast.Return):
                return _factory(ctx, eff, func, concrete, depth)
            if isinstance(p, ast.Assign) and any(isinstance(t, ast.Attribute) and dotted(t.value) == "self" for t in p.targets) and p.value is n:
                attr = [t.attr for t in p.targets if isinstance(t, ast.Attribute)][0]
                return _attr(func, attr, p)
    return "local", None


def _factory(ctx, eff, func, concrete, depth):
    """The function returns the resource: every caller must scope it."""
    if depth > 3:
        return "factory", None
    prog = ctx.prog
    problems = []
    n_callers = 0
    for caller in prog.all_functions():
        if not caller.module.name.startswith("pygopherd") or caller.module.name == "pygopherd.testutil":
            continue
        for call, t in eff.calls_of(caller, caller.cls):
            if t.kind == "repo" and func in t.funcs and (not t.by_name):
                n_callers += 1
                kind, prob = classify(ctx, eff, caller, caller.cls, call, depth + 1)
                if prob:
                    problems.append(f"{caller.qualname}: {prob}")
    return "factory", None


def _owner_released(ctx, func) -> bool:
    """The object holding the attribute is owned by the request's handler graph: a
    handler class, or a VFS object created by one."""
    if func.cls is None:
        return False
    hb = ctx.cls("handlers.base.BaseHandler")
    vfs = ctx.cls("handlers.base.VFS_Real")
    return (hb is not None and ctx.prog.is_subclass(func.cls, hb)) or (vfs is not None and ctx.prog.is_subclass(func.cls, vfs))


def check(ctx, rep):
    prog = ctx.prog
    eff = Effects(prog, ctx.resolver)
    CYCLE_BROKEN["value"] = None
    rep.rule("R20a", "connection handler catches and logs everything from protocol.handle(); servers wrap finish_request and always shut down", floor=3)
    rep.rule("R20b", "I/O-error replies do not index exception arguments", floor=4)
    rep.rule("R20c", "resources acquired on the request path are scoped (with / factory / non-escaping local / closed in finally)", floor=15)
    rep.rule("R20e", "body writers (handler write(), protocol handlerwrite(), copyto()) let connection errors pass unchanged", floor=5)
    rep.rule("R20d", "log line interpolates client address, protocol class name and the exception's own class name", floor=3)
    rep.assume("CPython reference counting releases a descriptor held only by a dead frame's locals")

    # ------------------------------------------------------------------ R20a
    rh = ctx.func("server.GopherRequestHandler.handle")
    if rh is None:
        rep.fail("R20a", "GopherRequestHandler.handle", detail="connection handler not found")
    else:
        rep.analysed(rh.qualname)
        hcalls = [c for c, t in eff.calls_of(rh, rh.cls) if isinstance(c.func, ast.Attribute) and c.func.attr == "handle"
                  and dotted(c.func.value) not in ("self", "super()")]
        holder_of = {id(c): rh for c in hcalls}
        if not hcalls and rh.cls is not None:
            # the call lives in a helper method of the connection handler (handle = try: self._serve(p) finally: ...)
            for c0, t0 in eff.calls_of(rh, rh.cls):
                if t0.kind == "repo" and t0.bound_cls is not None and len(t0.funcs) == 1 and t0.funcs[0] is not None:
                    g0 = t0.funcs[0]
                    for c1, _t1 in eff.calls_of(g0, rh.cls):
                        if isinstance(c1.func, ast.Attribute) and c1.func.attr == "handle" and dotted(c1.func.value) not in ("self", "super()"):
                            hcalls.append(c1)
                            holder_of[id(c1)] = g0
        problems = []
        if not hcalls:
            problems.append("protocol.handle() is never called")
        for c in hcalls:
            tries = enclosing_tries(holder_of[id(c)].node, c)
            hs = [h for tr in tries for h in tr.handlers]
            if not any(catches(h, "Exception") for h in hs):
                problems.append("an exception raised while answering (other than an I/O error) escapes the connection handler")
            if not any(catches(h, "OSError") for h in hs):
                problems.append("an I/O error while writing the response escapes the connection handler")
            proto = norm(c.func.value)
            for h in hs:
                if handler_completes(Walker(prog, ctx.resolver), holder_of[id(c)], h, rh.cls) == [] and any(isinstance(x, ast.Raise) for x in ast.walk(h)):
                    problems.append(f"`except {norm(h.type) if h.type else ''}` re-raises")
                logs = [x for x in ast.walk(h) if isinstance(x, ast.Call) and (dotted(x.func) or "").endswith("GopherExceptions.log")]
                if not logs:
                    # ... or through a helper of the connection handler that logs on every path
                    for x in ast.walk(h):
                        if isinstance(x, ast.Call) and isinstance(x.func, ast.Attribute) and dotted(x.func.value) in ("self", "cls") and rh.cls is not None:
                            g = prog.resolve_method(rh.cls, x.func.attr)
                            if g is not None:
                                gp = [p_ for p_ in Walker(prog, ctx.resolver).run(g, rh.cls) if p_.kind != "raise"]
                                if gp and all(any(e.kind == "call" and (dotted(e.node.func) or "").endswith("GopherExceptions.log") for e in p_.events) for p_ in gp):
                                    logs.append(x)
                if not logs:
                    problems.append(f"`except {norm(h.type) if h.type else ''}` does not log the failure through GopherExceptions.log")
                for lg in logs:
                    if not (len(lg.args) >= 2 and h.name and norm(lg.args[0]) == h.name and norm(lg.args[1]) == proto):
                        problems.append("the failure is not logged with the caught exception and the protocol object (client address, classes)")
        # ... on every path: the handler is walked with protocol.handle() failing in each representative way
        for c in hcalls:
            for exc in ("BrokenPipeError", "ConnectionResetError", "TimeoutError", "OSError", "RuntimeError", "KeyError"):
                def rp(call, target, _c=c, _exc=exc):
                    return [_exc] if call is _c else []

                w_ = Walker(prog, ctx.resolver, raise_points=rp, max_paths=20000,
                            inline=lambda fn, t, d: d < 3 and (t.bound_cls is not None or fn.module is rh.module) and fn.name != "handle")
                try:
                    hpaths = w_.run(rh, rh.cls)
                except Exception:
                    problems.append("could not enumerate the connection handler's paths")
                    break
                for p in hpaths:
                    at = [i for i, e in enumerate(p.events) if e.kind == "raise" and e.extra == "implicit" and e.node is c]
                    if not at:
                        continue
                    after = p.events[at[0]:]
                    if p.kind == "raise":
                        problems.append(f"a {exc} from protocol.handle() leaves the connection handler")
                    elif not any(e.kind == "call" and (dotted(e.node.func) or "").endswith("GopherExceptions.log") for e in after):
                        tests = [f"{norm(e.node)[:50]} is {bool(e.extra)}" for e in after if e.kind == "test" and e.extra is not None]
                        problems.append(f"a {exc} from protocol.handle() is not logged when {tests[0] if tests else 'it is caught'}")
        # ... and whatever the connection handler itself writes to the client fails the same way
        def rp_w(call, target):
            f_ = call.func
            if isinstance(f_, ast.Attribute) and f_.attr in ("write", "writelines", "flush", "sendall", "send") \
                    and any(x in norm(f_.value) for x in ("wfile", "self.request", "self.connection")):
                return ["BrokenPipeError"]
            return []

        w_ = Walker(prog, ctx.resolver, raise_points=rp_w, max_paths=20000,
                    inline=lambda fn, t, d: d < 3 and (t.bound_cls is not None or fn.module is rh.module) and fn.name != "handle")
        try:
            for p in w_.run(rh, rh.cls):
                at = [i for i, e in enumerate(p.events) if e.kind == "raise" and e.extra == "implicit" and isinstance(e.node, ast.Call)
                      and isinstance(e.node.func, ast.Attribute) and e.node.func.attr in ("write", "writelines", "flush", "sendall", "send")]
                if not at:
                    continue
                site = norm(p.events[at[0]].node)[:50]
                if p.kind == "raise":
                    problems.append(f"a broken connection while the connection handler itself writes (`{site}`) leaves the handler: nothing contains or logs it")
                elif not any(e.kind == "call" and (dotted(e.node.func) or "").endswith("GopherExceptions.log") for e in p.events[at[0]:]):
                    problems.append(f"a broken connection while the connection handler itself writes (`{site}`) is not logged")
        except Exception:
            problems.append("could not enumerate the connection handler's paths")
        rep.add("R20a", "connection handler contains and logs failures", not problems, ctx.where(rh), "; ".join(sorted(set(problems))),
                key="R20a|handle|" + ";".join(sorted(set(problems))))
    bs = ctx.cls("server.BaseServer")
    n_srv = 0
    for S in (prog.subclasses(bs, strict=True) if bs else []):
        for wname in ("process_request", "process_request_thread"):
            m = S.methods.get(wname)
            if m is None:
                continue
            n_srv += 1
            problems = []

            def rp_fin(call, target):
                if isinstance(call.func, ast.Attribute) and call.func.attr == "finish_request":
                    return ["RuntimeError"]
                if isinstance(call.func, ast.Attribute) and call.func.attr == "handle_error":
                    return ["ErrorWhileReporting"]  # reporting can fail too (a closed log): the connection is still shut down
                return []

            # the worker with the helpers of the server module it is built from
            NOIN = ("wrap_socket", "finish_request", "handle_error", "shutdown_request", "close_request", "server_bind", "__init__")
            w_ = Walker(prog, ctx.resolver, raise_points=rp_fin,
                        inline=lambda fn, t, d: d < 3 and t.bound_cls is not None and fn.module is m.module and fn.name not in NOIN)
            n_fin = 0
            try:
                wpaths = w_.run(m, S)
            except Exception:
                wpaths = []
                problems.append("could not enumerate the worker's paths")
            for p in wpaths:
                idx = [i for i, e in enumerate(p.events) if e.kind == "call" and isinstance(e.node.func, ast.Attribute) and e.node.func.attr == "finish_request"]
                if not idx:
                    continue
                n_fin += 1
                after = p.events[idx[0]:]
                failed = any(e.kind == "raise" and e.extra == "implicit" and isinstance(e.node, ast.Call) and isinstance(e.node.func, ast.Attribute)
                             and e.node.func.attr == "finish_request" for e in after)
                report_failed = any(e.kind == "raise" and e.extra == "implicit" and isinstance(e.node, ast.Call) and isinstance(e.node.func, ast.Attribute)
                                    and e.node.func.attr == "handle_error" for e in after)
                if failed and not report_failed:
                    if p.kind == "raise":
                        problems.append("an exception from the request handler propagates to the accept loop / kills the worker unlogged")
                    elif not any(e.kind == "call" and isinstance(e.node.func, ast.Attribute) and e.node.func.attr == "handle_error" for e in after):
                        problems.append("the worker's exception handler does not report through handle_error (or re-raises)")
                if not any(e.kind == "call" and isinstance(e.node.func, ast.Attribute) and e.node.func.attr == "shutdown_request" for e in after):
                    problems.append("the connection is not shut down on every path after the handler ran (descriptor leak when the handler fails)")
            if n_fin == 0 and not problems:
                problems.append("finish_request is never called")
            rep.add("R20a", f"{m.qualname} wraps finish_request", not problems, ctx.where(m), "; ".join(sorted(set(problems))),
                    key=f"R20a|{m.qualname}|" + ";".join(sorted(set(problems))))
    if n_srv == 0:
        rep.fail("R20a", "server workers", detail="no worker entry point found in the server classes")

    # ------------------------------------------------------------------ R20b
    from .c03 import partial_op_obligations

    funcs = []
    for P in ctx.protocol_classes():
        h = prog.resolve_method(P, "handle")
        if h is not None and ctx.owns(P, h):
            funcs.append((h, P))
    partial_op_obligations(ctx, rep, "R20b", funcs, kinds=("P7",))
    # the error text handed to the protocol's error writer must be derived from the error itself
    for h, P in funcs:
        for n in ast.walk(h.node):
            if isinstance(n, ast.ExceptHandler) and n.name and any(catches(n, e) for e in ("OSError",)) and not catches(n, "FileNotFound"):
                writers = [c for c in ast.walk(n) if isinstance(c, ast.Call) and isinstance(c.func, ast.Attribute)
                           and c.func.attr in ("filenotfound", "write_status")]
                ok = bool(writers)
                rep.add("R20b", f"{h.qualname}: I/O error answered", ok, ctx.where(h, n),
                        "the I/O-error handler sends no error reply" if not ok else "", key=f"R20b|{h.qualname}|ioreply", nontrivial=False)
                # OSError.strerror is None for errors built from one argument (socket.timeout("timed out")): a writer that is
                # handed the bare attribute must not do string-only things with it, or a TypeError replaces the client's failure
                for c in writers:
                    args_ = list(c.args) + [k.value for k in c.keywords]
                    maybe_none = [a for a in args_ if isinstance(a, ast.Attribute) and a.attr in ("strerror", "filename", "errno") and norm(a.value) == n.name]
                    if not maybe_none:
                        continue
                    W = prog.resolve_method(P, c.func.attr)
                    if W is None:
                        continue
                    wparams = W.params[1:]
                    for a in maybe_none:
                        idx = args_.index(a)
                        pname = wparams[idx] if idx < len(wparams) else None
                        if pname is None:
                            continue
                        unsafe = None
                        for st_ in W.node.body:
                            # rebinding to a string first makes the rest safe
                            if isinstance(st_, ast.Assign) and any(isinstance(t, ast.Name) and t.id == pname for t in st_.targets):
                                v = st_.value
                                if (isinstance(v, ast.Call) and dotted(v.func) == "str") or (isinstance(v, ast.BoolOp) and isinstance(v.op, ast.Or)
                                                                                             and norm(v.values[0]) == pname):
                                    break
                            for x in ast.walk(st_):
                                if isinstance(x, ast.Call):
                                    d_ = dotted(x.func) or ""
                                    if isinstance(x.func, ast.Attribute) and isinstance(x.func.value, ast.Name) and x.func.value.id == pname:
                                        unsafe = norm(x)[:50]
                                    elif (d_.startswith("re.") or d_ in ("html.escape", "urllib.parse.quote", "len")) and any(
                                            isinstance(y, ast.Name) and y.id == pname for y in x.args):
                                        unsafe = norm(x)[:50]
                                if isinstance(x, ast.BinOp) and isinstance(x.op, ast.Add) and any(isinstance(y, ast.Name) and y.id == pname for y in (x.left, x.right)):
                                    unsafe = norm(x)[:50]
                            if unsafe:
                                break
                        rep.add("R20b", f"{h.qualname}: {W.qualname} tolerates `{norm(a)}` being None", unsafe is None, ctx.where(W),
                                f"`{unsafe}` needs a string, but {h.qualname} hands over `{norm(a)}`, which is None for single-argument I/O errors (a send "
                                "time-out): the TypeError raised while answering replaces the client's failure in the log" if unsafe else "",
                                key=f"R20b|{h.qualname}|{W.qualname}|none")

    # ------------------------------------------------------------------ R20c
    seen = set()
    scope = [f for f in prog.all_functions()
             if f.module.name.startswith(("pygopherd.handlers", "pygopherd.protocols")) or f.module.name in ("pygopherd.gopherentry",)]
    # factories: functions that return a resource they acquired; calls to them are acquisitions too
    factories = set()
    changed = True
    while changed:
        changed = False
        for f in scope:
            if f in factories:
                continue
            for call, t in eff.calls_of(f, f.cls):
                if is_acquisition(eff, call, t) or (t.kind == "repo" and not t.by_name and any(x in factories for x in t.funcs)):
                    if classify(ctx, eff, f, f.cls, call)[0] == "factory":
                        factories.add(f)
                        changed = True
                        break
    for f in scope:
        for call, t in eff.calls_of(f, f.cls):
            acq = is_acquisition(eff, call, t) or (t.kind == "repo" and not t.by_name and any(x in factories for x in t.funcs))
            if not acq or id(call) in seen:
                continue
            seen.add(id(call))
            kind, prob = classify(ctx, eff, f, f.cls, call)
            if kind == "attr" and prob and cycle_broken(ctx) and _owner_released(ctx, f):
                kind, prob = "attr-refcounted", None
            rep.add("R20c", f"{f.qualname}: {norm(call)[:60]}", prob is None, ctx.where(f, call),
                    prob or kind, key=f"R20c|{f.qualname}|{norm(call)[:80]}", nontrivial=kind != "with")

    # ------------------------------------------------------------------ R20d
    lg = ctx.func("GopherExceptions.log")
    if lg is None:
        rep.fail("R20d", "GopherExceptions.log", detail="log routine not found")
    else:
        import re as _re

        from ..structure import resolve_value

        p_exc, p_proto = (lg.params + ["exception", "protocol"])[0], (lg.params + ["exception", "protocol"])[1]
        pats = {"client address": r"client_address\[0\]",
                "protocol class": rf"(type\({p_proto}\)|{p_proto}\.__class__)\.__(qual)?name__",
                "exception class": rf"(type\({p_exc}\)|{p_exc}\.__class__)\.__(qual)?name__"}
        missing = {k: [] for k in pats}
        n_logged = 0
        ev_texts = _log_line_evaluation(ctx, lg)
        if ev_texts is not None:
            # decided by evaluating log() with objects that answer every attribute with its own access path
            for what, needle in (("client address", "<protocol.requesthandler.client_address[0]>"), ("protocol class", "<class of protocol>"),
                                 ("exception class", "<class of exception>")):
                bad = [t for t in ev_texts if needle not in t]
                rep.add("R20d", f"log line carries the {what}", not bad, ctx.where(lg),
                        "" if not bad else f"a failure of a request is logged as {bad[0]!r}: the {what} is not in the line", key=f"R20d|{what}")
            bare = _log_line_evaluation(ctx, lg, with_proto=False)
            bad = None if bare is None else [t for t in bare if "<class of exception>" not in t]
            rep.add("R20d", "log line carries the exception class when no protocol object is given", bare is not None and not bad, ctx.where(lg),
                    "" if bare is not None and not bad else ("log() without a protocol object could not be evaluated" if bare is None else
                                                             f"a failure outside a protocol is logged as {bad[0]!r}: the exception class is not in the line"),
                    key="R20d|bare")
        for pth in (Walker(prog, ctx.resolver).run(lg) if ev_texts is None else []):
            with_proto = any(e.kind == "test" and norm(e.node) == p_proto and e.extra is True for e in pth.events) or \
                not any(e.kind == "test" and norm(e.node) == p_proto for e in pth.events)
            for e in pth.events:
                if e.kind == "call" and (dotted(e.node.func) or "").endswith("logger.log") and e.node.args:
                    n_logged += 1
                    blob = norm(resolve_value(e.node.args[0], lg, None, e.defs or {}, prog, ctx.resolver))
                    for what, pat in pats.items():
                        if what != "exception class" and not with_proto:
                            continue  # no protocol object: nothing to say about the client or the protocol
                        if _re.search(pat, blob) is None:
                            missing[what].append(blob[:80])
        for what, pat in (pats.items() if ev_texts is None else []):
            ok = n_logged > 0 and not missing[what]
            rep.add("R20d", f"log line carries the {what}", ok, ctx.where(lg),
                    "" if ok else f"nothing matching `{pat}` reaches the logged string ({(missing[what] or ['no log call'])[0]})", key=f"R20d|{what}")
        # ... and is written whenever log() is called: no path returns without the log write, whatever was logged before
        silent = []
        for p in Walker(prog, ctx.resolver).run(lg):
            if p.kind == "raise":
                continue
            if not any(e.kind == "call" and (dotted(e.node.func) or "").endswith("logger.log") for e in p.events):
                tests = [f"{norm(e.node)[:40]}={bool(e.extra)}" for e in p.events if e.kind == "test" and e.extra is not None]
                silent.append(", ".join(tests[-2:]) or "unconditionally")
        rep.add("R20d", "log() writes a line on every path", not silent, ctx.where(lg),
                f"log() can return without writing anything ({silent[0]}): that failure does not appear in the log" if silent else "",
                key="R20d|always-writes")
        # the line is written for every failure, not once per object: no state that suppresses later calls
        state = [norm(n)[:50] for n in ast.walk(lg.node) if isinstance(n, ast.Assign)
                 and any(isinstance(t, ast.Attribute) for t in n.targets)] + \
                [norm(n)[:50] for n in ast.walk(lg.node) if isinstance(n, ast.Global)]
        rep.add("R20d", "log() keeps no state between calls", not state, ctx.where(lg),
                f"log() records `{state[0]}`: whether a failure is logged depends on what was logged before" if state else "", key="R20d|stateless")

    # ------------------------------------------------------------------ R20e
    body_writer_obligations(ctx, rep, "R20e")
    # ------------------------------------------------------------------ R20j
    rep.rule("R20j", "= R03m: the log line for a failed connection is formatted with request text as an argument only, never inside the format "
             "string (a `%` in the selector would make the report itself fail)", floor=1)
    from .c03 import format_string_obligations
    format_string_obligations(ctx, rep, "R20j")
    # ------------------------------------------------------------------ R20i
    rep.rule("R20i", "inside its except clauses the connection handler only reports (log routine, traceback, attribute reads): nothing there calls "
             "back into the protocol or the handlers, where a second exception could be raised", floor=1)
    handler_body_obligations(ctx, rep, "R20i")
    # ------------------------------------------------------------------ R20h
    rep.rule("R20h", "a client that has gone away arrives as an exception in its handler: the server never gives SIGPIPE a disposition other than "
             "'ignore' (with the default one the write kills the worker - or, threaded, the whole server - before anything is logged)", floor=0)
    sigpipe_obligations(ctx, rep, "R20h")
    # ------------------------------------------------------------------ R20g
    rep.rule("R20g", "what the protocol writes reaches the socket - and fails - inside the connection handler's try: the handler's output file is "
             "unbuffered (wbufsize 0, no buffering wrapper), or the handler flushes it before the try ends; a buffered remainder would be sent by "
             "finish(), where a reset connection is reported by socketserver instead of being logged with the client's address", floor=1)
    unbuffered_obligations(ctx, rep, "R20g")
    # ------------------------------------------------------------------ R20f
    rep.rule("R20f", "no context manager of the server swallows what is raised inside its block: __exit__ returns nothing (or False) on every path, "
             "generator-based managers re-raise - a failed write inside such a block would otherwise vanish unlogged", floor=0)
    n_cm = 0
    for f_ in prog.all_functions():
        if not f_.module.name.startswith("pygopherd") or ".tests" in f_.module.name or f_.module.name.endswith("testutil"):
            continue
        if f_.name in ("__exit__", "__aexit__") and f_.cls is not None:
            n_cm += 1
            bad = exit_swallows(ctx, f_)
            rep.add("R20f", f"{f_.qualname}: lets exceptions through", not bad, ctx.where(f_),
                    "" if not bad else f"`{bad[0]}` can be true: whatever was raised inside the with block (a write to a client that has gone away) is then "
                    "swallowed - no error reply, no log line", key=f"R20f|{f_.qualname}")
        if is_generator_manager(f_):
            n_cm += 1
            swallow = generator_manager_swallows(f_)
            rep.add("R20f", f"{f_.qualname}: lets exceptions through", not swallow, ctx.where(f_),
                    "" if not swallow else f"the manager catches {swallow[0]} around its yield without re-raising: what fails inside the with block vanishes",
                    key=f"R20f|{f_.qualname}")
    if not n_cm:
        rep.ok("R20f", "the server defines no context manager of its own", "pygopherd", "", key="R20f|none", nontrivial=False)


def exit_swallows(ctx, f_):
    """Return statements of an __exit__ method that can hand back a true value (= swallow what was raised in the block)."""
    bad = []
    for p_ in Walker(ctx.prog, ctx.resolver, fork_returns=True).run(f_, f_.cls):
        if p_.kind == "return" and p_.value is not None:
            t_ = truth(p_.value)
            rv = [e for e in p_.events if e.kind == "return"]
            if t_ is not False and not (rv and (rv[-1].node.value is None)):
                bad.append(norm(rv[-1].node)[:50] if rv else "a value")
    return bad


def is_generator_manager(f_) -> bool:
    return any((dotted(d_) or "").split(".")[-1] in ("contextmanager", "asynccontextmanager") for d_ in f_.node.decorator_list)


def generator_manager_swallows(f_):
    swallow = []
    for tr in [x for x in ast.walk(f_.node) if isinstance(x, ast.Try)]:
        if any(isinstance(y, (ast.Yield, ast.YieldFrom)) for b_ in tr.body for y in ast.walk(b_)):
            for h in tr.handlers:
                if not any(isinstance(y, ast.Raise) for y in ast.walk(h)):
                    swallow.append(norm(h.type)[:40] if h.type is not None else "everything")
    return swallow


def _may_be_true(ctx, func, e) -> bool:
    """Can this expression, used as the result of an exit callback, be true?  Syntactic, erring towards yes."""
    if isinstance(e, ast.Constant):
        return bool(e.value)
    if isinstance(e, ast.BoolOp):
        vals = [_may_be_true(ctx, func, v) for v in e.values]
        return all(vals) if isinstance(e.op, ast.And) else any(vals)
    if isinstance(e, ast.UnaryOp) and isinstance(e.op, ast.Not) and isinstance(e.operand, ast.Constant):
        return not e.operand.value
    if isinstance(e, ast.Call):
        t = ctx.resolver.resolve(e, func)
        if t is not None and t.kind == "repo" and t.funcs:
            return any(_returns_may_be_true(ctx, f) for f in t.funcs)
        d = dotted(e.func) or ""
        if d in ("print", "os.unlink", "os.remove", "os.close", "logging.info") or d.split(".")[-1] in ("log", "close", "release", "append", "clear"):
            return False
    return True


def _returns_may_be_true(ctx, f) -> bool:
    for n in ast.walk(f.node):
        if isinstance(n, ast.Return) and n.value is not None and _may_be_true(ctx, f, n.value):
            return True
    return False


def with_swallows(ctx, func, wnode):
    """Why an exception raised inside this with block may not leave it: [] when every manager lets it through.
    contextlib.suppress, an ExitStack given an exit callback that can return true, a manager of the repo whose __exit__ can."""
    prog = ctx.prog
    out = []
    for item in wnode.items:
        ce = item.context_expr
        if not isinstance(ce, ast.Call):
            continue
        last = (dotted(ce.func) or "").split(".")[-1]
        if last == "suppress":
            out.append(f"contextlib.suppress({', '.join(dotted(a) or norm(a) for a in ce.args)})")
            continue
        if last in ("ExitStack", "AsyncExitStack"):
            if not isinstance(item.optional_vars, ast.Name):
                continue
            var = item.optional_vars.id
            for c in ast.walk(wnode):
                if not (isinstance(c, ast.Call) and isinstance(c.func, ast.Attribute) and isinstance(c.func.value, ast.Name) and c.func.value.id == var and c.args):
                    continue
                a = c.args[0]
                if c.func.attr in ("push", "push_async_exit"):
                    if isinstance(a, ast.Lambda):
                        if _may_be_true(ctx, func, a.body):
                            out.append(f"exit callback `{norm(a)[:70]}` pushed at line {c.lineno} can return a true value")
                        continue
                    d = dotted(a)
                    res = prog.resolve_dotted(func.module, d) if d else None
                    if res and res[0] == "func":
                        if _returns_may_be_true(ctx, res[1]):
                            out.append(f"exit callback {res[1].qualname} pushed at line {c.lineno} can return a true value")
                    elif res and res[0] == "class":
                        ex = prog.resolve_method(res[1], "__exit__")
                        if ex is not None and exit_swallows(ctx, ex):
                            out.append(f"{res[1].name}.__exit__ pushed at line {c.lineno} can return a true value")
                    else:
                        out.append(f"exit callback `{norm(a)[:50]}` pushed at line {c.lineno} is not known to return nothing")
                elif c.func.attr in ("enter_context", "enter_async_context") and isinstance(a, ast.Call):
                    fake = ast.With(items=[ast.withitem(context_expr=a, optional_vars=None)], body=[])
                    out.extend(with_swallows(ctx, func, fake))
            continue
        t = ctx.resolver.resolve(ce, func)
        if t is None:
            continue
        if t.kind == "ctor" and t.cls is not None:
            ex = prog.resolve_method(t.cls, "__exit__")
            if ex is not None:
                bad = exit_swallows(ctx, ex)
                if bad:
                    out.append(f"{ex.qualname} can return a true value (`{bad[0]}`)")
        elif t.kind == "repo":
            for f in t.funcs:
                if is_generator_manager(f):
                    sw = generator_manager_swallows(f)
                    if sw:
                        out.append(f"{f.qualname} catches {sw[0]} around its yield without re-raising")
    return out


def unbuffered_obligations(ctx, rep, rule="R20g"):
    prog = ctx.prog
    rh = ctx.func("server.GopherRequestHandler.handle")
    if rh is None or rh.cls is None:
        rep.fail(rule, "GopherRequestHandler", detail="connection handler class not found")
        return
    buffered = []
    for C in prog.mro(rh.cls):
        if isinstance(C, str):
            continue
        v = C.attrs.get("wbufsize")
        if v is not None:
            val = None
            try:
                val = ast.literal_eval(v)
            except Exception:
                cv = _fold_const(v)
                val = cv
            if val != 0:
                buffered.append(f"{C.name}.wbufsize = {norm(v)[:30]}")
            break
    for C in prog.mro(rh.cls):
        if isinstance(C, str):
            continue
        for m in C.methods.values():
            for n in ast.walk(m.node):
                if isinstance(n, ast.Assign) and any(dotted(t) == "self.wfile" for t in n.targets) and isinstance(n.value, ast.Call):
                    last = (dotted(n.value.func) or "").split(".")[-1]
                    if last in ("BufferedWriter", "BufferedRWPair", "BufferedRandom", "TextIOWrapper"):
                        buffered.append(f"{m.qualname} wraps the output file in {last}")
                    elif last == "makefile":
                        b = n.value.args[1] if len(n.value.args) > 1 else next((k.value for k in n.value.keywords if k.arg == "buffering"), None)
                        if not (isinstance(b, ast.Constant) and b.value == 0):
                            buffered.append(f"{m.qualname} opens the output file buffered ({norm(n.value)[:50]})")
    flushed = False
    for tr in [t for t in ast.walk(rh.node) if isinstance(t, ast.Try)]:
        if not any(catches(h, "OSError") or catches(h, "Exception") for h in tr.handlers):
            continue
        for b in tr.body:
            for n in ast.walk(b):
                if isinstance(n, ast.Call) and dotted(n.func) == "self.wfile.flush":
                    flushed = True
    ok = not buffered or flushed
    rep.add(rule, f"{rh.cls.name}: output file unbuffered, or flushed inside the try of handle()", ok, ctx.where(rh),
            "" if ok else f"{buffered[0]}: the response collects in a buffer and is sent by finish(), outside the try of handle() - a connection "
            "that fails then is reported by socketserver.handle_error (or kills the forked child) and never logged with the client's address",
            key=f"{rule}|wbufsize")


def _fold_const(node):
    """Integer arithmetic on constants (16 * 1024, 1 << 14); None when it is anything else."""
    import operator as _op

    ops = {ast.Add: _op.add, ast.Sub: _op.sub, ast.Mult: _op.mul, ast.FloorDiv: _op.floordiv, ast.LShift: _op.lshift, ast.BitOr: _op.or_}
    if isinstance(node, ast.Constant) and isinstance(node.value, int):
        return node.value
    if isinstance(node, ast.UnaryOp) and isinstance(node.op, ast.USub):
        v = _fold_const(node.operand)
        return -v if v is not None else None
    if isinstance(node, ast.BinOp) and type(node.op) in ops:
        a, b = _fold_const(node.left), _fold_const(node.right)
        if a is None or b is None or (isinstance(node.op, ast.LShift) and not 0 <= b < 64) or (isinstance(node.op, ast.FloorDiv) and b == 0):
            return None
        return ops[type(node.op)](a, b)
    return None


def sigpipe_obligations(ctx, rep, rule="R20h"):
    prog = ctx.prog
    sites = []
    n = 0
    for f in list(prog.all_functions()):
        if not f.module.name.startswith("pygopherd") or ".tests" in f.module.name or f.module.name.endswith("testutil"):
            continue
        for node in ast.walk(f.node):
            if not isinstance(node, ast.Call):
                continue
            d = dotted(node.func) or ""
            if d in ("signal.signal", "signal.sigaction") and node.args:
                n += 1
                which = dotted(node.args[0]) or norm(node.args[0])
                disp = (dotted(node.args[1]) or norm(node.args[1])) if len(node.args) > 1 else ""
                if "SIGPIPE" in which and not disp.endswith("SIG_IGN"):
                    sites.append((f, node, f"SIGPIPE is given the disposition {disp or '?'}"))
                elif not which.startswith("signal.SIG") and "SIGPIPE" not in which and not isinstance(node.args[0], ast.Constant):
                    # a signal chosen at run time (a loop over a table of signals) may be SIGPIPE
                    tbl = norm(node.args[0])
                    if any("SIGPIPE" in norm(x) for x in ast.walk(f.module.tree) if isinstance(x, (ast.Attribute, ast.Constant))):
                        sites.append((f, node, f"a signal taken from `{tbl}` - the module names SIGPIPE - is given the disposition {disp}"))
            if d in ("signal.set_wakeup_fd",):
                n += 1
    bin_mod = [m for m in prog.modules.values() if m.relpath.startswith("bin/")]
    for f, node, what in sites:
        rep.add(rule, f"{f.qualname}: {norm(node)[:60]}", False, ctx.where(f, node),
                f"{what}: Python starts with SIGPIPE ignored, which is what turns a write to a closed connection into BrokenPipeError inside the "
                "handler; with another disposition the worker (or the threaded server) dies in the write - nothing is logged, nothing is closed",
                key=f"{rule}|{f.qualname}|{norm(node)[:50]}")
    if not sites:
        rep.ok(rule, f"SIGPIPE keeps the interpreter's 'ignore' disposition [{n} signal installations looked at]", "pygopherd/sighandlers.py", "", key=f"{rule}|none")


_REPORTING_CALLS = {"GopherExceptions.log", "traceback.print_exc", "traceback.print_exception", "traceback.format_exc", "logger.log", "isinstance", "str", "repr",
                    "type", "getattr", "hasattr", "print", "len", "bool", "int"}


def handler_body_obligations(ctx, rep, rule="R20i"):
    """What the connection handler does *inside* its except clauses (and its finally) is reporting only: the log routine, traceback
    printing, reading attributes.  A call back into the protocol or the handlers from there (a lazy accessor that repeats the handler
    look-up, a render) can raise again - that second exception leaves the connection handler and hides the one being reported."""
    prog = ctx.prog
    rh = ctx.func("server.GopherRequestHandler.handle")
    if rh is None:
        rep.fail(rule, "GopherRequestHandler.handle", detail="connection handler not found")
        return
    n, found = 0, []

    def calls_in(nodes, depth=0, seen=()):
        for b in nodes:
            for c in ast.walk(b):
                if not isinstance(c, ast.Call):
                    continue
                d = dotted(c.func) or norm(c.func)
                if d in _REPORTING_CALLS or d.split(".")[-1] in ("print_exc",):
                    yield ("ok", c, d)
                    continue
                g = None
                if isinstance(c.func, ast.Attribute) and dotted(c.func.value) in ("self", "cls") and rh.cls is not None:
                    g = prog.resolve_method(rh.cls, c.func.attr)
                if g is None and isinstance(c.func, ast.Name) and c.func.id in rh.module.functions:
                    g = rh.module.functions[c.func.id]  # a helper of the module
                if g is not None and g not in seen and depth < 2:
                    inner = list(calls_in(g.node.body, depth + 1, seen + (g,)))
                    bad = [x for x in inner if x[0] == "bad"]
                    yield ("bad", c, f"{d}() -> {bad[0][2]}") if bad else ("ok", c, d)
                    continue
                yield ("bad", c, d)

    for tr in [t for t in ast.walk(rh.node) if isinstance(t, ast.Try)]:
        for h in tr.handlers:
            for kind, c, d in calls_in(h.body):
                n += 1
                if kind == "bad" and not any(catches(h2, "Exception") for tr2 in enclosing_tries(h, c) for h2 in tr2.handlers):
                    found.append((c, d, h))
    seen = set()
    for c, d, h in found:
        if norm(c) in seen:
            continue
        seen.add(norm(c))
        rep.add(rule, f"{rh.qualname}: {norm(c)[:60]} inside `except {norm(h.type) if h.type is not None else ''}`", False, ctx.where(rh, c),
                f"`{d}` is called while the failure is being reported: if it raises (a handler look-up repeated for a selector that has none, a write to the "
                "dead connection) that exception leaves the connection handler and the failure itself is never logged under its own class",
                key=f"{rule}|{norm(c)[:50]}")
    if not found:
        rep.ok(rule, f"the except clauses of the connection handler only report [{n} calls looked at]", ctx.where(rh), "", key=f"{rule}|none")


class _PathObj:
    """An object of the evaluation that answers every attribute / index with its own access path."""

    def __init__(self, path):
        self.path = path

    def __repr__(self):
        # (the text of an exception quotes the selector, which the client chooses: per cent signs and braces included)
        return f"<{self.path}>" if self.path != "exception" else "<exception 100%.txt %s %(x)d {0} {x}>"

    __str__ = __repr__

    def __format__(self, spec):
        return repr(self)

    def __bool__(self):
        return True

    def __getitem__(self, i):
        return _PathObj(f"{self.path}[{i!r}]")

    def pgv_attr(self, name):
        if name in ("__cause__", "__context__"):
            # the failure that is logged happened while another one was being handled (an error page that could not be sent)
            from ..paths import Const as _Const

            return _Const(None) if self.path.startswith("what led to ") else _PathObj("what led to " + self.path)
        if name in ("__suppress_context__",):
            from ..paths import Const as _Const

            return _Const(False)
        if name in ("__name__", "__qualname__") and self.path.startswith("type("):
            return f"<class of {self.path[5:-1]}>"
        if name == "__class__":
            return _PathObj(f"type({self.path})")
        return _PathObj(f"{self.path}.{name}")


def _log_line_evaluation(ctx, lg, with_proto=True):
    """GopherExceptions.log(exception, protocol, handler) evaluated with path objects for its arguments: the texts handed to
    logger.log().  None when the walker cannot follow the code."""
    from ..paths import Const

    prog = ctx.prog
    params = lg.params
    if len(params) < 2:
        return None
    holder = {}

    def path_of(v):
        return v.value.path if v is not None and v.kind == "const" and isinstance(v.value, _PathObj) else None

    def cv(call, target, st):
        w = holder["w"]
        a = w.cur_args or []
        d = dotted(call.func) or ""
        if d in ("type",) and len(a) == 1 and path_of(a[0]):
            return Const(_PathObj(f"type({path_of(a[0])})"))
        if d in ("str", "repr") and len(a) == 1 and path_of(a[0]):
            # (the text of an exception quotes the selector, which the client chooses: per cent signs included)
            return Const(f"<{d}({path_of(a[0])}) 100%.txt %s %(x)d>")
        if d.endswith("logger.log") and a:
            prev = st.facts.get("__logged")
            prev = prev.value if prev is not None and prev.kind == "const" else ()
            st.facts["__logged"] = Const(prev + ((str(a[0].value) if a[0].kind == "const" else None),))
            return Const(None)
        if d == "getattr" and len(a) >= 2 and path_of(a[0]) and a[1].kind == "const":
            return Const(_PathObj(f"{path_of(a[0])}.{a[1].value}"))
        if d in ("isinstance", "hasattr") and a and path_of(a[0]):
            return Const(True)
        return None

    w = Walker(prog, ctx.resolver, call_value=cv, exact_loops=True, unroll=4,
               inline=lambda fn, t, d: d < 3 and fn.module.name.startswith("pygopherd") and fn is not lg and fn.name != "log")
    holder["w"] = w
    env = {params[0]: Const(_PathObj("exception")), params[1]: Const(_PathObj("protocol") if with_proto else None)}
    if len(params) > 2:
        env[params[2]] = Const(_PathObj("handler") if with_proto else None)
    try:
        paths = w.run(lg, None, env=env)
    except Exception:
        return None
    texts = []
    for p in paths:
        if p.kind == "raise" and str(p.value) in ("TypeError", "ValueError", "KeyError", "IndexError"):
            return [f"<log() raises {p.value}>"]
        if p.kind == "raise":
            return None
        lv = p.state.facts.get("__logged")
        if lv is None or lv.kind != "const" or not lv.value or any(x is None for x in lv.value):
            return None
        texts.extend(lv.value)
    return texts or None


def body_writer_obligations(ctx, rep, rule):
    """A failure of the client connection while a body is being sent has to reach the connection handler as the
    exception it is (that is what gets logged under its own class): no handler or protocol body writer catches an
    I/O error around a call that writes to the client and turns it into something else."""
    prog = ctx.prog
    targets = []
    for H in ctx.handler_classes():
        m = prog.resolve_method(H, "write")
        if m is not None:
            targets.append((m, H))
    for P in ctx.protocol_classes():
        m = prog.resolve_method(P, "handlerwrite")
        if m is not None:
            targets.append((m, P))
    vr = ctx.cls("handlers.base.VFS_Real")
    if vr is not None:
        for V in prog.subclasses(vr):
            m = prog.resolve_method(V, "copyto")
            if m is not None:
                targets.append((m, V))
    seen = set()
    n = 0
    for m, C in targets:
        if m in seen:
            continue
        seen.add(m)
        wparams = [p for p in m.params if p in ("wfile", "fd", "outfile", "out", "ofile") or p.endswith("wfile")]
        if not wparams:
            wparams = [p for p in m.params[1:2]] if m.name == "write" else []
        n += 1
        problems = []
        for tr in [x for x in ast.walk(m.node) if isinstance(x, ast.Try)]:
            writes = [c for st_ in tr.body for c in ast.walk(st_) if isinstance(c, ast.Call) and (
                any(isinstance(a, ast.Name) and a.id in wparams for a in c.args) or
                any(isinstance(k.value, ast.Name) and k.value.id in wparams for k in c.keywords) or
                (isinstance(c.func, ast.Attribute) and isinstance(c.func.value, ast.Name) and c.func.value.id in wparams))]
            if not writes:
                continue
            for hd in tr.handlers:
                if not (catches(hd, "BrokenPipeError") or catches(hd, "OSError")):
                    continue
                # unchanged re-raise: a bare `raise`, or `raise <the bound name>`
                last = hd.body[-1] if hd.body else None
                same = isinstance(last, ast.Raise) and (last.exc is None or (isinstance(last.exc, ast.Name) and last.exc.id == hd.name and last.cause is None))
                others = [x for st_ in hd.body for x in ast.walk(st_) if isinstance(x, (ast.Raise, ast.Return)) and x is not last]
                if not same or others:
                    problems.append(f"`except {norm(hd.type) if hd.type is not None else ''}` around `{norm(writes[0])[:40]}` (line {hd.lineno})")
        rep.add(rule, f"{m.qualname}: connection errors while sending pass unchanged", not problems, ctx.where(m),
                ("; ".join(problems[:2]) + " also catches the client connection failing (BrokenPipeError, ConnectionResetError, timeouts are OSErrors) and "
                 "answers or re-raises something else: the failure is logged under another class, or not at all") if problems else "",
                key=f"{rule}|{m.qualname}")
