"""C05  Listings only advertise what the server will serve (render/parse agreement).

R05a  codec agreement: each URL-based protocol percent-encodes local selectors with the
      codec (UTF-8, surrogateescape) its request parser decodes with, exactly one
      decoding layer, and the encoder's safe characters exclude the parser's separators
R05b  prefix agreement: the WAP prefix added when rendering is the configured value the
      request test strips; the Gemini query prefix is one class constant on both sides
R05c  virtual selectors: the separator genargsselector() emits is one Virtual.__init__ splits on
R05d  children come from the chain: each child selector is selectorbase + "/" + name and
      its entry comes from getHandler() on that same string; mailbox message selectors
      rendered by the folder handlers match the message handlers' pattern
That a followed link is answered with success is not decided.
"""

from __future__ import annotations

import ast

from ..effects import Effects
from ..facts import expand_ast, regex_pieces
from ..loader import dotted, norm


def _kw(call, name, pos=None):
    for k in call.keywords:
        if k.arg == name:
            return k.value
    if pos is not None and len(call.args) > pos:
        return call.args[pos]
    return None


def _const(node):
    return node.value if isinstance(node, ast.Constant) else None


def encoder_codec(call, func):
    """(encoding, errors, safe) of a urllib.parse.quote*() call on a selector."""
    arg = call.args[0] if call.args else None
    arg = expand_ast(arg, func) if arg is not None else None
    enc = _const(_kw(call, "encoding", 2)) if _kw(call, "encoding", 2) is not None else None
    err = _const(_kw(call, "errors", 3)) if _kw(call, "errors", 3) is not None else None
    safe = _const(_kw(call, "safe", 1)) if _kw(call, "safe", 1) is not None else "/"
    # quote(s.encode(errors=E)) == quote(s, errors=E)
    if isinstance(arg, ast.Call) and isinstance(arg.func, ast.Attribute) and arg.func.attr == "encode":
        e2 = _kw(arg, "errors", 1)
        c2 = _kw(arg, "encoding", 0)
        return ((_const(c2) or "utf-8").lower().replace("-", ""), _const(e2) or "strict", safe)
    return ((enc or "utf-8").lower().replace("-", ""), err or "strict", safe)


def check(ctx, rep):
    prog = ctx.prog
    eff = Effects(prog, ctx.resolver)
    rep.rule("R05a", "selector encoder (renderobjinfo) and decoder (handle) of each URL-based protocol use the same codec; one decoding layer; safe chars exclude separators", floor=3)
    rep.rule("R05b", "WAP prefix: same configuration value rendered and stripped; Gemini query prefix: same class constant", floor=2)
    rep.rule("R05c", "virtual selector separator emitted is one the parser splits on", floor=1)
    rep.rule("R05d", "child selectors are selectorbase/name resolved through the handler chain; folder and message handlers agree on the argument flag", floor=3)
    pb = ctx.cls("protocols.base.BaseGopherProtocol")

    # ------------------------------------------------------------------ R05a
    for P in ctx.protocol_classes():
        ro = prog.resolve_method(P, "renderobjinfo")
        h = prog.resolve_method(P, "handle")
        if ro is None or h is None or ro.cls is not P:
            continue
        QUOTES = ("urllib.parse.quote", "urllib.parse.quote_plus", "urllib.parse.quote_from_bytes")
        encs = [(c, t) for c, t in eff.calls_of(ro, P) if t.kind == "ext" and t.ext in QUOTES]
        helper_problems = []
        enc_funcs = {id(c): ro for c, _ in encs}
        # encoders in helpers reached through self-calls
        seen_h, work = set(), [ro]
        while work:
            f0 = work.pop()
            if f0 in seen_h:
                continue
            seen_h.add(f0)
            for c, t in eff.calls_of(f0, P):
                if t.kind == "repo" and t.bound_cls is not None:
                    for g in t.funcs:
                        if g not in seen_h and g.name not in ("getrenderstr", "getimgtag"):
                            work.append(g)
        for hf in seen_h:
            if hf is ro:
                continue
            hencs = [(c, t) for c, t in eff.calls_of(hf, P) if t.kind == "ext" and t.ext in QUOTES]
            if not hencs:
                continue
            for c, t in hencs:
                enc_funcs[id(c)] = hf
            encs.extend(hencs)
            # a quoting helper must quote on every path: no return of something that bypasses the encoder
            from ..facts import expand_ast as _ea

            for r in ast.walk(hf.node):
                if isinstance(r, ast.Return) and r.value is not None:
                    v = _ea(r.value, hf)
                    if not any(isinstance(x, ast.Call) and (dotted(x.func) or "").split(".")[-1] in ("quote", "quote_plus", "quote_from_bytes") for x in ast.walk(v)) \
                            and not (isinstance(v, ast.Constant)):
                        helper_problems.append(f"{hf.qualname} can return `{norm(r.value)[:40]}` without percent-encoding it: such a selector is advertised raw but decoded when requested")
        decs = [(c, t) for c, t in eff.calls_of(h, P) if t.kind == "ext" and t.ext in ("urllib.parse.unquote", "urllib.parse.unquote_plus", "urllib.parse.unquote_to_bytes")]
        if not encs:
            continue  # not a URL-based protocol
        problems = []
        # decoder of the selector: the unquote whose result (through locals) becomes self.selector
        sel_decs = []
        for c, t in decs:
            for n in ast.walk(h.node):
                if isinstance(n, ast.Assign) and any(norm(tg) == "self.selector" for tg in n.targets) and any(x is c for x in ast.walk(n.value)):
                    sel_decs.append((c, t))
        if not sel_decs:
            problems.append("handle() does not percent-decode the selector although links are percent-encoded")
        for c, t in sel_decs:
            derr = _const(_kw(c, "errors", 2)) or "replace"
            denc = (_const(_kw(c, "encoding", 1)) or "utf-8").lower().replace("-", "")
            inner = c.args[0] if c.args else None
            if isinstance(inner, ast.Call) and (dotted(inner.func) or "").split(".")[-1].startswith("unquote"):
                problems.append("the selector is percent-decoded twice")
            if isinstance(inner, ast.Attribute) and norm(inner) == "self.selector":
                # self.selector = unquote(self.selector): fine once; twice if another assignment does it again
                pass
            for ec, et in encs:
                eenc, eerr, safe = encoder_codec(ec, enc_funcs.get(id(ec), ro))
                if (eenc, eerr) != (denc, derr):
                    problems.append(f"links are encoded with ({eenc}, {eerr}) but requests are decoded with ({denc}, {derr}): "
                                    "names with bytes outside UTF-8 are advertised but cannot be fetched")
                if not isinstance(safe, (str, bytes)):
                    problems.append("safe characters of the encoder are not constant")
                elif any(ch in str(safe) for ch in " ?#%\t\r\n"):
                    problems.append(f"the encoder leaves {[ch for ch in ' ?#%' if ch in str(safe)]} unescaped, which the request parser treats as separators")
                if et.ext == "urllib.parse.quote_plus" and t.ext != "urllib.parse.unquote_plus":
                    problems.append("quote_plus is decoded with unquote (a '+' in a name turns into a space or vice versa)")
                if t.ext == "urllib.parse.unquote_plus" and et.ext != "urllib.parse.quote_plus":
                    problems.append("unquote_plus decodes '+' as space but links are encoded with quote")
        n_assign_decode = sum(1 for n in ast.walk(h.node) if isinstance(n, ast.Assign) and any(norm(tg) == "self.selector" for tg in n.targets)
                              and any(isinstance(x, ast.Call) and (dotted(x.func) or "").split(".")[-1].startswith("unquote") for x in ast.walk(n.value)))
        if n_assign_decode > 1:
            problems.append("more than one decoding layer is applied to the selector")
        problems.extend(helper_problems)
        rep.add("R05a", f"{P.qualname}: encode/decode agree", not problems, ctx.where(ro), "; ".join(sorted(set(problems))),
                key=f"R05a|{P.qualname}")
        rep.analysed(ro.qualname, h.qualname)

    # ------------------------------------------------------------------ R05b
    wap = ctx.cls("protocols.wap.WAPProtocol")
    if wap is not None:
        can = prog.resolve_method(wap, "canhandlerequest")
        grs = prog.resolve_method(wap, "getrenderstr")
        problems = []
        key_cfg = None
        for n in ast.walk(can.node):
            if isinstance(n, ast.Call) and isinstance(n.func, ast.Attribute) and n.func.attr == "get" and len(n.args) == 2 \
                    and isinstance(n.args[1], ast.Constant) and "wap" in str(n.args[1].value).lower():
                key_cfg = (n.args[0].value, n.args[1].value) if isinstance(n.args[0], ast.Constant) else None
        strip_ok = False
        for n in ast.walk(can.node):
            if isinstance(n, ast.Call) and isinstance(n.func, ast.Attribute) and n.func.attr == "startswith" and n.args:
                a = expand_ast(n.args[0], can)
                if isinstance(a, ast.Call) and isinstance(a.func, ast.Attribute) and a.func.attr == "get" and key_cfg and \
                        [x.value for x in a.args if isinstance(x, ast.Constant)] == list(key_cfg):
                    strip_ok = True
                if norm(n.args[0]) == "self.waptop":
                    strip_ok = True
        if not strip_ok:
            problems.append("the request test does not strip the configured WAP prefix")
        render_vals = set()
        if grs is not None:
            for n in ast.walk(grs.node):
                if isinstance(n, ast.BinOp) and isinstance(n.op, ast.Add) and norm(n.right) == "url":
                    render_vals.add(norm(n.left))
        if render_vals != {"self.waptop"}:
            problems.append(f"links are rendered with prefix {sorted(render_vals) or 'none'}, not with the configured value the request test strips")
        # self.waptop must be that same option
        srcs = set()
        for c in prog.mro(wap):
            for m in c.methods.values():
                for n in ast.walk(m.node):
                    if isinstance(n, ast.Assign) and any(norm(t) == "self.waptop" for t in n.targets):
                        v = expand_ast(n.value, m)
                        if isinstance(v, ast.Call) and isinstance(v.func, ast.Attribute) and v.func.attr == "get":
                            srcs.add(tuple(x.value for x in v.args if isinstance(x, ast.Constant)))
                        else:
                            srcs.add(("?", norm(n.value)))
        if key_cfg and srcs != {tuple(key_cfg)}:
            problems.append(f"self.waptop comes from {sorted(srcs)}, the request test uses {key_cfg}")
        rep.add("R05b", "WAP prefix rendered = prefix stripped", not problems, ctx.where(can), "; ".join(problems), key="R05b|wap")
    gem = ctx.cls("protocols.gemini.GeminiProtocol")
    if gem is not None:
        ro = prog.resolve_method(gem, "renderobjinfo")
        h = prog.resolve_method(gem, "handle")
        hi = prog.resolve_method(gem, "handle_input")
        problems = []
        def uses(f, attr="self.query_prefix"):
            return f is not None and any(isinstance(n, ast.Attribute) and norm(n) == attr for n in ast.walk(f.node))
        if not uses(ro):
            problems.append("search links are not rendered with self.query_prefix")
        if not uses(h):
            problems.append("handle() does not recognise self.query_prefix")
        if hi is not None and not uses(hi):
            problems.append("handle_input() does not strip self.query_prefix")
        qp = prog.class_attr(gem, "query_prefix")
        if not (isinstance(qp, ast.Constant) and isinstance(qp.value, str) and qp.value.startswith("/")):
            problems.append("query_prefix is not a constant path prefix")
        rep.add("R05b", "Gemini query prefix: one constant on both sides", not problems, ctx.where(ro or h), "; ".join(problems), key="R05b|gemini")

    # ------------------------------------------------------------------ R05c
    virt = ctx.cls("handlers.virtual.Virtual")
    if virt is None:
        rep.fail("R05c", "Virtual", detail="virtual handler base not found")
    else:
        gen = prog.resolve_method(virt, "genargsselector")
        init = virt.methods.get("__init__")
        emitted = set()
        if gen is not None:
            for r in ast.walk(gen.node):
                if isinstance(r, ast.Return) and r.value is not None:
                    for n in ast.walk(r.value):
                        if isinstance(n, ast.Constant) and isinstance(n.value, str) and n.value:
                            emitted.add(n.value)
        accepted = set()
        if init is not None:
            for n in ast.walk(init.node):
                if isinstance(n, ast.Call) and isinstance(n.func, ast.Attribute) and n.func.attr in ("find", "index", "split", "partition") \
                        and n.args and isinstance(n.args[0], ast.Constant):
                    accepted.add(n.args[0].value)
                if isinstance(n, ast.Compare) and isinstance(n.ops[0], ast.In) and isinstance(n.left, ast.Constant):
                    accepted.add(n.left.value)
        ok = bool(emitted) and emitted <= accepted and len(emitted) == 1
        rep.add("R05c", f"separator {sorted(emitted)} is parsed ({sorted(accepted)})", ok, ctx.where(gen or init),
                "" if ok else f"genargsselector() emits {sorted(emitted)} but Virtual.__init__ splits on {sorted(accepted)}: virtual items listed in folders would not be found",
                key="R05c|virtual")

    # ------------------------------------------------------------------ R05d
    dirbase = ctx.cls("handlers.dir.DirHandler")
    gh = ctx.func("handlers.HandlerMultiplexer.getHandler")
    pe = prog.resolve_method(dirbase, "prep_entries") if dirbase else None
    if pe is None or gh is None:
        rep.fail("R05d", "DirHandler.prep_entries", detail="child-entry construction not found")
    else:
        problems = []
        loops = [n for n in ast.walk(pe.node) if isinstance(n, ast.For)]
        calls = [c for c, t in eff.calls_of(pe, dirbase) if t.kind == "repo" and gh in t.funcs]
        if not calls:
            problems.append("child entries are not resolved through the handler chain")
        for c in calls:
            loop = next((l for l in loops if any(x is c for x in ast.walk(l))), None)
            var = norm(loop.target) if loop is not None else None
            a0 = expand_ast(c.args[0], pe) if c.args else None
            from ..structure import concat_pieces

            got = concat_pieces(a0) if a0 is not None else None
            want = [("expr", "self.selectorbase"), ("lit", "/"), ("expr", var)]
            if got != want:
                problems.append(f"the child selector is `{norm(a0) if a0 is not None else '?'}`, not selectorbase + '/' + {var}")
            kw = {k.arg: norm(k.value) for k in c.keywords}
            if kw.get("vfs") != "self.vfs" and not (len(c.args) >= 6 and norm(c.args[5]) == "self.vfs"):
                problems.append("children are looked up on a different VFS than their directory")
        ge_calls = [n for n in ast.walk(pe.node) if isinstance(n, ast.Call) and isinstance(n.func, ast.Attribute) and n.func.attr == "getentry"]
        if not ge_calls:
            problems.append("the listed entry is not the one the child's own handler produces")
        rep.add("R05d", f"{pe.qualname}: child = selectorbase/name via getHandler", not problems, ctx.where(pe), "; ".join(problems), key="R05d|prep_entries")
    # folder <-> message handlers
    fh = ctx.cls("handlers.mbox.FolderHandler")
    mh = ctx.cls("handlers.mbox.MessageHandler")
    if fh is not None and mh is not None:
        def flag(C):
            m = prog.resolve_method(C, "getargflag")
            if m is None:
                return None
            rets = [n.value for n in ast.walk(m.node) if isinstance(n, ast.Return) and n.value is not None]
            return rets[0].value if len(rets) == 1 and isinstance(rets[0], ast.Constant) else None
        mflags = {flag(M): M for M in prog.subclasses(mh, strict=True)}
        for F in prog.subclasses(fh, strict=True):
            fl = flag(F)
            ok = fl is not None and fl in mflags
            rep.add("R05d", f"{F.qualname}: message selectors '{fl}<n>' have a handler", ok, ctx.where(F.module, F.node),
                    "" if ok else f"no message handler recognises the flag {fl!r}: every message listed in the folder would be not-found",
                    key=f"R05d|{F.qualname}|flag")
        prep = prog.resolve_method(fh, "prepare")
        can = prog.resolve_method(mh, "canhandlerequest")
        problems = []
        if prep is not None:
            en = [n for n in ast.walk(prep.node) if isinstance(n, ast.Call) and dotted(n.func) == "enumerate"]
            start = None
            for e in en:
                for k in e.keywords:
                    if k.arg == "start":
                        start = _const(k.value)
                if len(e.args) > 1:
                    start = _const(e.args[1])
            if en and (start is None or start < 1):
                problems.append("messages are numbered from 0 but the message handler only accepts numbers >= 1")
            sel = [n for n in ast.walk(prep.node) if isinstance(n, ast.Call) and isinstance(n.func, ast.Attribute) and n.func.attr == "genargsselector"]
            if not sel or not any("getargflag()" in norm(s) and "str(" in norm(s) for s in sel):
                problems.append("message selectors are not built as genargsselector(flag + number)")
        if can is not None:
            pats = [n for n in ast.walk(can.node) if isinstance(n, ast.Call) and (dotted(n.func) or "") in ("re.search", "re.match", "re.fullmatch")]
            okp = False
            for pcall in pats:
                pieces = regex_pieces(pcall.args[0], can) if pcall.args else None
                if pieces and any(p is None for p in pieces) and any(p and "\\d+" in p for p in pieces):
                    okp = True
            if not okp:
                problems.append("the message handler does not parse <flag><digits>")
        rep.add("R05d", "folder handlers render what message handlers parse", not problems, ctx.where(prep or can), "; ".join(problems), key="R05d|mbox")
