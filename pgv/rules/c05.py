"""C05  Listings only advertise what the server will serve (render/parse agreement).

R05a  codec agreement: each URL-based protocol percent-encodes local selectors with the
      codec (UTF-8, surrogateescape) its request parser decodes with, exactly one
      decoding layer, and the encoder's safe characters exclude the parser's separators
R05b  prefix agreement: the WAP prefix added when rendering is the configured value the
      request test strips; the Gemini query prefix is one class constant on both sides
R05f  prefix boundary: the WAP prefix claims the prefix itself and what lies below it, nothing that only starts alike
R05c  virtual selectors: the separator genargsselector() emits is one Virtual.__init__ splits on
R05e  the real part Virtual.__init__ settles on never contains a separator (so real|args, as
      built by genargsselector(), is cut where it was joined)
R05d  children come from the chain: each child selector is selectorbase + "/" + name and
      its entry comes from getHandler() on that same string; mailbox message selectors
      rendered by the folder handlers match the message handlers' pattern
That a followed link is answered with success is not decided.
"""

from __future__ import annotations

import ast

from ..effects import Effects
from ..facts import expand_ast, regex_pieces
from ..loader import dotted, norm
from ..paths import truth


def _kw(call, name, pos=None):
    for k in call.keywords:
        if k.arg == name:
            return k.value
    if pos is not None and len(call.args) > pos:
        return call.args[pos]
    return None


def _const(node):
    return node.value if isinstance(node, ast.Constant) else None


def encoder_codec(call, func):
    """(encoding, errors, safe) of a urllib.parse.quote*() call on a selector."""
    arg = call.args[0] if call.args else None
    arg = expand_ast(arg, func) if arg is not None else None
    enc = _const(_kw(call, "encoding", 2)) if _kw(call, "encoding", 2) is not None else None
    err = _const(_kw(call, "errors", 3)) if _kw(call, "errors", 3) is not None else None
    safe = _const(_kw(call, "safe", 1)) if _kw(call, "safe", 1) is not None else "/"
    # quote(s.encode(errors=E)) == quote(s, errors=E)
    if isinstance(arg, ast.Call) and isinstance(arg.func, ast.Attribute) and arg.func.attr == "encode":
        e2 = _kw(arg, "errors", 1)
        c2 = _kw(arg, "encoding", 0)
        return ((_const(c2) or "utf-8").lower().replace("-", ""), _const(e2) or "strict", safe)
    return ((enc or "utf-8").lower().replace("-", ""), err or "strict", safe)


def _absent_fact(node, truthv, sep, subject="self.selector"):
    """Does deciding `node` as `truthv` establish that `sep` does not occur in the selector?"""
    if isinstance(node, ast.UnaryOp) and isinstance(node.op, ast.Not):
        return _absent_fact(node.operand, not truthv, sep, subject)
    if isinstance(node, ast.Compare) and len(node.ops) == 1:
        l, op, r = node.left, node.ops[0], node.comparators[0]
        if isinstance(l, ast.Constant) and l.value == sep and norm(r) == subject:
            return (isinstance(op, ast.In) and not truthv) or (isinstance(op, ast.NotIn) and truthv)
        if isinstance(l, ast.Call) and isinstance(l.func, ast.Attribute) and l.func.attr == "find" and norm(l.func.value) == subject \
                and l.args and isinstance(l.args[0], ast.Constant) and l.args[0].value == sep:
            if isinstance(r, ast.UnaryOp) and isinstance(r.op, ast.USub) and isinstance(r.operand, ast.Constant) and r.operand.value == 1:
                return (isinstance(op, ast.Eq) and truthv) or (isinstance(op, ast.NotEq) and not truthv)
            if isinstance(r, ast.Constant) and r.value == 0:
                return (isinstance(op, ast.Lt) and truthv) or (isinstance(op, ast.GtE) and not truthv)
    return False


def _prefix_cut(value, defs, seps, subject="self.selector"):
    """Is `value` the part of the selector before an occurrence of one of `seps`?"""
    v = value
    if isinstance(v, ast.Name) and defs and v.id in defs:
        v = defs[v.id]
    # selector[:i] / selector[0:i] with i = selector.index(sep)/find(sep)
    if isinstance(v, ast.Subscript) and norm(v.value) == subject and isinstance(v.slice, ast.Slice) and v.slice.step is None \
            and (v.slice.lower is None or (isinstance(v.slice.lower, ast.Constant) and v.slice.lower.value == 0)) and v.slice.upper is not None:
        u = v.slice.upper
        if isinstance(u, ast.Name):
            return True  # index variable: its definitions are checked by the caller (all assignments are index()/find() of a separator)
        if isinstance(u, ast.Call) and isinstance(u.func, ast.Attribute) and u.func.attr in ("index", "find") and norm(u.func.value) == subject:
            return bool(u.args) and isinstance(u.args[0], ast.Constant) and u.args[0].value in seps
    # selector.partition(sep)[0] / selector.split(sep, 1)[0]
    if isinstance(v, ast.Subscript) and isinstance(v.slice, ast.Constant) and v.slice.value == 0 and isinstance(v.value, ast.Call) \
            and isinstance(v.value.func, ast.Attribute) and v.value.func.attr in ("partition", "split") and norm(v.value.func.value) == subject:
        a = v.value.args
        return bool(a) and isinstance(a[0], ast.Constant) and a[0].value in seps
    return False


def _virtual_structural(ctx, virt, seps):
    """genargsselector() emits real + sep + args, and the constructor cuts a requested selector at a
    separator: the two agree only if the `real` part the constructor settles on never contains a
    separator itself.  On every path of Virtual.__init__: selectorreal is a cut of the selector at a
    separator, or the whole selector on a path that has established no separator occurs in it."""
    from ..paths import Walker

    prog = ctx.prog
    init = virt.methods["__init__"]
    seps = {x for x in seps if isinstance(x, str)} or {"?", "|"}

    def inline(f, t, d):
        # methods of the class and small module-level helpers of its module (a function that finds the separator)
        return d < 3 and f.name != "__init__" and (f.cls is virt or (f.cls is None and f.module is virt.module))

    w = Walker(prog, ctx.resolver, inline=inline, merge_loops=True)
    problems = set()
    n_paths = 0
    # index variables: every assignment is selector.index/find(<separator>)
    for n in ast.walk(init.node):
        if isinstance(n, ast.Assign) and len(n.targets) == 1 and isinstance(n.targets[0], ast.Name):
            used_as_cut = any(isinstance(x, ast.Subscript) and isinstance(x.slice, ast.Slice) and x.slice.upper is not None
                              and isinstance(x.slice.upper, ast.Name) and x.slice.upper.id == n.targets[0].id and norm(x.value) == "self.selector"
                              for m in ast.walk(init.node) if isinstance(m, ast.Assign) and any(norm(t) == "self.selectorreal" for t in m.targets)
                              for x in ast.walk(m.value))
            if used_as_cut:
                v = n.value
                okv = isinstance(v, ast.Call) and isinstance(v.func, ast.Attribute) and v.func.attr in ("index", "find") \
                    and norm(v.func.value) == "self.selector" and v.args and isinstance(v.args[0], ast.Constant) and v.args[0].value in seps
                if not okv and not (isinstance(v, ast.Call) and (dotted(v.func) or "") == "min"):
                    problems.add(f"the cut position `{norm(n)[:50]}` is not the position of a separator")
    for p in w.run(init, virt):
        if p.kind == "raise":
            continue
        n_paths += 1
        last = None
        absent = set()
        for e in p.events:
            if e.kind == "test" and e.extra in (True, False):
                for sp in seps:
                    if _absent_fact(e.node, e.extra, sp):
                        absent.add(sp)
            if e.kind == "assign" and e.target == "self.selectorreal" and isinstance(e.node, ast.Assign):
                last = (e, set(absent))
        if last is None:
            problems.add("a constructor path leaves selectorreal unset")
            continue
        e, known_absent = last
        val = e.node.value
        if norm(val) == "self.selector" or (isinstance(val, ast.Name) and e.defs and val.id in e.defs and norm(e.defs[val.id]) == "self.selector"):
            missing = sorted(seps - known_absent)
            if missing:
                problems.add(f"the whole selector is taken as the real part on a path that has not excluded {missing} from it: "
                             "the item links genargsselector() builds from it are cut at that character when they are requested")
        elif not _prefix_cut(val, e.defs, seps):
            problems.add(f"selectorreal = `{norm(val)[:50]}` is neither the whole selector nor a cut at a separator")
    if not n_paths:
        problems.add("no completing constructor path")
    return problems


REALS = ["/box", "/dir/in.box", "/a b", "/caf\udcc3\udca9.mbox", "/"]
ARGS = ["/MBOX-MESSAGE/1", "/MAILDIR-MESSAGE/12", "x"]


def virtual_roundtrip(ctx, rep, rule, virt, seps, reals=None, argsets=None, what=None):
    """genargsselector(args) of an object whose real selector is R must be parsed back by the constructor
    into (R, args).  Both methods are evaluated by the path walker on representative constants (R without
    separators, the argument strings the folder handlers emit); every path the constructor can take for
    that input has to give the same answer.  Where the walker cannot fold a construct to a constant the
    structural form of the rule decides instead."""
    from ..paths import Const, Walker

    prog = ctx.prog
    init = virt.methods["__init__"]
    gen = prog.resolve_method(virt, "genargsselector")
    problems = set()
    undetermined = False

    def inline(f, t, d):
        return d < 3 and f.name != "__init__" and (f.cls is virt or (f.cls is None and f.module is virt.module))

    n_cases = 0
    for R in (reals or REALS):
        # no separator: the whole selector is the real part
        cases = [(R, R, "")]
        for A in (argsets or ARGS):
            joined = None
            if gen is not None:
                wg = Walker(prog, ctx.resolver, assumptions={"self.selectorreal": Const(R)}, sticky={"self.selectorreal"}, inline=inline)
                outs = {p.value.value if (p.kind == "return" and p.value.kind == "const") else None
                        for p in wg.run(gen, virt, env={gen.params[1] if len(gen.params) > 1 else "args": Const(A)})}
                if len(outs) == 1 and None not in outs:
                    joined = next(iter(outs))
            if joined is None:
                undetermined = True
                continue
            cases.append((joined, R, A))
        for word, want_real, want_args in cases:
            n_cases += 1
            w = Walker(prog, ctx.resolver, assumptions={"self.selector": Const(word)}, sticky={"self.selector"}, inline=inline)
            for p in w.run(init, virt):
                if p.kind == "raise":
                    problems.add(f"the constructor can fail for the selector {word!r}")
                    continue
                real, args = p.state.facts.get("self.selectorreal"), p.state.facts.get("self.selectorargs")
                if real is None or args is None or real.kind != "const" or args.kind != "const":
                    undetermined = True
                    continue
                if (real.value, args.value) != (want_real, want_args):
                    how = "" if word == want_real else f" (what genargsselector() gives for {want_real!r} and {want_args!r})"
                    problems.add(f"the selector {word!r}{how} can be taken apart as real={real.value!r} args={args.value!r} "
                                 f"instead of {want_real!r} / {want_args!r}: the item links a folder listing advertises would not be found")
    if undetermined and not problems:
        problems |= _virtual_structural(ctx, virt, seps)
    rep.add(rule, f"{init.qualname}: {what or 'parses genargsselector() output back into (real, args)'} [{n_cases} cases]", not problems, ctx.where(init),
            "; ".join(sorted(problems)[:4]), key=f"{rule}|virtual-init")


def _mail_sequence(expr, func, defs=None):
    """Canonical text of the message sequence an expression denotes: the mailbox itself is MBOX whether it is spelled
    self.mbox, self.openmailbox() or iter(...) of those; generator variables are renamed positionally."""
    import copy

    e = expand_ast(expr, func, defs) if defs else expand_ast(expr, func)
    e = copy.deepcopy(e)

    class N(ast.NodeTransformer):
        def __init__(self):
            self.ren = {}

        def visit_Call(self, n):
            self.generic_visit(n)
            d = dotted(n.func) or ""
            if d in ("iter", "list", "tuple") and len(n.args) == 1:
                return n.args[0]
            if isinstance(n.func, ast.Attribute) and n.func.attr in ("openmailbox", "itervalues", "values", "__iter__") and dotted(n.func.value) in ("self", "self.mbox"):
                return ast.Name(id="MBOX", ctx=ast.Load())
            return n

        def visit_Attribute(self, n):
            if norm(n) == "self.mbox":
                return ast.Name(id="MBOX", ctx=ast.Load())
            return self.generic_visit(n)

        def visit_comprehension(self, n):
            if isinstance(n.target, ast.Name):
                self.ren[n.target.id] = f"_v{len(self.ren)}"
            return self.generic_visit(n)

        def visit_Name(self, n):
            if n.id in self.ren:
                return ast.Name(id=self.ren[n.id], ctx=n.ctx)
            return n

    tr = N()
    # comprehension targets are visited after the element: rename in two passes
    for c in ast.walk(e):
        if isinstance(c, ast.comprehension) and isinstance(c.target, ast.Name):
            tr.ren.setdefault(c.target.id, f"_v{len(tr.ren)}")
    e = tr.visit(e)
    try:
        return ast.unparse(ast.fix_missing_locations(e))
    except Exception:
        return norm(expr)


def mail_sequence_obligations(ctx, rep, rule):
    """The number in a message link counts positions in the sequence the folder enumerates; the message handler has to
    step through the same sequence (same mailbox, same filter - or none on both sides)."""
    prog = ctx.prog
    fh = ctx.cls("handlers.mbox.FolderHandler")
    mh = ctx.cls("handlers.mbox.MessageHandler")
    if fh is None or mh is None:
        return
    from ..structure import helper_calls

    fseq, mseq = set(), set()
    prep = prog.resolve_method(fh, "prepare")
    for fn in ([prep] if prep else []) + [g for g, _, _, _ in (helper_calls(prog, ctx.resolver, prep, fh, depth=2) if prep else [])]:
        for n in ast.walk(fn.node):
            if isinstance(n, ast.Call) and dotted(n.func) == "enumerate" and n.args:
                fseq.add(_mail_sequence(n.args[0], fn))
    gm = prog.resolve_method(mh, "getmessage")
    if gm is not None:
        from ..paths import Walker

        for p in Walker(prog, ctx.resolver, merge_loops=True).run(gm, mh):
            for e in p.events:
                if e.kind == "call" and dotted(e.node.func) == "next" and e.node.args:
                    mseq.add(_mail_sequence(e.node.args[0], gm, e.defs))
                if e.kind == "call" and dotted(e.node.func) in ("itertools.islice", "islice") and e.node.args:
                    mseq.add(_mail_sequence(e.node.args[0], gm, e.defs))
        for n in ast.walk(gm.node):
            if isinstance(n, ast.For) and isinstance(n.iter, ast.Call) and dotted(n.iter.func) == "enumerate" and n.iter.args:
                mseq.add(_mail_sequence(n.iter.args[0], gm))
    ok = bool(fseq) and bool(mseq) and fseq == mseq
    rep.add(rule, f"folder numbers {sorted(fseq)} = message lookup steps through {sorted(mseq)}", ok, ctx.where(gm or prep),
            "" if ok else "the folder listing numbers messages by their position in one sequence and the message handler counts in another: "
            "links after a skipped message open a different message, the last ones none", key=f"{rule}|mail-sequence")


def folder_message_evaluation(ctx, rep, rule) -> bool:
    """True when the evaluation decided (obligations added); False = fall back to the structural form."""
    mail_sequence_obligations(ctx, rep, rule)
    from ..paths import Const, State, Walker

    prog = ctx.prog
    fh = ctx.cls("handlers.mbox.FolderHandler")
    mh = ctx.cls("handlers.mbox.MessageHandler")
    virt = ctx.cls("handlers.virtual.Virtual")
    if fh is None or mh is None or virt is None:
        return False
    folders = prog.subclasses(fh, strict=True)
    messages = prog.subclasses(mh, strict=True)
    results = []

    def emitted(F, index):
        prep = prog.resolve_method(fh, "prepare")
        if prep is None:
            return None
        loops = [n for n in ast.walk(prep.node) if isinstance(n, ast.For) and "enumerate" in norm(n.iter)]
        if len(loops) != 1 or not isinstance(loops[0].target, ast.Tuple) or not isinstance(loops[0].target.elts[0], ast.Name):
            return None
        en = loops[0].iter
        start = 0
        if isinstance(en, ast.Call):
            for k in en.keywords:
                if k.arg == "start" and isinstance(k.value, ast.Constant):
                    start = k.value.value
            if len(en.args) > 1 and isinstance(en.args[1], ast.Constant):
                start = en.args[1].value
        ivar = loops[0].target.elts[0].id
        w = Walker(prog, ctx.resolver, assumptions={"self.selectorreal": Const("/box")}, sticky={"self.selectorreal"},
                   inline=lambda fn, t, d: d < 4 and t.bound_cls is not None and fn.name not in ("getentry", "openmailbox"))
        w.frame = (prep, F)
        w._budget = 200000
        out = set()
        for kind, val, st in w.exec_block(loops[0].body, State(env={ivar: Const(index)}, facts={"self.selectorreal": Const("/box")})):
            for e in st.events:
                if e.kind == "call" and getattr(e.target, "kind", "") == "ctor" and e.target.cls is not None and prog.is_subclass(e.target.cls, mh):
                    a = (e.extra or {}).get("args") or []
                    out.add(a[0].value if a and a[0].kind == "const" and isinstance(a[0].value, str) else None)
        return (out, start)

    decided = True
    for F in folders:
        for k in (1, 12):
            em = emitted(F, k)  # the loop variable holds k when the selector is built
            if em is None:
                return False
            outs, start = em
            if None in outs or len(outs) != 1:
                decided = False
                continue
            results.append((F, k, next(iter(outs)), start))
    if not decided or not results:
        return False
    for F, idx, sel, start in results:
        problems = []
        if start < 1:
            problems.append(f"messages are numbered from {start} but message handlers only accept numbers >= 1")
        if "|" not in sel and "?" not in sel:
            problems.append(f"the listed selector {sel!r} carries no argument part")
            args = ""
        else:
            cut = min(i for i in (sel.find("?"), sel.find("|")) if i >= 0)
            args = sel[cut + 1:]
        number = idx  # the value the loop variable had when the selector was built
        takers = []
        for M in messages:
            can = prog.resolve_method(M, "canhandlerequest")
            if can is None:
                continue
            w = Walker(prog, ctx.resolver, assumptions={"self.selectorargs": Const(args), "self.selectorreal": Const("/box"),
                                                        "type(self.vfs) is not VFS_Real": Const(False), "type(self.vfs) is VFS_Real": Const(True)},
                       sticky={"self.selectorargs", "self.selectorreal"},
                       inline=lambda fn, t, d: d < 3 and t.bound_cls is not None)
            verdicts = set()
            nums = set()
            for p in w.run(can, M):
                if p.kind == "raise":
                    verdicts.add("raise")
                    continue
                t = truth(p.value)
                verdicts.add(t)
                if t is True:
                    mn = p.state.facts.get("self.message_num")
                    nums.add(mn.value if mn is not None and mn.kind == "const" else None)
            if verdicts == {True}:
                takers.append((M, nums))
            elif True in verdicts or None in verdicts:
                takers.append((M, {None}))
        if number >= 1:
            good = [M for M, nums in takers if nums == {number}]
            if len(good) < 1:
                problems.append(f"no message handler accepts the listed selector {sel!r} as message {number}: "
                                f"{[(M.name, sorted(map(str, n))) for M, n in takers]}")
        rep.add(rule, f"{F.qualname}: listed message {number} ({sel!r}) is recognised by a message handler", not problems, ctx.where(F.module, F.node),
                "; ".join(problems), key=f"{rule}|{F.qualname}|msg{number}")
    return True


def check(ctx, rep):
    prog = ctx.prog
    eff = Effects(prog, ctx.resolver)
    rep.rule("R05a", "selector encoder (renderobjinfo) and decoder (handle) of each URL-based protocol use the same codec; one decoding layer; safe chars exclude separators", floor=1)
    rep.rule("R05i", "neither the connection handler nor a protocol bounds the length of the request line or target (listed links can be long)", floor=4)
    rep.rule("R05h", "= R13e: names taken from file content (HTML titles, mail subjects) are whitespace-collapsed, so the tab-separated menu line keeps its fields", floor=2)
    rep.rule("R05b", "WAP prefix: same configuration value rendered and stripped; Gemini query prefix: same class constant", floor=2)
    rep.rule("R05g", "each URL-based protocol maps a request target to the selector it names (evaluated on 12 targets per protocol)", floor=3)
    rep.rule("R05f", "WAP prefix: only paths below the prefix are WAP by path; names merely starting with its letters are not", floor=6)
    rep.rule("R05c", "virtual selector separator emitted is one the parser splits on", floor=1)
    rep.rule("R05e", "virtual selectors round-trip: the real part Virtual.__init__ settles on never contains a separator", floor=1)
    rep.rule("R05d", "child selectors are selectorbase/name resolved through the handler chain; folder and message handlers agree on the argument flag", floor=3)
    rep.rule("R05j", "the member table of an archive is read in one place, the index of the archive VFS: listings are made from that index and "
             "requests are accepted by it, so a listed member is never refused by a second reading of the archive", floor=1)
    pb = ctx.cls("protocols.base.BaseGopherProtocol")
    archive_index_obligations(ctx, rep, eff, "R05j")
    rep.rule("R05l", "= R09a (selectors only): the selector a gophermap link advertises is the one written in the file - a line ends at the line feed "
             "and nowhere else, relative selectors get the directory in front - so the advertised object is the one that exists", floor=1)
    from .c09 import DIRS as _DIRS, LINES as _LINES, evaluate_prepare as _evaluate_prepare
    H_ = ctx.cls("handlers.gophermap.BuckGophermapHandler")
    prep_ = prog.resolve_method(H_, "prepare") if H_ else None
    if prep_ is None:
        rep.fail("R05l", "BuckGophermapHandler.prepare", detail="gophermap handler not found")
    else:
        selector_, base_ = _DIRS[0]
        got_, why_ = _evaluate_prepare(ctx, H_, prep_, selector_, [l for l, _ in _LINES])
        if got_ is None:
            rep.fail("R05l", f"{prep_.qualname}: selectors of a scripted gophermap", ctx.where(prep_), why_, key="R05l|undetermined")
        else:
            want_ = [exp[3].replace("{B}", base_) for _, exp in _LINES if exp[0] == "link"]
            have_ = [e[3] for e in got_[0] if e and e[0] == "link"]
            rep.add("R05l", f"{prep_.qualname}: selectors of a scripted gophermap [{len(want_)} links]", have_ == want_, ctx.where(prep_),
                    "" if have_ == want_ else f"the links advertise {[x for x in have_ if x not in want_][:3]!r}; the file names {[x for x in want_ if x not in have_][:3]!r}",
                    key="R05l|selectors")

    # ------------------------------------------------------------------ R05a
    for P in ctx.protocol_classes():
        ro = prog.resolve_method(P, "renderobjinfo")
        h = prog.resolve_method(P, "handle")
        if ro is None or h is None or not ctx.owns(P, ro):
            continue
        QUOTES = ("urllib.parse.quote", "urllib.parse.quote_plus", "urllib.parse.quote_from_bytes")
        encs = [(c, t) for c, t in eff.calls_of(ro, P) if t.kind == "ext" and t.ext in QUOTES]
        helper_problems = []
        enc_funcs = {id(c): ro for c, _ in encs}
        # encoders in helpers reached through self-calls
        seen_h, work = set(), [ro]
        while work:
            f0 = work.pop()
            if f0 in seen_h:
                continue
            seen_h.add(f0)
            for c, t in eff.calls_of(f0, P):
                if t.kind == "repo" and t.bound_cls is not None:
                    for g in t.funcs:
                        if g not in seen_h and g.name not in ("getrenderstr", "getimgtag"):
                            work.append(g)
        for hf in seen_h:
            if hf is ro:
                continue
            hencs = [(c, t) for c, t in eff.calls_of(hf, P) if t.kind == "ext" and t.ext in QUOTES]
            if not hencs:
                continue
            for c, t in hencs:
                enc_funcs[id(c)] = hf
            encs.extend(hencs)
            # a quoting helper must quote on every path it takes for a link to this server (no host, no port,
            # not a URL: selector): no return of something that bypasses the encoder
            from ..facts import expand_ast as _ea
            from ..paths import FALSY, Walker

            def _local_link(call, target, st):
                if isinstance(call.func, ast.Attribute) and call.func.attr in ("gethost", "getport") and not call.args:
                    return FALSY
                if (dotted(call.func) or "") in ("re.match", "re.search", "re.fullmatch") and call.args \
                        and isinstance(call.args[0], ast.Constant) and "URL:" in str(call.args[0].value):
                    return FALSY
                return None

            wk = Walker(prog, ctx.resolver, call_value=_local_link, merge_loops=True)
            for pth in wk.run(hf, P):
                if pth.kind != "return":
                    continue
                rets = [e for e in pth.events if e.kind == "return" and e.frame and e.frame[0] is hf]
                if not rets or not isinstance(rets[-1].node, ast.Return) or rets[-1].node.value is None:
                    continue
                r = rets[-1].node
                v = _ea(r.value, hf, rets[-1].defs) if rets[-1].defs else _ea(r.value, hf)
                if not any(isinstance(x, ast.Call) and (dotted(x.func) or "").split(".")[-1] in ("quote", "quote_plus", "quote_from_bytes") for x in ast.walk(v)) \
                        and not (isinstance(v, ast.Constant)):
                    msg = f"{hf.qualname} can return `{norm(r.value)[:40]}` for a link to this server without percent-encoding it: such a selector is advertised raw but decoded when requested"
                    if msg not in helper_problems:
                        helper_problems.append(msg)
        decs = [(c, t) for c, t in eff.calls_of(h, P) if t.kind == "ext" and t.ext in ("urllib.parse.unquote", "urllib.parse.unquote_plus", "urllib.parse.unquote_to_bytes")]
        if not encs:
            continue  # not a URL-based protocol
        problems = []
        # decoder of the selector: what self.selector holds when the handler is looked up, on every path that gets there
        from ..paths import Walker as _W
        from ..structure import attr_provenance

        UNQ = ("unquote", "unquote_plus", "unquote_to_bytes")
        sel_decs, layer_counts = [], set()
        seen_prov = set()
        from ..structure import inline_attr_setters

        _NOIN = ("write_status", "writedir", "gethandler", "renderobjinfo", "log", "adjust_mimetype", "adjustmimetype", "filenotfound", "headerslurp",
                 "handlerwrite", "renderdirstart", "renderdirend", "renderabstract", "canhandlerequest", "getrenderstr", "slashnormalize")
        _setters = inline_attr_setters(prog, "self.selector")
        for pth in _W(prog, ctx.resolver, merge_loops=True,
                      inline=lambda fn, t, d: _setters(fn, t, d) or (d < 3 and t.bound_cls is not None and fn.name not in _NOIN and fn.cls is not None
                                                                     and fn.cls.module.name.startswith("pygopherd.protocols"))).run(h, P):
            reached = [e for e in pth.events if e.kind == "call" and isinstance(e.node.func, ast.Attribute) and e.node.func.attr == "gethandler"]
            if not reached:
                continue
            prov = attr_provenance(pth, "self.selector", h, prog, ctx.resolver, P, upto=lambda ev: ev is reached[0])
            if prov is None or norm(prov) in seen_prov:
                continue
            seen_prov.add(norm(prov))

            def depth(n):
                here = 1 if isinstance(n, ast.Call) and (dotted(n.func) or "").split(".")[-1] in UNQ else 0
                return here + max([depth(c) for c in ast.iter_child_nodes(n)] or [0])

            layer_counts.add(depth(prov))
            for x in ast.walk(prov):
                if isinstance(x, ast.Call) and (dotted(x.func) or "").split(".")[-1] in UNQ:
                    ext = "urllib.parse." + (dotted(x.func) or "").split(".")[-1]
                    sel_decs.append((x, type("T", (), {"ext": ext})()))
        if not sel_decs:
            problems.append("handle() does not percent-decode the selector although links are percent-encoded")
        for c, t in sel_decs:
            derr = _const(_kw(c, "errors", 2)) or "replace"
            denc = (_const(_kw(c, "encoding", 1)) or "utf-8").lower().replace("-", "")
            for ec, et in encs:
                eenc, eerr, safe = encoder_codec(ec, enc_funcs.get(id(ec), ro))
                if (eenc, eerr) != (denc, derr):
                    problems.append(f"links are encoded with ({eenc}, {eerr}) but requests are decoded with ({denc}, {derr}): "
                                    "names with bytes outside UTF-8 are advertised but cannot be fetched")
                if not isinstance(safe, (str, bytes)):
                    problems.append("safe characters of the encoder are not constant")
                elif any(ch in str(safe) for ch in " ?#%\t\r\n"):
                    problems.append(f"the encoder leaves {[ch for ch in ' ?#%' if ch in str(safe)]} unescaped, which the request parser treats as separators")
                if et.ext == "urllib.parse.quote_plus" and t.ext != "urllib.parse.unquote_plus":
                    problems.append("quote_plus is decoded with unquote (a '+' in a name turns into a space or vice versa)")
                if t.ext == "urllib.parse.unquote_plus" and et.ext != "urllib.parse.quote_plus":
                    problems.append("unquote_plus decodes '+' as space but links are encoded with quote")
        if any(k > 1 for k in layer_counts):
            problems.append("more than one decoding layer is applied to the selector")
        if 0 in layer_counts and sel_decs:
            problems.append("a path reaches the handler lookup with a selector that was not percent-decoded")
        problems.extend(helper_problems)
        rep.add("R05a", f"{P.qualname}: encode/decode agree", not problems, ctx.where(ro), "; ".join(sorted(set(problems))),
                key=f"R05a|{P.qualname}")
        rep.analysed(ro.qualname, h.qualname)

    # ------------------------------------------------------------------ R05b
    wap = ctx.cls("protocols.wap.WAPProtocol")
    if wap is not None:
        can = prog.resolve_method(wap, "canhandlerequest")
        grs = prog.resolve_method(wap, "getrenderstr")
        problems = []
        key_cfg = None
        for n in ast.walk(can.node):
            if isinstance(n, ast.Call) and isinstance(n.func, ast.Attribute) and n.func.attr == "get" and len(n.args) == 2 \
                    and isinstance(n.args[1], ast.Constant) and "wap" in str(n.args[1].value).lower():
                key_cfg = (n.args[0].value, n.args[1].value) if isinstance(n.args[0], ast.Constant) else None
        # (that the request test strips exactly that prefix is decided by evaluation: R05f)
        if key_cfg is None:
            problems.append("the request test does not read the configured WAP prefix")
        # rendering: evaluated with self.waptop = "/WAPTOP": a link to this server ("/x") gets the prefix, an absolute URL does not
        if grs is None:
            problems.append("WAP link renderer not found")
        else:
            from ..paths import Const as _C, Walker as _Wk

            uparam = grs.params[2] if len(grs.params) > 2 else "url"
            for given, want in (("/x", "/WAPTOP/x"), ("gopher://other.example:70/1/x", "gopher://other.example:70/1/x")):
                got = set()
                wk = _Wk(prog, ctx.resolver, assumptions={"self.waptop": _C("/WAPTOP")}, sticky={"self.waptop"}, merge_loops=True)
                for pth in wk.run(grs, wap, env={uparam: _C(given)}):
                    if pth.kind == "raise":
                        continue
                    v = pth.state.env.get(uparam)
                    got.add(v.value if v is not None and v.kind == "const" else None)
                if got != {want}:
                    problems.append(f"a link target {given!r} is rendered as {sorted(map(str, got))} instead of {want!r} "
                                    "(links to this server must carry the configured prefix that the request test strips, others must not)")
        # self.waptop must be that same option
        srcs = set()
        for c in prog.mro(wap):
            for m in c.methods.values():
                for n in ast.walk(m.node):
                    if isinstance(n, ast.Assign) and any(norm(t) == "self.waptop" for t in n.targets):
                        v = expand_ast(n.value, m)
                        if isinstance(v, ast.Call) and isinstance(v.func, ast.Attribute) and v.func.attr == "get":
                            srcs.add(tuple(x.value for x in v.args if isinstance(x, ast.Constant)))
                        else:
                            srcs.add(("?", norm(n.value)))
        if key_cfg and srcs != {tuple(key_cfg)}:
            problems.append(f"self.waptop comes from {sorted(srcs)}, the request test uses {key_cfg}")
        rep.add("R05b", "WAP prefix rendered = prefix stripped", not problems, ctx.where(can), "; ".join(problems), key="R05b|wap")
    gem = ctx.cls("protocols.gemini.GeminiProtocol")
    if gem is not None:
        ro = prog.resolve_method(gem, "renderobjinfo")
        h = prog.resolve_method(gem, "handle")
        hi = prog.resolve_method(gem, "handle_input")
        problems = []
        def uses(f, attr="self.query_prefix"):
            return f is not None and any(isinstance(n, ast.Attribute) and norm(n) == attr for n in ast.walk(f.node))
        if not uses(ro):
            problems.append("search links are not rendered with self.query_prefix")
        if not uses(h):
            problems.append("handle() does not recognise self.query_prefix")
        if hi is not None and not uses(hi):
            problems.append("handle_input() does not strip self.query_prefix")
        qp = prog.class_attr(gem, "query_prefix")
        if not (isinstance(qp, ast.Constant) and isinstance(qp.value, str) and qp.value.startswith("/")):
            problems.append("query_prefix is not a constant path prefix")
        rep.add("R05b", "Gemini query prefix: one constant on both sides", not problems, ctx.where(ro or h), "; ".join(problems), key="R05b|gemini")

    wap_prefix_boundary(ctx, rep, "R05f")
    request_target_evaluation(ctx, rep, "R05g")
    rep.rule("R05o", "the protocols leave the file system to the handlers: no stat / exists / open and no file-system view of their own in "
             "pygopherd/protocols (a selector re-spelt on the real file system's say-so breaks links into archives and mailboxes)", floor=1)
    from ..effects import Effects as _Eff5
    protocol_fs_obligations(ctx, rep, _Eff5(prog, ctx.resolver), "R05o")
    rep.rule("R05n", "= R08g: the selector a link-file block advertises is the path it names (`./name`, `~/name`, relative, absolute, URL:, names "
             "that start with dots): getLinkItem evaluated on scripted blocks", floor=5)
    from .c08 import linkfile_text_obligations
    umn_ = ctx.cls("handlers.UMN.UMNDirHandler")
    if umn_ is not None:
        linkfile_text_obligations(ctx, rep, umn_, "R05n")
    rep.rule("R05m", "the links WAP renders lead back: a target below the WAP prefix is recognised (prefix taken off) and then served by handle(), "
             "which asks the recognition step again - evaluated in that order; the selector is the path below the prefix, taken off once", floor=1)
    wap_request_evaluation(ctx, rep, "R05m")
    request_length_obligations(ctx, rep, "R05i")
    from .c13 import name_sink_obligations
    name_sink_obligations(ctx, rep, "R05h", "text from file content becomes an entry name without whitespace collapsing: a TAB or line break in it shifts "
                          "the fields of the Gopher menu line, so the client follows a selector and host that are not the entry's")

    # ------------------------------------------------------------------ R05c
    virt = ctx.cls("handlers.virtual.Virtual")
    accepted = set()
    if virt is None or virt.methods.get("__init__") is None:
        rep.fail("R05c", "Virtual", detail="virtual handler base not found")
        virt = None
    else:
        virtual_roundtrip(ctx, rep, "R05c", virt, {"?", "|"}, reals=REALS[:1], argsets=ARGS[-1:], what="the separator genargsselector() emits is one the constructor splits on")

    # ------------------------------------------------------------------ R05e
    if virt is not None and virt.methods.get("__init__") is not None:
        virtual_roundtrip(ctx, rep, "R05e", virt, {"?", "|"})

    # ------------------------------------------------------------------ R05d
    dirbase = ctx.cls("handlers.dir.DirHandler")
    gh = ctx.func("handlers.HandlerMultiplexer.getHandler")
    pe = prog.resolve_method(dirbase, "prep_entries") if dirbase else None
    if pe is None or gh is None:
        rep.fail("R05d", "DirHandler.prep_entries", detail="child-entry construction not found")
    else:
        from ..paths import State, Walker
        from ..structure import concat_pieces, resolve_value

        problems = []
        loops = [n for n in ast.walk(pe.node) if isinstance(n, ast.For) and norm(n.iter) in ("self.files",)]
        if len(loops) != 1:
            problems.append(f"{len(loops)} loops over the file list")
        n_lookup = 0
        for loop in loops:
            var = norm(loop.target)
            # helpers of the directory handler that the loop body delegates to are part of it
            w = Walker(prog, ctx.resolver, merge_loops=True,
                       inline=lambda fn, t, d: d < 3 and t.bound_cls is not None and fn.cls is not None and prog.is_subclass(dirbase, fn.cls)
                       and fn.name not in ("prep_entriesappend",))
            w.frame = (pe, dirbase)
            w._budget = 200000
            for kind, val, st in w.exec_block(loop.body, State()):
                lookups = [e for e in st.events if e.kind == "call" and getattr(e.target, "kind", "") == "repo" and gh in e.target.funcs]
                entries = [e for e in st.events if e.kind == "call" and isinstance(e.node.func, ast.Attribute) and e.node.func.attr == "getentry"]
                if not lookups:
                    continue
                n_lookup += 1
                for e in lookups:
                    c = e.node
                    fn = e.frame[0] if e.frame else pe
                    a0 = resolve_value(c.args[0], fn, dirbase, e.defs or {}, prog, ctx.resolver) if c.args else None
                    got = concat_pieces(a0) if a0 is not None else None
                    want = [("expr", "self.selectorbase"), ("lit", "/"), ("expr", var)]
                    if got != want:
                        problems.append(f"the child selector is `{norm(a0) if a0 is not None else '?'}`, not selectorbase + '/' + {var}")
                    kw = {k.arg: norm(k.value) for k in c.keywords}
                    if kw.get("vfs") != "self.vfs" and not (len(c.args) >= 6 and norm(c.args[5]) == "self.vfs"):
                        problems.append("children are looked up on a different VFS than their directory")
                if kind != "raise" and not entries and not any(e.kind == "raise" for e in st.events):
                    problems.append("the listed entry is not the one the child's own handler produces")
        if loops and not n_lookup:
            problems.append("child entries are not resolved through the handler chain")
        problems = sorted(set(problems))
        rep.add("R05d", f"{pe.qualname}: child = selectorbase/name via getHandler", not problems, ctx.where(pe), "; ".join(problems), key="R05d|prep_entries")
    # folder <-> message handlers: what a folder lists is evaluated by the walker (message number 7 and 12 of a folder
    # whose real selector is /box) and handed to each message handler's own test, which has to accept it as that number
    if folder_message_evaluation(ctx, rep, "R05d"):
        return
    # folder <-> message handlers
    fh = ctx.cls("handlers.mbox.FolderHandler")
    mh = ctx.cls("handlers.mbox.MessageHandler")
    if fh is not None and mh is not None:
        def flag(C):
            m = prog.resolve_method(C, "getargflag")
            if m is None:
                return None
            rets = [n.value for n in ast.walk(m.node) if isinstance(n, ast.Return) and n.value is not None]
            return rets[0].value if len(rets) == 1 and isinstance(rets[0], ast.Constant) else None
        mflags = {flag(M): M for M in prog.subclasses(mh, strict=True)}
        for F in prog.subclasses(fh, strict=True):
            fl = flag(F)
            ok = fl is not None and fl in mflags
            rep.add("R05d", f"{F.qualname}: message selectors '{fl}<n>' have a handler", ok, ctx.where(F.module, F.node),
                    "" if ok else f"no message handler recognises the flag {fl!r}: every message listed in the folder would be not-found",
                    key=f"R05d|{F.qualname}|flag")
        prep = prog.resolve_method(fh, "prepare")
        can = prog.resolve_method(mh, "canhandlerequest")
        problems = []
        if prep is not None:
            en = [n for n in ast.walk(prep.node) if isinstance(n, ast.Call) and dotted(n.func) == "enumerate"]
            start = None
            for e in en:
                for k in e.keywords:
                    if k.arg == "start":
                        start = _const(k.value)
                if len(e.args) > 1:
                    start = _const(e.args[1])
            if en and (start is None or start < 1):
                problems.append("messages are numbered from 0 but the message handler only accepts numbers >= 1")
            sel = [n for n in ast.walk(prep.node) if isinstance(n, ast.Call) and isinstance(n.func, ast.Attribute) and n.func.attr == "genargsselector"]
            if not sel or not any("getargflag()" in norm(s) and "str(" in norm(s) for s in sel):
                problems.append("message selectors are not built as genargsselector(flag + number)")
        if can is not None:
            pats = [n for n in ast.walk(can.node) if isinstance(n, ast.Call) and (dotted(n.func) or "") in ("re.search", "re.match", "re.fullmatch")]
            okp = False
            for pcall in pats:
                pieces = regex_pieces(pcall.args[0], can) if pcall.args else None
                if pieces and any(p is None for p in pieces) and any(p and "\\d+" in p for p in pieces):
                    okp = True
            if not okp:
                problems.append("the message handler does not parse <flag><digits>")
        rep.add("R05d", "folder handlers render what message handlers parse", not problems, ctx.where(prep or can), "; ".join(problems), key="R05d|mbox")


# ---------------------------------------------------------------------------- R05f
def wap_prefix_boundary(ctx, rep, rule="R05f"):
    """Only request paths *below* the WAP prefix are WAP requests by their path alone: the prefix itself, prefix + '/...'
    and prefix + '?...'.  A name that merely starts with the same letters (/wapiti.txt with prefix /wap) has to go on to
    the header tests like any other HTTP request, or the plain HTTP view of that file is a different object.
    WAPProtocol.canhandlerequest is evaluated by the walker on representative paths."""
    from ..paths import Const, Walker

    prog = ctx.prog
    wap = ctx.cls("protocols.wap.WAPProtocol")
    can = prog.resolve_method(wap, "canhandlerequest") if wap else None
    if can is None:
        rep.fail(rule, "WAPProtocol.canhandlerequest", detail="WAP request test not found")
        return
    PREFIX = "/wap"
    cases = [("/wap", True), ("/wap/", True), ("/wap/docs/a.txt", True), ("/wap?searchrequest=x", True),
             ("/wapiti.txt", False), ("/wapping/x", False), ("/wa", False), ("/docs/wap", False)]
    for path, by_prefix in cases:
        def cv(call, target, st):
            d = dotted(call.func) or ""
            if d.endswith("canhandlerequest") and "HTTPProtocol" in d or (isinstance(call.func, ast.Attribute) and call.func.attr == "canhandlerequest"
                                                                          and norm(call.func.value).startswith("super(")):
                return Const(True)
            if isinstance(call.func, ast.Attribute) and call.func.attr == "get" and len(call.args) == 2 \
                    and isinstance(call.args[1], ast.Constant) and call.args[1].value == "waptop":
                return Const(PREFIX)
            return None

        facts = {"self.requestparts[1]": Const(path)}
        w = Walker(prog, ctx.resolver, assumptions=facts, call_value=cv)
        early, late, stripped = 0, 0, set()
        for p in w.run(can, wap, facts=dict(facts)):
            if p.kind == "raise":
                continue
            slurped = any(e.kind == "call" and isinstance(e.node.func, ast.Attribute) and e.node.func.attr == "headerslurp" for e in p.events)
            if p.kind == "return" and truth(p.value) is True and not slurped:
                early += 1
                v = p.state.facts.get("self.requestparts[1]")
                stripped.add(v.value if v is not None and v.kind == "const" else None)
            else:
                late += 1
        problems = []
        if by_prefix:
            if late or not early:
                problems.append(f"the path {path!r} (below the prefix {PREFIX!r}) is not accepted as a WAP request by its prefix alone")
            elif stripped != {path[len(PREFIX):]}:
                problems.append(f"the prefix is not stripped from {path!r}: the selector becomes {sorted(map(str, stripped))}")
        else:
            if early:
                problems.append(f"the path {path!r} is taken for a WAP request because it starts with the letters of the prefix {PREFIX!r}: "
                                f"over plain HTTP it is answered with the object {sorted(map(str, stripped))} instead of {path!r}")
        rep.add(rule, f"{can.qualname}: {path!r} {'is' if by_prefix else 'is not'} WAP by prefix", not problems, ctx.where(can), "; ".join(problems),
                key=f"{rule}|{path}")


def rendered_targets(ctx, P, selector, etype, host=None, port=None):
    """The link target(s) protocol class P renders for a local entry (no host, no port) with this selector and type:
    renderobjinfo() evaluated by the walker with the entry modelled by its getters.  None = not determined."""
    import html as _html
    import re as _re

    from ..paths import Const, Walker

    prog = ctx.prog
    ro = prog.resolve_method(P, "renderobjinfo")
    if ro is None or len(ro.params) < 2:
        return None
    eparam = ro.params[1]
    vals = {"getselector": selector, "gettype": etype, "getname": "Name", "gethost": host, "getport": port, "getmimetype": "text/plain",
            "getnum": 0, "getsize": None, "getlanguage": None}

    def cv(call, target, st):
        f = call.func
        if isinstance(f, ast.Attribute) and isinstance(f.value, ast.Name) and f.attr in vals:
            return Const(vals[f.attr])
        if isinstance(f, ast.Attribute) and isinstance(f.value, ast.Name) and f.attr == "geturl":
            a_ = holder["w"].cur_args or []
            dh = a_[0].value if a_ and a_[0].kind == "const" else "this.example"
            dp = a_[1].value if len(a_) > 1 and a_[1].kind == "const" else 70
            return Const(f"gopher://{host or dh}:{port or dp}/{etype}{selector}")
        if isinstance(f, ast.Attribute) and f.attr == "getimgtag":
            return Const("")
        if isinstance(f, ast.Attribute) and f.attr == "has_option" and "config" in norm(f.value):
            return Const(False)
        return None

    holder = {}
    facts = {"self.waptop": Const("/WAPTOP"), "self.accesskeyidx": Const(0), "self.postfieldidx": Const(0), "self.server.server_name": Const("this.example"),
             "self.server.server_port": Const(70)}
    w = Walker(prog, ctx.resolver, assumptions=facts, sticky={"self.waptop"}, call_value=cv, exact_loops=True, unroll=4,
               inline=lambda fn, t, d: d < 3 and fn.name != "getimgtag" and (t.bound_cls is not None or (fn.cls is None and ".protocols" in fn.module.name)))
    holder["w"] = w
    outs = set()
    try:
        paths = w.run(ro, P, facts=dict(facts))
    except Exception:
        return None
    for p in paths:
        if p.kind != "return" or p.value is None or p.value.kind != "const" or not isinstance(p.value.value, str):
            return None
        text = p.value.value
        found = [_html.unescape(m) for m in _re.findall(r'(?i)(?:href|action)="([^"]*)"', text)]
        found += _re.findall(r"(?m)^=[>:] (\S+)", text)
        outs.add(tuple(found))
    if len(outs) != 1:
        return None
    return list(next(iter(outs)))


def request_length_obligations(ctx, rep, rule):
    """Links are as long as the names they point at (three times as long once percent-encoded).  A request that is refused or
    cut for its length is a listed link that cannot be followed: neither the connection handler nor a protocol's handle()
    bounds the request line or its target."""
    prog = ctx.prog
    rh = ctx.func("server.GopherRequestHandler.handle")
    funcs = []
    if rh is not None:
        funcs.append((rh, rh.cls))
    for P in ctx.protocol_classes():
        for nm in ("handle", "__init__"):
            m = prog.resolve_method(P, nm)
            if m is not None and (m, P) not in funcs and m not in [f for f, _ in funcs]:
                funcs.append((m, P))
    # helpers of those (one level, same package)
    more = []
    for f, C in funcs:
        for n in ast.walk(f.node):
            if isinstance(n, ast.Call) and isinstance(n.func, ast.Attribute) and dotted(n.func.value) == "self" and C is not None:
                g = prog.resolve_method(C, n.func.attr)
                if g is not None and g.module.name.startswith("pygopherd.") and g not in [x for x, _ in funcs + more] \
                        and g.name not in ("canhandlerequest", "writedir", "renderobjinfo", "filenotfound", "headerslurp"):
                    more.append((g, C))
    REQ = ("request", "url", "selector", "path", "line", "target")
    n_f = 0
    for f, C in funcs + more:
        n_f += 1
        problems = []
        for n in ast.walk(f.node):
            # a bounded read of the request line
            if isinstance(n, ast.Call) and isinstance(n.func, ast.Attribute) and n.func.attr == "readline" and (n.args or n.keywords) \
                    and "rfile" in norm(n.func.value) and f is rh:
                problems.append(f"`{norm(n)[:50]}` reads at most a fixed number of bytes: a longer request line is cut, and what is served is the object "
                                "named by the prefix (or nothing)")
            if isinstance(n, ast.Compare) and len(n.ops) == 1 and isinstance(n.ops[0], (ast.Gt, ast.GtE, ast.Lt, ast.LtE)):
                sides = [n.left, n.comparators[0]]
                for a, b in (sides, sides[::-1]):
                    lens = [c for c in ast.walk(a) if isinstance(c, ast.Call) and dotted(c.func) == "len" and c.args]
                    if not lens:
                        continue
                    what = norm(lens[0].args[0])
                    from ..facts import expand_ast as _xa

                    try:
                        what_x = norm(_xa(lens[0].args[0], f))
                    except Exception:
                        what_x = what
                    bound = isinstance(b, ast.Constant) and isinstance(b.value, int) and b.value >= 64
                    if not bound and isinstance(b, (ast.Name, ast.Attribute)):
                        from ..paths import NOCONST, const_value

                        v = const_value(prog, b, f, C)
                        bound = v is not NOCONST and isinstance(v, int) and v >= 64
                    if bound and any(k in what.lower() or k in what_x.lower() for k in REQ):
                        problems.append(f"`{norm(n)[:60]}` bounds the length of the request: a link to a long (or percent-encoded) name that the "
                                        "server itself lists is refused when it is followed")
        if problems or f is rh or f.name == "handle":
            rep.add(rule, f"{f.qualname}: the request is taken whole, whatever its length", not problems, ctx.where(f), "; ".join(problems[:2]),
                    key=f"{rule}|{f.qualname}")


# ---------------------------------------------------------------------------- R05g
def request_target_evaluation(ctx, rep, rule="R05g"):
    """What each URL-based protocol's handle() makes of a request target, evaluated by the walker on representative
    targets up to the handler lookup: the selector has to be the percent-decoded path - cut only at the query separator,
    whatever other reserved characters (';', ':', '@', '&', '=', '+', '$', ',') the name contains - and the link encoder's
    output for that selector has to come back as the same selector."""
    from ..paths import Const, Walker

    prog = ctx.prog
    import urllib.parse as up

    names = ["/docs/a b.txt", "/notes;2.txt", "/a?b", "/a#b", "/caf\udce9.txt", "/x&y=z,w+v$", "/résumé.txt", "/dir/sub", "/100%"]

    render_problems = {}

    def targets(P=None, qual=""):
        for nme in names:
            done = False
            if P is not None:
                for et in ("0", "1", "7"):
                    rt = rendered_targets(ctx, P, nme, et)
                    if rt is None:
                        continue
                    done = True
                    if not rt:
                        render_problems.setdefault(qual, []).append(f"no link is rendered for a type-{et} entry with the selector {nme!r}")
                    for t_ in rt:
                        if et == "7" and qual.endswith("GeminiProtocol"):
                            # the search link leads to the input prompt, which redirects to <target minus the prefix>?<input>
                            pfx = prog.class_attr(P, "query_prefix")
                            pfx = pfx.value if isinstance(pfx, ast.Constant) and isinstance(pfx.value, str) else ""
                            yield (t_[len(pfx):] if pfx and t_.startswith(pfx) else t_) + "?q", nme, f"the type-{et} link the server renders for {nme!r}, after the input redirect"
                        elif et == "7" and not qual.endswith("SpartanProtocol"):
                            # a search link is followed with the query attached
                            yield t_ + ("?searchrequest=q" if qual.endswith("HTTPProtocol") else "?q"), nme, f"the type-{et} link the server renders for {nme!r}, query attached"
                        else:
                            yield t_, nme, f"the type-{et} link the server renders for {nme!r}"
            if not done:
                yield up.quote(nme, errors="surrogateescape"), nme, "as advertised"
        yield "/notes;2.txt", "/notes;2.txt", "literal ';'"
        yield "/x&y=z,w+v$", "/x&y=z,w+v$", "literal sub-delims"
        yield "/a%20b?searchrequest=q", "/a b", "with a query"
        yield "/dir/sub/", "/dir/sub", "trailing slash"
        yield "/dir/sub%2F", "/dir/sub", "percent-encoded trailing slash (normalised after decoding, like every other protocol's selector)"

    protos = [("protocols.http.HTTPProtocol", lambda t: {"self.requestparts": Const(["GET", t, "HTTP/1.0"]), "self.requestparts[1]": Const(t),
                                                          "self.requestparts[0]": Const("GET")}),
              ("protocols.gemini.GeminiProtocol", lambda t: {"self.request": Const(f"gemini://host.example{t}\r\n")}),
              ("protocols.spartan.SpartanProtocol", lambda t: {"self.request": Const(f"host.example {t} 0\r\n")})]
    for qual, mkfacts in protos:
        P = ctx.cls(qual)
        h = prog.resolve_method(P, "handle") if P else None
        if h is None:
            continue
        problems = []
        n = 0
        seen_t = set()
        for target, want, label in targets(P, qual):
            if (target, want) in seen_t:
                continue
            seen_t.add((target, want))
            if qual.endswith("SpartanProtocol") and "?" in target:
                continue  # Spartan has no query part
            facts = mkfacts(target)

            def rp(call, tgt):
                return ["StopAtLookup"] if isinstance(call.func, ast.Attribute) and call.func.attr == "gethandler" else []

            def cv(call, tgt, st):
                if isinstance(call.func, ast.Attribute) and call.func.attr in ("headerslurp", "log"):
                    return Const(None)
                return None

            from ..structure import inline_attr_setters

            w = Walker(prog, ctx.resolver, assumptions=facts, sticky=set(facts), raise_points=rp, call_value=cv, exact_loops=True, unroll=4,
                       inline=lambda fn, t, d: d < 3 and (t.bound_cls is not None or (fn.cls is None and fn.module.name.startswith("pygopherd")
                                                                                       and fn.module.name not in ("pygopherd.logger", "pygopherd.GopherExceptions"))
                                                          or (fn.cls is not None and P is not None and prog.is_subclass(P, fn.cls))) and fn.name not in (
                           "gethandler", "writedir", "filenotfound", "log", "renderobjinfo", "headerslurp", "write_status", "handlerwrite", "canhandlerequest",
                           "getHandler"))
            got = set()
            for p in w.run(h, P, facts=dict(facts)):
                if p.kind == "raise" and str(p.value) == "StopAtLookup":
                    v = p.state.facts.get("self.selector")
                    got.add(v.value if v is not None and v.kind == "const" else None)
                elif any(e.kind == "call" and isinstance(e.node.func, ast.Attribute) and e.node.func.attr == "gethandler" for e in p.events):
                    continue  # the continuation after the lookup (its state at the lookup is the StopAtLookup twin)
                elif p.kind == "raise":
                    got.add(f"<{p.value}>")
                else:
                    got.add("<no lookup>")
            n += 1
            if None in got:
                problems.append(f"the selector for the request target {target!r} is not determined by code the analysis understands")
                break
            if got != {want}:
                problems.append(f"request target {target!r} ({label}) becomes selector {sorted(map(str, got))} instead of {want!r}: "
                                "the object served is not the one the link names")
        problems.extend(render_problems.get(qual, [])[:2])
        rep.add(rule, f"{h.qualname}: request targets map to the selector they name [{n} targets]", not problems, ctx.where(h), "; ".join(problems[:3]),
                key=f"{rule}|{h.qualname}")
    # the Gopher family: the selector field of a menu line comes back as the request line
    for qual in ("protocols.rfc1436.GopherProtocol", "protocols.gopherp.GopherPlusProtocol"):
        P = ctx.cls(qual)
        init = prog.resolve_method(P, "__init__") if P else None
        while init is not None and len(init.params) < 2 and init.node.args.vararg is not None and init.cls is not None:
            init = prog.resolve_method(P, "__init__", after=init.cls)
        if init is None or len(init.params) < 2:
            continue
        problems, n = [], 0
        suffix = "\t+" if qual.endswith("GopherPlusProtocol") else ""
        for sel in names + ["URL:http://ex.example/a//b?c", "/URL:http://ex.example/x", "URL:mailto:someone@ex.example", "/dir/sub"]:
            w = Walker(prog, ctx.resolver, exact_loops=True, unroll=8,
                       inline=lambda fn, t, d: d < 4 and (t.bound_cls is not None or fn.name == "__init__") and fn.name not in ("log",))
            got = set()
            try:
                for p in w.run(init, P, env={init.params[1]: Const(sel + suffix + "\r\n")}):
                    if p.kind == "raise":
                        got.add(f"<{p.value}>")
                        continue
                    v = p.state.facts.get("self.selector")
                    got.add(v.value if v is not None and v.kind == "const" else None)
            except Exception:
                got = {None}
            if None in got or not got:
                continue
            n += 1
            want = sel if sel.startswith("/") else "/" + sel
            if got != {want}:
                problems.append(f"the selector {sel!r} of a menu line, sent back as the request, reaches the handlers as {sorted(map(str, got))} instead of {want!r}")
        if n:
            rep.add(rule, f"{init.qualname} for {P.name}: a listed selector comes back as itself [{n} selectors]", not problems, ctx.where(init),
                    "; ".join(problems[:2]), key=f"{rule}|{qual}|selector")
    # WAP renders what HTTP renders, below its prefix
    wap, http = ctx.cls("protocols.wap.WAPProtocol"), ctx.cls("protocols.http.HTTPProtocol")
    if wap is not None and http is not None:
        problems = []
        n = 0
        for nme in names:
            for et in ("0", "1", "7"):
                a, b = rendered_targets(ctx, wap, nme, et), rendered_targets(ctx, http, nme, et)
                if a is None or b is None:
                    continue
                n += 1
                if sorted(set(a)) != sorted({"/WAPTOP" + x for x in b}):
                    problems.append(f"for a type-{et} entry {nme!r} WAP links to {sorted(set(a))}, HTTP to {sorted(set(b))}: below its prefix WAP must "
                                    "link to exactly what HTTP links to (the request is parsed by the same code)")
        ro = prog.resolve_method(wap, "getrenderstr") or prog.resolve_method(wap, "renderobjinfo")
        if n:
            rep.add(rule, f"WAP link targets = prefix + HTTP link targets [{n} entries]", not problems, ctx.where(ro) if ro else "", "; ".join(problems[:2]),
                    key=f"{rule}|wap-targets")



# ---------------------------------------------------------------------------------------------- R05m
def wap_request_evaluation(ctx, rep, rule="R05m"):
    """A WAP request is recognised by WAPProtocol.canhandlerequest() - which takes the prefix off the target - and then served by
    handle(), which asks canhandlerequest() again: the two steps are evaluated in that order, as the multiplexer runs them, and the
    selector at the handler look-up has to be the path below the prefix, once."""
    from ..paths import Const, PathLimit, Walker, truth
    import urllib.parse as up

    prog = ctx.prog
    P = ctx.cls("protocols.wap.WAPProtocol")
    can = prog.resolve_method(P, "canhandlerequest") if P else None
    h = prog.resolve_method(P, "handle") if P else None
    if can is None or h is None:
        rep.ok(rule, "no WAP protocol", "pygopherd/protocols", "", key=f"{rule}|none", nontrivial=False)
        return
    TOP = "/wap"
    names = ["/docs/a b.txt", "/wap", "/wap/phones.txt", "/wapx/y", "/dir/sub", "/"]

    def hooks(stop):
        def cv(call, tgt, st):
            f = call.func
            if isinstance(f, ast.Attribute) and f.attr == "check_tls":
                return Const(False)
            if isinstance(f, ast.Attribute) and f.attr in ("headerslurp", "log"):
                return Const(None)
            if isinstance(f, ast.Attribute) and f.attr == "get" and dotted(f.value) == "self.config" and len(call.args) == 2 \
                    and isinstance(call.args[1], ast.Constant):
                if call.args[1].value == "waptop":
                    return Const(TOP)
                if call.args[1].value == "iconmapping":
                    return Const("{}")
            if dotted(f) == "eval":
                return Const({})
            return None

        def ev(node, st):
            if isinstance(node, ast.Call) and dotted(node.func) == "hasattr" and len(node.args) == 2 and dotted(node.args[0]) == "self" \
                    and isinstance(node.args[1], ast.Constant):
                nm = node.args[1].value
                known = ("self." + nm) in st.facts or any(not isinstance(c, str) and (nm in c.attrs or nm in c.methods) for c in prog.mro(P))
                return Const(bool(known))
            return None

        def rp(call, tgt):
            return ["StopAtLookup"] if stop and isinstance(call.func, ast.Attribute) and call.func.attr == "gethandler" else []

        return cv, ev, rp

    def walker(stop):
        cv, ev, rp = hooks(stop)
        return Walker(prog, ctx.resolver, call_value=cv, expr_value=ev, raise_points=rp, exact_loops=True, unroll=4, max_paths=3000,
                      inline=lambda fn, t, d: d < 3 and (t.bound_cls is not None or (fn.cls is not None and prog.is_subclass(P, fn.cls))
                                                         or (fn.cls is None and fn.module.name.startswith("pygopherd")
                                                             and fn.module.name not in ("pygopherd.logger", "pygopherd.GopherExceptions")))
                      and fn.name not in ("gethandler", "writedir", "filenotfound", "log", "renderobjinfo", "headerslurp", "handlerwrite", "getHandler"))

    problems, n = [], 0
    for nme in names:
        target = TOP + up.quote(nme)
        facts0 = {"self.request": Const(f"GET {target} HTTP/1.0"), "self.secure": Const(False)}
        try:
            firsts = [p for p in walker(False).run(can, P, facts=dict(facts0)) if p.kind == "return"]
        except PathLimit:
            continue
        accepted = [p for p in firsts if p.value is not None and truth(p.value) is True]
        if len(firsts) != 1 or len(accepted) != 1:
            if firsts and all(p.value is not None and truth(p.value) is False for p in firsts):
                n += 1
                problems.append(f"a request for {target!r} (below the WAP prefix) is not recognised as WAP")
            continue
        facts1 = {k: v for k, v in accepted[0].state.facts.items() if k.startswith("self.") and v.kind == "const"}
        got = set()
        try:
            for p in walker(True).run(h, P, facts=dict(facts1)):
                if p.kind == "raise" and str(p.value) == "StopAtLookup":
                    v = p.state.facts.get("self.selector")
                    got.add(v.value if v is not None and v.kind == "const" else None)
                elif any(e.kind == "call" and isinstance(e.node.func, ast.Attribute) and e.node.func.attr == "gethandler" for e in p.events):
                    continue
                elif p.kind == "raise":
                    got.add(f"<{p.value}>")
                else:
                    got.add("<no lookup>")
        except PathLimit:
            continue
        if None in got or not got:
            continue
        n += 1
        want = nme if nme == "/" else nme.rstrip("/")
        if got != {want} and not (nme == "/" and got <= {"/", ""}):
            problems.append(f"the WAP request target {target!r} - recognised, then served - reaches the handlers as {sorted(map(str, got))} instead of {want!r}")
    rep.add(rule, f"{P.name}: recognition, then handle(): the selector is the path below the prefix [{n} of {len(names)} targets]", not problems and n >= 3,
            ctx.where(can), "; ".join(problems[:2]) if problems else ("" if n >= 3 else "the walker could not follow the two steps"),
            key=f"{rule}|wap", nontrivial=n > 0)



def protocol_fs_obligations(ctx, rep, eff, rule="R05o"):
    """What a selector names is decided by the handlers (on their view of the file system: real, archive, mailbox ...).  A protocol
    that looks at the real file system itself - to 'repair' or re-spell a selector before handler selection - decides on the wrong
    view for everything that is not a plain path: archive members, mailbox messages, virtual selectors."""
    prog = ctx.prog
    n, found = 0, []
    for f in prog.all_functions():
        if not f.module.name.startswith("pygopherd.protocols") or ".tests" in f.module.name:
            continue
        n += 1
        for s_ in eff.direct(f):
            if s_.effect.startswith("FS_"):
                found.append((f, s_))
        for c in ast.walk(f.node):
            if isinstance(c, ast.Call) and (dotted(c.func) or "").split(".")[-1] in ("VFS_Real",):
                found.append((f, type("S", (), {"call": c, "effect": "a file-system view of its own"})()))
    seen = set()
    for f, s_ in found:
        k = (f.qualname, norm(s_.call)[:50])
        if k in seen:
            continue
        seen.add(k)
        rep.add(rule, f"{f.qualname}: {norm(s_.call)[:60]}", False, ctx.where(f, s_.call),
                f"a protocol looks at the file system itself ({s_.effect}): what it concludes about the selector holds for plain paths only - links into "
                "archives, mailboxes and other virtual selectors that listings advertise are then judged (and rewritten, or refused) on the wrong view",
                key=f"{rule}|{k[0]}|{k[1]}")
    if not found:
        rep.ok(rule, f"no protocol looks at the file system itself [{n} functions]", "pygopherd/protocols", "", key=f"{rule}|none")


# ---------------------------------------------------------------------------------------------- R05j
def archive_index_obligations(ctx, rep, eff, rule="R05j"):
    """Who may read an archive's table of contents: only the archive VFS (VFSZip and subclasses).  Python's own reading of
    the member names differs from the index (charset of names without the UTF-8 flag, links, leading slashes): a second
    reader that decides which selectors are accepted refuses links the listing shows."""
    prog = ctx.prog
    vz = ctx.cls("handlers.ZIP.VFSZip")
    if vz is None:
        rep.fail(rule, "VFSZip", detail="archive VFS not found")
        return
    owners = set(prog.subclasses(vz))
    TABLE = ("namelist", "infolist", "getinfo", "NameToInfo", "filelist")
    inside, outside = 0, []
    for f in prog.all_functions():
        if not f.module.name.startswith("pygopherd") or ".tests" in f.module.name or f.module.name.endswith("testutil"):
            continue
        for n in ast.walk(f.node):
            hit = None
            if isinstance(n, ast.Call):
                t = ctx.resolver.resolve(n, f, f.cls)
                if t.kind in ("ext", "ctor") and (t.name or "") in ("zipfile.ZipFile", "zipfile.PyZipFile"):
                    hit = norm(n)[:50]
            if isinstance(n, ast.Attribute) and n.attr in TABLE:
                hit = norm(n)[:50]
            if hit is None:
                continue
            if f.cls is not None and f.cls in owners:
                inside += 1
            else:
                outside.append((f, n, hit))
    rep.add(rule, f"{vz.qualname}: reads the member table ({inside} sites)", inside > 0, ctx.where(vz),
            "" if inside else "the archive VFS does not read the member table", key=f"{rule}|owner")
    for f, n, hit in outside:
        rep.add(rule, f"{f.qualname}: {hit}", False, ctx.where(f, n),
                "the archive's table of contents is read outside the archive VFS: names as Python's zipfile reports them are not the names of the "
                "index the listings are made from (charset, links, leading slashes)", key=f"{rule}|{f.qualname}|{hit}")
