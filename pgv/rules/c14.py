"""C14  Concurrent clients are isolated from one another (race-freedom by construction).

R14a  shared-state discipline: every module-level write reachable while serving a request
      is a guarded idempotent lazy initialisation from configuration; no in-place mutation
      of module-level or class-level mutable objects on the request path
R14b  fresh objects per request: protocols and handlers are constructed per request and
      never stored in module/class state; the HTTP header cache hangs off the
      per-connection request handler
R14c  worker lifecycle: the fork child always ends in os._exit; the parent records the
      child, closes its copy and returns; the thread worker reports errors and always
      shuts the request down
Cache-file sharing is covered by C11.  Equality of concurrent and sequential responses
under all interleavings is not decided.
"""

from __future__ import annotations

import ast

from ..effects import Effects
from ..loader import dotted, norm
from ..paths import Walker, truth
from ..structure import catches, enclosing, enclosing_tries, parents

MUTATORS = {"append", "extend", "insert", "remove", "pop", "sort", "reverse", "clear", "update", "add", "discard",
            "setdefault", "popitem", "__setitem__"}


def request_functions(ctx, eff):
    """Functions reachable while serving a request (all handler/protocol/entry methods,
    the multiplexers, the connection handler) closed over resolved calls."""
    prog = ctx.prog
    roots = []
    for C in ctx.handler_classes() + ctx.protocol_classes():
        for c in prog.mro(C):
            roots.extend((m, C) for m in c.methods.values())
    ge = ctx.cls("gopherentry.GopherEntry")
    if ge is not None:
        for S in prog.subclasses(ge):
            roots.extend((m, S) for m in S.methods.values())
    for q in ("handlers.HandlerMultiplexer.getHandler", "protocols.ProtocolMultiplexer.getProtocol", "server.GopherRequestHandler.handle",
              "gopherentry.getinfoentry"):
        f = ctx.func(q)
        if f is not None:
            roots.append((f, f.cls))
    seen = set()
    work = list(roots)
    while work:
        f, C = work.pop()
        if f in seen:
            continue
        seen.add(f)
        for call, t in eff.calls_of(f, C):
            if t.kind in ("repo", "ctor") and not t.by_name:
                for g in t.funcs:
                    if g is not None and g not in seen:
                        work.append((g, t.bound_cls if t.bound_cls is not None else g.cls))
    return seen


IMMUTABLE_CALLS = {"str", "int", "bool", "float", "bytes", "tuple", "frozenset", "len", "repr", "ord", "chr", "abs", "min", "max", "sum", "hash"}
STR_METHODS = {"strip", "lstrip", "rstrip", "lower", "upper", "join", "format", "replace", "decode", "encode", "title", "capitalize", "casefold",
               "startswith", "endswith", "find", "rfind", "index", "count", "isdigit", "isalpha", "zfill", "ljust", "rjust", "center", "expandtabs",
               "removeprefix", "removesuffix", "swapcase", "translate", "hex"}


def _immutable_result(node, f, depth=0) -> bool:
    """Is the value of this expression certainly an immutable object (safe to hand to several requests)?"""
    if node is None or isinstance(node, (ast.Constant, ast.JoinedStr, ast.Compare)):
        return True
    if isinstance(node, ast.Tuple):
        return all(_immutable_result(e, f, depth) for e in node.elts)
    if isinstance(node, (ast.BoolOp,)):
        return all(_immutable_result(e, f, depth) for e in node.values)
    if isinstance(node, ast.IfExp):
        return _immutable_result(node.body, f, depth) and _immutable_result(node.orelse, f, depth)
    if isinstance(node, ast.UnaryOp):
        return _immutable_result(node.operand, f, depth)
    if isinstance(node, ast.BinOp):
        return _immutable_result(node.left, f, depth) and (isinstance(node.op, ast.Mod) or _immutable_result(node.right, f, depth))
    if isinstance(node, ast.Call):
        if isinstance(node.func, ast.Name) and node.func.id in IMMUTABLE_CALLS:
            return True
        if isinstance(node.func, ast.Attribute) and node.func.attr in STR_METHODS:
            return True
        d = dotted(node.func) or ""
        if d in ("re.compile", "os.path.join", "os.path.basename", "os.path.dirname", "os.path.normpath", "os.path.abspath", "os.fsencode",
                 "os.fsdecode", "urllib.parse.quote", "urllib.parse.unquote", "html.escape"):
            return True
        return False
    if isinstance(node, ast.Name) and depth < 3:
        defs = [n for n in ast.walk(f.node) if isinstance(n, ast.Assign) and any(isinstance(t, ast.Name) and t.id == node.id for t in n.targets)]
        if node.id in f.params:
            return False
        return bool(defs) and all(_immutable_result(d_.value, f, depth + 1) for d_ in defs) and not any(
            isinstance(n, ast.AugAssign) and isinstance(n.target, ast.Name) and n.target.id == node.id and not _immutable_result(n.value, f, depth + 1)
            for n in ast.walk(f.node))
    return False


def memo_obligations(ctx, rep, rule, eff, funcs):
    """A memoising decorator keeps one result object per argument for the life of the process: everything it returns
    is shared by all later requests (threads).  So a memoised function on the request path has to be a pure function of
    its arguments returning an immutable value."""
    for f in sorted(funcs, key=lambda x: x.qualname):
        decos = []
        for d in f.node.decorator_list:
            dn = dotted(d.func if isinstance(d, ast.Call) else d) or ""
            if dn.split(".")[-1] in ("lru_cache", "cache", "memoize", "memoized", "memoise", "memoised"):
                decos.append(dn)
        if not decos:
            continue
        problems = []
        own = [n for n in ast.walk(f.node) if isinstance(n, ast.Return)]
        for r in own:
            if not _immutable_result(r.value, f):
                problems.append(f"`return {norm(r.value)[:40]}` hands the same mutable object to every request that asks with the same arguments "
                                "(a caller that changes it in place changes what later requests get)")
                break
        summ = eff.summary(f, f.cls)
        bad = sorted(e for e in summ if e.startswith(("GLOBAL_WRITE", "FS_", "EXEC", "EVAL")) or e in ("TIME", "RANDOM"))
        if bad:
            problems.append(f"its result depends on more than its arguments ({', '.join(bad)[:60]}): later requests get what an earlier one saw")
        if f.cls is not None and f.params[:1] == ["self"]:
            problems.append("memoised per instance in a table shared by all instances")
        rep.add(rule, f"{f.qualname}: @{decos[0]} result is safe to share", not problems, ctx.where(f), "; ".join(problems),
                key=f"{rule}|memo|{f.qualname}")


def shared_state_obligations(ctx, rep, rule, eff, funcs, sequential=False):
    """Module-level writes / in-place mutation of shared objects in request-path functions.
    sequential=True (history independence, C03): what happens inside a guarded one-time
    initialisation block is invisible to later requests, so only per-request writes count."""

    def in_lazy_init(f, node, globs):
        # `if G: return` earlier in the same block
        pm_ = parents(f.node)
        cur_ = node
        while cur_ is not None and not isinstance(pm_.get(cur_), (ast.FunctionDef, ast.AsyncFunctionDef)):
            cur_ = pm_.get(cur_)
        if cur_ is not None:
            body_ = f.node.body
            for st_ in body_[: body_.index(cur_)] if cur_ in body_ else []:
                if isinstance(st_, ast.If) and len(st_.body) == 1 and isinstance(st_.body[0], ast.Return) and not st_.orelse:
                    t_ = norm(st_.test)
                    if any(t_ in (g, f"{g} is not None", f"{g} != None") for g in globs | set(f.module.globals)):
                        return True
        for anc, field in enclosing(f.node, node):
            if isinstance(anc, ast.If) and field == "body":
                t = norm(anc.test)
                if any(t in (f"not {g}", f"{g} is None", f"{g} == None") for g in globs | set(f.module.globals)):
                    return True
        return False
    prog = ctx.prog
    memo_obligations(ctx, rep, rule, eff, funcs)
    # ------------------------------------------------------------------ R14a
    for f in sorted(funcs, key=lambda x: x.qualname):
        if f.module.name.startswith("simpletal"):
            continue
        globs = set()
        for n in ast.walk(f.node):
            if isinstance(n, ast.Global):
                globs.update(n.names)
        pm = parents(f.node)
        for n in ast.walk(f.node):
            if isinstance(n, ast.Assign) and any(isinstance(t, ast.Name) and t.id in globs for t in n.targets):
                names = [t.id for t in n.targets if isinstance(t, ast.Name) and t.id in globs]
                problems = []
                # guarded: every path that reaches the assignment has found one of the function's globals still unset
                # (`if not G:` around it, `if G: return` before it, `G is None`, ...)
                guarded = False
                siblings = []
                from ..facts import collect_site_paths

                def unset(fs):
                    out = []
                    for fa in fs:
                        t = norm(fa.node)
                        for g in globs:
                            if (t == g and not fa.truth) or (t in (f"{g} is None", f"{g} == None") and fa.truth) \
                                    or (t in (f"{g} is not None", f"{g} != None") and not fa.truth):
                                out.append(g)
                    return out
                sp = collect_site_paths(prog, ctx.resolver, f, f.cls, {id(n.value)}).get(id(n.value))
                if sp:
                    per_path = [unset(fs) for fs, _, _ in sp]
                    if all(per_path):
                        guarded = True
                        siblings = sorted(set.intersection(*[set(x) for x in per_path])) or sorted(set(per_path[0]))
                if not guarded:
                    for anc, field in enclosing(f.node, n):
                        if isinstance(anc, ast.If) and field == "body":
                            t = norm(anc.test)
                            gs = [g for g in globs if t in (f"not {g}", f"{g} is None", f"{g} == None")]
                            if gs:
                                guarded = True
                                siblings = gs
                            break
                if not guarded:
                    problems.append("assigned without an 'is it still unset?' guard: a second request (thread) overwrites a table another one is using")
                elif not any(g in siblings for g in names) and names:
                    # assigned under the guard of another global (handlers/rootpath pair): fine if the pair is assigned together
                    pass
                # value: derived from configuration only
                v = n.value
                cfg = any(isinstance(x, ast.Call) and isinstance(x.func, ast.Attribute) and x.func.attr in ("get", "getint", "getboolean")
                          and "config" in norm(x.func.value) for x in ast.walk(v))
                if not cfg and not isinstance(v, ast.Constant):
                    if not (sequential and guarded and isinstance(v, (ast.List, ast.Dict, ast.Set, ast.Tuple))):
                        problems.append(f"value `{norm(v)[:40]}` is not read from the configuration (not idempotent)")
                for nm in names:
                    rep.add(rule, f"{f.qualname}: global {nm}", not problems, ctx.where(f, n), "; ".join(problems), key=f"{rule}|{f.qualname}|{nm}")
            # in-place mutation of module-level / class-level objects
            if isinstance(n, ast.Call) and isinstance(n.func, ast.Attribute) and n.func.attr in MUTATORS:
                recv = n.func.value
                d = dotted(recv)
                shared = None
                if isinstance(recv, ast.Name) and (recv.id in globs or (recv.id in f.module.globals and recv.id not in _locals(f))):
                    shared = f"module-level {recv.id}"
                elif d and "." in d and not d.startswith("self.") and d.split(".")[0] not in _locals(f):
                    res = prog.resolve_dotted(f.module, d)
                    if res and res[0] in ("global", "classattr"):
                        shared = f"shared object {d}"
                    elif res and res[0] == "ext" and res[1].split(".")[0] in ("mimetypes",):
                        shared = f"interpreter-wide table {res[1]}"
                elif d and d.startswith("self.") and f.cls is not None and d.count(".") == 1:
                    a = prog.class_attr(f.cls, d.split(".")[1])
                    if isinstance(a, (ast.List, ast.Dict, ast.Set)) and not _assigned_in_instance(prog, f.cls, d.split(".")[1]):
                        shared = f"class-level mutable {f.cls.name}.{d.split('.')[1]}"
                if shared and sequential and in_lazy_init(f, n, globs):
                    shared = None
                if shared:
                    rep.fail(rule, f"{f.qualname}: {norm(n)[:50]}", ctx.where(f, n),
                             f"in-place mutation of {shared} while serving a request: concurrent requests see each other's partial updates",
                             key=f"{rule}|{f.qualname}|mut|{norm(n.func)}")
            if isinstance(n, (ast.Assign, ast.AugAssign)):
                tgts = n.targets if isinstance(n, ast.Assign) else [n.target]
                for t in tgts:
                    if isinstance(t, ast.Subscript):
                        base = t.value
                        if isinstance(base, ast.Name) and (base.id in globs or (base.id in f.module.globals and base.id not in _locals(f))):
                            rep.fail(rule, f"{f.qualname}: {norm(t)[:50]} = ...", ctx.where(f, n),
                                     f"element write into module-level {base.id} while serving a request", key=f"{rule}|{f.qualname}|elt|{base.id}")
                        db_ = dotted(base) or ""
                        if db_.startswith(("self.", "cls.")) and db_.count(".") == 1 and f.cls is not None:
                            a_ = prog.class_attr(f.cls, db_.split(".")[1])
                            if isinstance(a_, (ast.List, ast.Dict, ast.Set)) and not _assigned_in_instance(prog, f.cls, db_.split(".")[1]) \
                                    and not (sequential and in_lazy_init(f, n, globs)):
                                rep.fail(rule, f"{f.qualname}: {norm(t)[:50]} = ...", ctx.where(f, n),
                                         f"element write into the class-level table {f.cls.name}.{db_.split('.')[1]}, which every object of the class (every "
                                         "request) shares", key=f"{rule}|{f.qualname}|clselt|{db_}")
                    if isinstance(t, ast.Attribute) and (dotted(t.value) or "") in ("self.server", "server", "self.protocol.server", "protocol.server"):
                        rep.fail(rule, f"{f.qualname}: {norm(t)} = ...", ctx.where(f, n),
                                 "writes an attribute of the server object, which every connection shares",
                                 key=f"{rule}|{f.qualname}|server|{norm(t)}")
                    if isinstance(t, ast.Attribute) and not (dotted(t.value) or "").startswith("self") and dotted(t.value):
                        res = prog.resolve_dotted(f.module, dotted(t.value)) if dotted(t.value).split(".")[0] not in _locals(f) else None
                        if res and res[0] in ("module", "class"):
                            rep.fail(rule, f"{f.qualname}: {norm(t)} = ...", ctx.where(f, n),
                                     f"assignment to an attribute of {res[0]} {dotted(t.value)} while serving a request",
                                     key=f"{rule}|{f.qualname}|attr|{norm(t)}")


def _walked_helper(m, target) -> bool:
    """Is this call one that the worker walk follows into (a helper of the server module)?  Its failures are those of the
    calls inside it."""
    pol = _server_helpers(m)
    return target is not None and target.kind == "repo" and len(target.funcs) == 1 and target.funcs[0] is not None \
        and not target.by_name and pol(target.funcs[0], target, 0)


def _server_helpers(m):
    """Inline policy: helpers of the server module that a worker entry point is built from."""
    noin = ("wrap_socket", "finish_request", "handle_error", "shutdown_request", "close_request", "server_bind", "__init__")
    return lambda fn, t, d: d < 3 and t.bound_cls is not None and fn.module is m.module and fn.name not in noin



_MUTATORS = ("append", "extend", "add", "update", "insert", "remove", "pop", "popitem", "clear", "setdefault", "sort", "reverse", "discard", "appendleft")
_INTO = ("recv_into", "recvfrom_into", "readinto", "readinto1", "pack_into", "readv")


def worker_state_obligations(ctx, rep, rule="R14f"):
    """The server object is the one thing every worker thread shares: what a worker runs on it (process_request_thread and the
    methods of the server it calls) only reads it - no attribute written, no container or buffer of the server changed in place."""
    prog = ctx.prog
    bs = ctx.cls("server.BaseServer")
    n = 0
    for S in (prog.subclasses(bs, strict=True) if bs else []):
        exts = prog.external_bases(S)
        if not any(b.endswith("ThreadingTCPServer") or b.endswith("ThreadingMixIn") for b in exts):
            continue
        entry = prog.resolve_method(S, "process_request_thread")
        if entry is None:
            continue
        work, seen = [entry], []
        while work:
            f = work.pop()
            if f in seen:
                continue
            seen.append(f)
            for node in ast.walk(f.node):
                if isinstance(node, ast.Call) and isinstance(node.func, ast.Attribute) and dotted(node.func.value) in ("self", "super()"):
                    g = prog.resolve_method(S, node.func.attr)
                    if g is not None and g not in seen:
                        work.append(g)
        problems = []
        for f in seen:
            alias = {}
            for node in ast.walk(f.node):
                if isinstance(node, ast.Assign) and len(node.targets) == 1 and isinstance(node.targets[0], ast.Name) \
                        and (dotted(node.value) or "").startswith("self.") and not (dotted(node.value) or "").startswith(("self.config", "self.context")):
                    alias[node.targets[0].id] = dotted(node.value)

            def srv(e):
                """dotted self.X path an expression stands for (through a local alias), or ''"""
                d = dotted(e) or ""
                if d.startswith("self."):
                    return d
                head = d.split(".")[0]
                if head in alias:
                    return alias[head] + d[len(head):]
                return ""

            for node in ast.walk(f.node):
                tgt = None
                if isinstance(node, ast.Assign):
                    tgt = [t for t in node.targets]
                    for t in node.targets:
                        if isinstance(t, ast.Subscript) and isinstance(t.value, ast.Name) and t.value.id in alias:
                            problems.append((f, node, f"`{norm(node)[:50]}` writes into the server's `{alias[t.value.id][5:]}`"))
                elif isinstance(node, (ast.AugAssign, ast.AnnAssign)) and getattr(node, "value", None) is not None:
                    tgt = [node.target]
                for t in tgt or []:
                    base = t
                    while isinstance(base, (ast.Subscript, ast.Attribute)) and not (isinstance(base, ast.Attribute) and dotted(base.value) == "self"):
                        base = base.value
                    if isinstance(base, ast.Attribute) and dotted(base.value) == "self":
                        problems.append((f, node, f"`{norm(node)[:50]}` writes the server's `{base.attr}`"))
                if isinstance(node, ast.Call) and isinstance(node.func, ast.Attribute):
                    rv = srv(node.func.value)
                    if node.func.attr in _MUTATORS and rv.startswith("self.") and not rv.startswith(("self.config", "self.context")):
                        problems.append((f, node, f"`{norm(node)[:50]}` changes the server's `{rv[5:]}` in place"))
                    if node.func.attr in _INTO:
                        for a in list(node.args) + [k.value for k in node.keywords]:
                            if srv(a).startswith("self."):
                                problems.append((f, node, f"`{norm(node)[:50]}` fills the server's `{srv(a)[5:]}`"))
        n += 1
        rep.add(rule, f"{S.name}: what a worker thread runs on the server object only reads it [{len(seen)} methods]", not problems,
                ctx.where(problems[0][0], problems[0][1]) if problems else ctx.where(entry),
                "" if not problems else f"{problems[0][0].qualname}: {problems[0][2]} - every worker thread of the server shares that object, so two "
                "connections handled at the same time see (and overwrite) each other's value", key=f"{rule}|{S.name}")
    if not n:
        rep.ok(rule, "no threading server class", "pygopherd/server.py", "", key=f"{rule}|none", nontrivial=False)



def class_mutable_obligations(ctx, rep, rule="R14g"):
    """A set, dict or list written in the class body is one object for every instance - every request, every archive, every worker
    thread: methods may only change it in place when instances get their own (an assignment to `self.X` somewhere in the class)."""
    prog = ctx.prog
    n, found = 0, []
    for mod in prog.modules.values():
        if not mod.name.startswith("pygopherd") or ".tests" in mod.name or mod.name.endswith("testutil"):
            continue
        for C in mod.classes.values():
            for name, val in C.attrs.items():
                mutable = isinstance(val, (ast.Dict, ast.List, ast.Set, ast.ListComp, ast.DictComp, ast.SetComp)) or (
                    isinstance(val, ast.Call) and (dotted(val.func) or "") in ("set", "dict", "list", "bytearray", "collections.defaultdict", "collections.deque",
                                                                                "collections.OrderedDict", "defaultdict", "deque", "OrderedDict"))
                if not mutable:
                    continue
                n += 1
                family = [c for c in prog.subclasses(C)] if hasattr(prog, "subclasses") else [C]
                own = any(isinstance(x, (ast.Assign, ast.AnnAssign)) and any(
                    isinstance(t, ast.Attribute) and dotted(t.value) == "self" and t.attr == name
                    for t in (x.targets if isinstance(x, ast.Assign) else [x.target]))
                    for K in [C] + family for m in K.methods.values() for x in ast.walk(m.node))
                if own:
                    continue
                for K in [C] + family:
                    for m in K.methods.values():
                        for x in ast.walk(m.node):
                            if isinstance(x, ast.Call) and isinstance(x.func, ast.Attribute) and x.func.attr in _MUTATORS \
                                    and dotted(x.func.value) in (f"self.{name}", f"cls.{name}", f"{C.name}.{name}"):
                                found.append((m, x, C, name))
                            if isinstance(x, (ast.Assign, ast.AugAssign)):
                                for t in (x.targets if isinstance(x, ast.Assign) else [x.target]):
                                    if isinstance(t, ast.Subscript) and dotted(t.value) in (f"self.{name}", f"cls.{name}", f"{C.name}.{name}"):
                                        found.append((m, x, C, name))
    seen = set()
    for m, x, C, name in found:
        key = (m.qualname, name)
        if key in seen:
            continue
        seen.add(key)
        rep.add(rule, f"{m.qualname}: {norm(x)[:50]}", False, ctx.where(m, x),
                f"`{name}` is created once in the body of class {C.name} and no method gives an instance its own: `{norm(x)[:40]}` changes the one object all "
                "requests (and all worker threads) share - what one client's request records shows up in every other client's answers",
                key=f"{rule}|{m.qualname}|{name}")
    if not found:
        rep.ok(rule, f"no class-level container is changed in place through an instance [{n} class-level containers]", "pygopherd", "", key=f"{rule}|none")



def store_writer_obligations(ctx, rep, rule="R14h"):
    """Two requests may write the same dbm/shelve cache at once.  Asking for a new store (flag 'n' / 'c') does not mean nothing
    is read: dbm.dumb re-reads the directory file, which the other writer may be half-way through - the failure is a SyntaxError
    or ValueError, not an OSError.  The write is optional, so its guard has to cover those classes too."""
    prog = ctx.prog
    n = 0
    for f in prog.all_functions():
        if not f.module.name.startswith("pygopherd.handlers") or ".tests" in f.module.name:
            continue
        for c in ast.walk(f.node):
            if not (isinstance(c, ast.Call) and (dotted(c.func) or "") in ("shelve.open", "dbm.open", "dbm.dumb.open")):
                continue
            flag = c.args[1] if len(c.args) > 1 else next((k.value for k in c.keywords if k.arg == "flag"), None)
            fv = flag.value if isinstance(flag, ast.Constant) else ("c" if flag is None else "?")
            if fv == "r":
                continue
            n += 1
            tries = enclosing_tries(f.node, c)
            missing = [e for e in ("OSError", "ValueError", "SyntaxError") if not any(catches(h, e) for tr in tries for h in tr.handlers)]
            rep.add(rule, f"{f.qualname}: {norm(c)[:50]} (writer)", not missing, ctx.where(f, c),
                    "" if not missing else f"the store is (re)created under a guard that does not catch {', '.join(missing)}: with the dbm.dumb backend a second "
                    "request writing the same cache at that moment leaves a half-written directory file, which this open reads - the error escapes and "
                    "the request that would have been answered alone gets no reply", key=f"{rule}|{f.qualname}")
    if not n:
        rep.ok(rule, "no dbm/shelve store is written by the handlers", "pygopherd/handlers", "", key=f"{rule}|none", nontrivial=False)


def check(ctx, rep):
    prog = ctx.prog
    eff = Effects(prog, ctx.resolver)
    rep.rule("R14a", "module-level writes on the request path: guarded idempotent lazy init from configuration only; no in-place mutation of shared objects", floor=5)
    rep.rule("R14b", "protocol/handler objects are per request; header cache is per connection", floor=3)
    rep.rule("R14d", "socketserver hooks the worker bookkeeping lives in (service_actions, handle_timeout, server_close, ...) are not overridden "
             "without handing on to the inherited implementation", floor=1)
    rep.rule("R14e", "= R11a: a client that reads a cache while another client's worker is writing it sees a cut-off file - every load is guarded "
             "against each way such a file fails, and regenerates", floor=2)
    from .c11 import loader_guard_obligations
    loader_guard_obligations(ctx, rep, eff, "R14e")
    rep.rule("R14h", "a dbm/shelve cache is (re)created under a guard that also covers what a racing second writer causes (SyntaxError / ValueError "
             "from the half-written directory file dbm.dumb reads back), not only OSError - see D43", floor=0)
    store_writer_obligations(ctx, rep, "R14h")
    rep.rule("R14g", "a container written in a class body is changed in place only when instances get their own (`self.X = ...` in the class): "
             "otherwise it is one object shared by every request and thread", floor=1)
    class_mutable_obligations(ctx, rep, "R14g")
    rep.rule("R14f", "what a worker thread runs on the server object (process_request_thread, wrap_socket, ...) only reads that object: no attribute "
             "assigned, no container or buffer of the server changed in place - the object is shared by all workers", floor=1)
    worker_state_obligations(ctx, rep, "R14f")
    rep.rule("R14c", "fork child always _exit()s; parent records child, closes, returns; thread worker always shuts down", floor=2)
    funcs = request_functions(ctx, eff)
    rep.analysed(*sorted(f.qualname for f in funcs)[:150])

    shared_state_obligations(ctx, rep, "R14a", eff, funcs)
    # start-up-only mutators are not reachable from the request path
    for q in ("fileext.init", "logger.init", "initialization.init_mimetypes", "GopherExceptions.init"):
        g = ctx.func(q)
        if g is not None:
            rep.add("R14a", f"{q} is start-up only", g not in funcs, ctx.where(g),
                    "a function that rebuilds interpreter-wide tables is reachable while requests are served" if g in funcs else "",
                    key=f"R14a|startup|{q}", nontrivial=False)

    # ------------------------------------------------------------------ R14b
    for q, what in (("protocols.ProtocolMultiplexer.getProtocol", "protocol"), ("handlers.HandlerMultiplexer.getHandler", "handler")):
        f = ctx.func(q)
        if f is None:
            rep.fail("R14b", q, detail="multiplexer not found")
            continue
        problems = []
        # the multiplexer with the helpers of its module it calls (the search loop may live in one of them)
        scope, work_ = [], [f]
        while work_:
            g_ = work_.pop()
            if g_ in scope:
                continue
            scope.append(g_)
            for n in ast.walk(g_.node):
                if isinstance(n, ast.Call) and isinstance(n.func, ast.Name) and n.func.id in f.module.functions:
                    work_.append(f.module.functions[n.func.id])
        nodes_ = [n for g_ in scope for n in ast.walk(g_.node)]
        globs = set()
        for n in nodes_:
            if isinstance(n, ast.Global):
                globs.update(n.names)
        # the classes are tried in a loop / comprehension: the object is built by calling the loop variable
        loopvars = set()
        for n in nodes_:
            if isinstance(n, (ast.For, ast.comprehension)):
                loopvars.update(x.id for x in ast.walk(n.target) if isinstance(x, ast.Name))
        ctor_calls = [n for n in nodes_ if isinstance(n, ast.Call) and isinstance(n.func, ast.Name) and n.func.id in loopvars]
        ctors = [n for n in nodes_ if isinstance(n, ast.Assign) and any(n.value is c for c in ctor_calls)]
        if not ctor_calls:
            problems.append(f"no {what} object is constructed per request")
        for n in ctors:
            for t in n.targets:
                if isinstance(t, ast.Name) and t.id in globs:
                    problems.append(f"the {what} object is stored in module state")
                if isinstance(t, (ast.Attribute, ast.Subscript)):
                    problems.append(f"the {what} object is stored in `{norm(t)}` (shared between requests)")
        for n in nodes_:
            if isinstance(n, ast.Call) and isinstance(n.func, ast.Attribute) and n.func.attr in ("setdefault", "get") and \
                    isinstance(n.func.value, ast.Name) and n.func.value.id in f.module.globals and "cache" in n.func.value.id.lower():
                problems.append("objects are looked up in a module-level cache")
        rep.add("R14b", f"{q}: fresh {what} per request", not problems, ctx.where(f), "; ".join(sorted(set(problems))), key=f"R14b|{q}")
    http = ctx.cls("protocols.http.HTTPProtocol")
    hs = prog.resolve_method(http, "headerslurp") if http else None
    if hs is None:
        rep.fail("R14b", "headerslurp", detail="HTTP header reader not found")
    else:
        stores = [n for n in ast.walk(hs.node) if isinstance(n, ast.Assign) for t in n.targets
                  if isinstance(t, ast.Attribute) and not (dotted(t) or "").startswith("self.httpheaders")]
        problems = []
        ok = False
        for n in ast.walk(hs.node):
            if isinstance(n, ast.Assign):
                for t in n.targets:
                    d = dotted(t) or ""
                    if isinstance(t, ast.Attribute) and d.startswith("self.requesthandler."):
                        ok = True
                    elif isinstance(t, ast.Attribute) and not d.startswith("self."):
                        problems.append(f"header cache stored in `{d}` (shared between connections)")
                    elif isinstance(t, ast.Name) and any(isinstance(g, ast.Global) and t.id in g.names for g in ast.walk(hs.node)):
                        problems.append("header cache stored in a module-level variable")
        for n in ast.walk(hs.node):
            if isinstance(n, ast.Call) and dotted(n.func) == "setattr" and n.args and (dotted(n.args[0]) or "") == "self.requesthandler":
                ok = True
            elif isinstance(n, ast.Call) and dotted(n.func) == "setattr" and n.args and not (dotted(n.args[0]) or "").startswith("self"):
                problems.append(f"header cache stored on `{norm(n.args[0])}` (shared between connections)")
        if not ok:
            problems.append("the header cache is not attached to the per-connection request handler")
        rep.add("R14b", f"{hs.qualname}: header cache per connection", not problems, ctx.where(hs), "; ".join(sorted(set(problems))), key="R14b|headerslurp")

    # ------------------------------------------------------------------ R14d
    bs0 = ctx.cls("server.BaseServer")
    HOOKS = ("service_actions", "handle_timeout", "server_close", "collect_children", "shutdown", "server_activate")
    n_h = 0
    for S in (prog.subclasses(bs0) if bs0 else []):
        for name in HOOKS:
            m = S.methods.get(name)
            if m is None:
                continue
            n_h += 1
            bad = False
            for p in Walker(prog, ctx.resolver).run(m, S):
                if p.kind == "raise":
                    continue
                if not any(e.kind == "call" and isinstance(e.node.func, ast.Attribute) and e.node.func.attr == name
                           and (norm(e.node.func.value).startswith("super(") or "socketserver." in norm(e.node.func.value)) for e in p.events):
                    bad = True
            rep.add("R14d", f"{m.qualname} hands on to the socketserver implementation", not bad, ctx.where(m),
                    f"{name}() is overridden without calling super().{name}() on every path: in the forking server that method is where finished workers "
                    "are reaped and the worker table is kept (ForkingMixIn), so workers pile up as zombies and the server's bookkeeping of running "
                    "workers never shrinks" if bad else "", key=f"R14d|{m.qualname}")
    if n_h == 0:
        rep.ok("R14d", "no socketserver hook is overridden by the server classes", "pygopherd/server.py", nontrivial=False)

    # ------------------------------------------------------------------ R14c
    bs = ctx.cls("server.BaseServer")
    n_w = 0
    for S in (prog.subclasses(bs, strict=True) if bs else []):
        exts = prog.external_bases(S)
        if any(b.endswith("ForkingTCPServer") or b.endswith("ForkingMixIn") for b in exts):
            m = S.methods.get("process_request")
            if m is None:
                continue
            n_w += 1
            _fv = next((t_.id for a_ in ast.walk(m.node) if isinstance(a_, ast.Assign) and isinstance(a_.value, ast.Call) and dotted(a_.value.func) == "os.fork"
                        for t_ in a_.targets if isinstance(t_, ast.Name)), "pid")

            def rp(call, target):
                # anything the worker calls on the server object can fail (peek on a reset connection, handshake, handler, ...)
                if isinstance(call.func, ast.Attribute) and dotted(call.func.value) == "self" and not _walked_helper(m, target):
                    return ["OSError"]
                return []
            w = Walker(prog, ctx.resolver, raise_points=rp, inline=_server_helpers(m))
            problems = set()
            n_child = n_parent = 0
            for p in w.run(m, S):
                role = None
                for e in p.events:
                    if e.kind == "test" and norm(e.node) in (_fv, f"{_fv} != 0", f"{_fv} > 0"):
                        role = "parent" if e.extra else "child"
                    if e.kind == "test" and norm(e.node) in (f"{_fv} == 0", f"not {_fv}"):
                        role = "child" if e.extra else "parent"
                calls = [e for e in p.calls()]
                names = [norm(e.node.func) for e in calls] + [e.name for e in calls if e.target.kind == "ext"]
                if role == "child":
                    n_child += 1
                    if "os._exit" not in names:
                        problems.add("a path through the child process does not end in os._exit (the child would return into the accept loop and serve as a second server)")
                elif role == "parent":
                    if p.kind == "raise":
                        continue  # a failure in the parent's bookkeeping is reported by socketserver's accept loop
                    n_parent += 1
                    if not any(n.endswith("active_children.add") for n in names):
                        problems.add("the parent does not record the child pid (finished workers are never reaped)")
                    if not any(n.endswith("close_request") for n in names):
                        problems.add("the parent does not close its copy of the connection")
                    if any(n.endswith("finish_request") for n in names):
                        problems.add("the parent handles the request itself")
                    if p.kind not in ("return", "fall"):
                        problems.add("the parent does not return to the accept loop")
            if n_child == 0 or n_parent == 0:
                problems.add("fork parent/child branches not found")
            rep.add("R14c", f"{m.qualname}: fork lifecycle", not problems, ctx.where(m), "; ".join(sorted(problems)), key=f"R14c|{m.qualname}|" + ";".join(sorted(problems)))
        if any(b.endswith("ThreadingTCPServer") or b.endswith("ThreadingMixIn") for b in exts):
            m = S.methods.get("process_request_thread")
            if m is None:
                continue
            n_w += 1

            def rp2(call, target):
                if isinstance(call.func, ast.Attribute) and dotted(call.func.value) == "self" and call.func.attr not in ("handle_error", "shutdown_request") \
                        and not _walked_helper(m, target):
                    return ["OSError", "ValueError"]
                return []
            w = Walker(prog, ctx.resolver, raise_points=rp2, inline=_server_helpers(m))
            problems = set()
            for p in w.run(m, S):
                names = [norm(e.node.func) for e in p.calls()]
                if not any(n.endswith("shutdown_request") for n in names):
                    problems.add("a path leaves the connection open (no shutdown_request)")
                raised = any(e.kind == "raise" and e.extra == "implicit" for e in p.events)
                if raised and not any(n.endswith("handle_error") for n in names):
                    problems.add("an exception in the worker is not reported through handle_error")
                if p.kind == "raise":
                    problems.add("an exception escapes the worker thread")
            rep.add("R14c", f"{m.qualname}: thread lifecycle", not problems, ctx.where(m), "; ".join(sorted(problems)), key=f"R14c|{m.qualname}|" + ";".join(sorted(problems)))
    if n_w == 0:
        rep.fail("R14c", "server workers", detail="no worker entry points found")


def _locals(f):
    from ..resolve import _local_names

    return _local_names(f)


def _assigned_in_instance(prog, cls, attr) -> bool:
    for c in prog.mro(cls):
        for m in c.methods.values():
            for n in ast.walk(m.node):
                if isinstance(n, ast.Assign) and any(isinstance(t, ast.Attribute) and t.attr == attr and dotted(t.value) == "self" for t in n.targets):
                    return True
    return False
