"""C15  Gopher+ item information is faithful (structural clauses).

R15a  +INFO is rendered by the very function that renders plain Gopher menu lines
R15b  block list = fixed blocks + one per extended attribute; every fixed block name
      has its get<name>block renderer (dispatch is total)
R15c  = R04b  the length prefix of a + request describes the body (or is the unknown marker)
R15d  = R13d  attribute content lines are emitted behind a one-space prefix
R15e  sidecar files are read into attributes by one routine: text mode, lines
      right-stripped and joined by newlines, one block per configured extension
Sidecar line fidelity beyond that is not decided.
"""

from __future__ import annotations

import ast

from ..loader import dotted, norm
from .c04 import length_obligations


def _sidecars_by_evaluation(ctx, rep, ge, he, rule="R15e") -> bool:
    """handleeaext('/sel', vfs) evaluated with two configured extensions and scripted sidecar files: each configured block
    that is not set yet gets the text of <selector><extension>, read in text mode, its lines right-stripped and joined by
    newlines; a block that is already set is not read again.  True when the evaluation decided."""
    from ..paths import Const as _C, Walker as _W

    prog = ctx.prog
    if len(he.params) < 3:
        return False
    table = {".abstract": "ABSTRACT", ".keywords": "KEYWORDS"}
    filelines = ["first line  \n", "\tsecond\x0cpage\x0b line\r\n", "\n", "last"]
    wanttext = "first line\n\tsecond\x0cpage\x0b line\n\nlast"
    all_problems = []
    for preset in ({}, {"ABSTRACT": "set by a link file"}):
        holder = {}

        def cv(call, target, st, _preset=preset):
            f = call.func
            w = holder["w"]
            a = w.cur_args or []
            kws = w.cur_kws or {}
            d = dotted(f) or ""
            if d == "eval" or (isinstance(f, ast.Attribute) and f.attr == "get" and "config" in norm(f.value)):
                return _C(dict(table)) if d == "eval" else _C("<configured table>")
            if isinstance(f, ast.Attribute) and f.attr in ("isfile", "exists") and a and a[0].kind == "const":
                return _C(True)
            if isinstance(f, ast.Attribute) and f.attr == "open" and a and a[0].kind == "const" and not (dotted(f.value) or "").startswith("os"):
                mode = a[1].value if len(a) > 1 and a[1].kind == "const" else (kws["mode"].value if "mode" in kws and kws["mode"].kind == "const" else "r")
                prev = st.facts.get("__opened")
                prev = prev.value if prev is not None and prev.kind == "const" else ()
                st.facts["__opened"] = _C(prev + ((a[0].value, mode),))
                return _C("<file " + str(a[0].value) + ">")
            if isinstance(f, ast.Attribute) and w.cur_recv is not None and w.cur_recv.kind == "const" and str(w.cur_recv.value).startswith("<file "):
                if f.attr == "readlines":
                    return _C(list(filelines))
                if f.attr == "read":
                    return _C("".join(filelines))
                if f.attr == "close":
                    return _C(None)
            if isinstance(f, ast.Attribute) and f.attr == "setea" and dotted(f.value) == "self" and len(a) == 2:
                prev = st.facts.get("__set")
                prev = prev.value if prev is not None and prev.kind == "const" else ()
                st.facts["__set"] = _C(prev + ((a[0].value if a[0].kind == "const" else None, a[1].value if a[1].kind == "const" else None),))
                return _C(None)
            if isinstance(f, ast.Attribute) and f.attr in ("getea",) and dotted(f.value) == "self" and a and a[0].kind == "const":
                return _C(_preset.get(a[0].value))
            if isinstance(f, ast.Attribute) and f.attr == "geteadict" and dotted(f.value) == "self":
                return _C(dict(_preset))
            if d.split(".")[-1] == "VFS_Real":
                return _C("<vfs>")
            return None

        facts = {"self.ea": _C(dict(preset))}
        w = _W(prog, ctx.resolver, call_value=cv, exact_loops=True, unroll=6, assumptions=facts, sticky=set(facts),
               inline=lambda fn, t, d_: d_ < 3 and t.bound_cls is not None and fn.name not in ("setea", "getea", "geteadict"))
        holder["w"] = w
        try:
            paths = w.run(he, ge, env={he.params[1]: _C("/sel"), he.params[2]: _C("<vfs>")}, facts={**facts, "eaexts": _C(None)})
        except Exception:
            return False
        outs = set()
        for p in paths:
            if p.kind == "raise":
                return False
            st_ = p.state.facts
            op = st_.get("__opened")
            se = st_.get("__set")
            outs.add((op.value if op is not None and op.kind == "const" else (), se.value if se is not None and se.kind == "const" else ()))
        if len(outs) != 1:
            return False
        opened, setea = next(iter(outs))
        if any(x is None for pair in setea for x in pair):
            return False
        want_blocks = {b for b in table.values() if b not in preset}
        want_open = {("/sel" + e, "r") for e, b in table.items() if b not in preset}
        if set(opened) != want_open:
            all_problems.append(f"with the blocks {sorted(preset)} already set, the files opened are {sorted(opened)} instead of {sorted(want_open)} "
                                "(one text-mode read of <selector><extension> per configured block that is still unset)")
        got = dict(setea)
        if set(got) != want_blocks or len(setea) != len(got):
            all_problems.append(f"the blocks set from sidecar files are {sorted(got)} instead of {sorted(want_blocks)}")
        for b, text in got.items():
            if text != wanttext:
                all_problems.append(f"a sidecar with the lines {filelines!r} becomes the block text {text!r} instead of {wanttext!r}")
                break
    rep.add(rule, f"{he.qualname}: sidecar lines become the block's lines", not all_problems, ctx.where(he), "; ".join(all_problems[:2]), key=f"{rule}|handleeaext")
    return True


def protocol_independence_obligations(ctx, rep, rule):
    """In everything a handler does to describe an item (handler tests, getentry, prepare, getdirlist and the self-methods
    and entry methods they call) the protocol object is only handed on - to nested handlers, exceptions - never asked.
    What a handler computes is kept per directory (cache) and per entry for all protocols alike."""
    prog = ctx.prog
    from ..structure import parents

    ge = ctx.cls("gopherentry.GopherEntry")
    funcs = {}
    for H in ctx.handler_classes():
        work = [prog.resolve_method(H, nm) for nm in ("canhandlerequest", "getentry", "prepare", "getdirlist", "isdir", "__init__")]
        seen = set()
        while work:
            m = work.pop()
            if m is None or m in seen:
                continue
            seen.add(m)
            funcs.setdefault(m, H)
            for n in ast.walk(m.node):
                if isinstance(n, ast.Call) and isinstance(n.func, ast.Attribute) and dotted(n.func.value) in ("self", "super()"):
                    work.append(prog.resolve_method(H, n.func.attr) if dotted(n.func.value) == "self"
                                else (prog.resolve_method(H, n.func.attr, after=m.cls) if m.cls is not None else None))
    if ge is not None:
        for c in prog.mro(ge):
            for m in c.methods.values():
                funcs.setdefault(m, ge)
    hits = []
    INSPECT = {"getattr", "hasattr", "isinstance", "issubclass", "type", "vars", "dir", "id", "repr", "str", "bool", "callable"}
    for m in sorted(funcs, key=lambda x: x.qualname):
        pm = parents(m.node)
        for n in ast.walk(m.node):
            is_proto = (isinstance(n, ast.Attribute) and norm(n) == "self.protocol") or \
                       (isinstance(n, ast.Name) and n.id == "protocol" and "protocol" in m.params)
            if not is_proto or not isinstance(getattr(n, "ctx", None), ast.Load):
                continue
            par = pm.get(n)
            if isinstance(par, ast.Call) and (n in par.args) and (dotted(par.func) or "") not in INSPECT:
                continue  # handed on
            if isinstance(par, ast.keyword):
                continue
            if isinstance(par, ast.Assign) and par.value is n and all(norm(t) == "self.protocol" for t in par.targets):
                continue
            if isinstance(par, ast.Starred) or isinstance(par, (ast.Tuple, ast.List)):
                continue
            hits.append((m, par if par is not None else n))
    if not hits:
        rep.ok(rule, f"the protocol is only handed on [{len(funcs)} functions]", "pygopherd/handlers")
    for m, n in hits:
        rep.fail(rule, f"{m.qualname}: {norm(n)}", ctx.where(m, n),
                 f"item information depends on the protocol that asks (`{norm(n)}`): the entry a handler builds - and the directory cache that keeps it "
                 "for every protocol - then lacks what another protocol's request would have put there (attribute blocks, names, types)",
                 key=f"{rule}|{m.qualname}|{norm(n)}")


def check(ctx, rep):
    prog = ctx.prog
    rep.rule("R15i", "= R16k: the side files that become Gopher+ blocks (+ABSTRACT ...) are read through the VFS the handler works on, for archive "
             "members as for real files", floor=3)
    from .c16 import vfs_passing_obligations
    vfs_passing_obligations(ctx, rep, "R15i")
    rep.rule("R15j", "a side file that exists becomes its block, also when it is empty or blank: getblock() evaluated on an entry whose extended "
             "attributes include an empty one, with the entry's own accessors evaluated as well", floor=1)
    ea_block_obligations(ctx, rep, "R15j")
    rep.rule("R15h", "= R10e: an entry served from the directory cache carries every field of the generated one (a size of 0 stays 0): +VIEWS and "
             "+INFO of a cached listing are those of a fresh one", floor=1)
    from .c10 import complete_pickling_obligations
    complete_pickling_obligations(ctx, rep, "R15h")
    rep.rule("R15a", "getinfoblock uses the plain Gopher renderobjinfo", floor=1)
    rep.rule("R15b", "every fixed block name has a renderer; block list adds one block per extended attribute", floor=4)
    rep.rule("R15c", "length prefix agrees with the body (shared with C04/R04b)", floor=5)
    rep.rule("R15d", "attribute content lines carry the one-space prefix (shared with C13/R13d)", floor=1)
    rep.rule("R15f", "item information is computed from the files of this request alone: no module- or class-level state written by the Gopher+ renderer or the entry population", floor=1)
    rep.rule("R15g", "handlers build item information without looking at the protocol that asks (the listing cache and +INFO/attribute blocks are shared by all protocols)", floor=1)
    rep.rule("R15l", "+VIEWS gives MIME type, language and size whenever the size is known - a zero-length item has the size 0 (renderer evaluated "
             "on 6 model entries)", floor=1)
    views_block_obligations(ctx, rep, "R15l")
    rep.rule("R15k", "= R08d: merging a link-file block into a file's entry adds the block's attributes to the file's own side-file blocks - it does "
             "not replace them (mergeentries evaluated on model entries)", floor=0)
    from .c08 import _merge_by_evaluation
    umn_ = ctx.cls("handlers.UMN.UMNDirHandler")
    me_ = prog.resolve_method(umn_, "mergeentries") if umn_ else None
    if me_ is not None and not _merge_by_evaluation(ctx, rep, umn_, me_, rule="R15k"):
        rep.ok("R15k", "mergeentries: decided by its shape under C08 (R08d), the evaluation could not follow it", ctx.where(me_), "", key="R15k|shape", nontrivial=False)
    rep.rule("R15e", "sidecar reader: per configured extension, text lines right-stripped and newline-joined into the block", floor=1)
    gp = ctx.cls("protocols.gopherp.GopherPlusProtocol")
    plain = ctx.cls("protocols.rfc1436.GopherProtocol")
    if gp is None or plain is None:
        rep.fail("R15a", "Gopher+ protocol", detail="GopherPlusProtocol / GopherProtocol not found")
        return
    plain_render = prog.resolve_method(plain, "renderobjinfo")
    for P in prog.subclasses(gp):
        gi = prog.resolve_method(P, "getinfoblock")
        if gi is None:
            rep.fail("R15a", f"{P.qualname}.getinfoblock", detail="+INFO renderer missing")
            continue
        if gi.cls is not P and P is not gp:
            continue
        calls = [n for n in ast.walk(gi.node) if isinstance(n, ast.Call) and isinstance(n.func, ast.Attribute) and n.func.attr == "renderobjinfo"]
        problems = []
        if not calls:
            problems.append("+INFO is not produced by renderobjinfo at all")
        for c in calls:
            t = ctx.resolver.resolve(c, gi, P)
            if not (t.kind == "repo" and plain_render is not None and t.funcs == [plain_render]):
                problems.append(f"`{norm(c.func)}` resolves to {[f.qualname for f in t.funcs]} for {P.name}, not to the plain Gopher line renderer "
                                "(+INFO would no longer be identical to the menu line)")
        rets = [n for n in ast.walk(gi.node) if isinstance(n, ast.Return) and n.value is not None]
        for r in rets:
            v = r.value
            ok = isinstance(v, ast.BinOp) and isinstance(v.op, ast.Add) and isinstance(v.left, ast.Constant) and v.left.value == "+INFO: " \
                and v.right in calls
            if not ok and not (isinstance(v, ast.JoinedStr) and len(v.values) == 2 and isinstance(v.values[0], ast.Constant)
                               and v.values[0].value == "+INFO: " and isinstance(v.values[1], ast.FormattedValue) and v.values[1].value in calls):
                problems.append("+INFO line is not exactly '+INFO: ' followed by the menu line")
        rep.add("R15a", f"{gi.qualname} for {P.name}", not problems, ctx.where(gi), "; ".join(problems), key=f"R15a|{P.qualname}")

    # ------------------------------------------------------------------ R15b
    for P in prog.subclasses(gp):
        sb = P.methods.get("getsupportedblocknames")
        if sb is None:
            continue
        names = []
        evaluated = None
        try:
            from ..paths import Const as _C, Walker as _W

            def _cv(call, target, st):
                if isinstance(call.func, ast.Attribute) and call.func.attr == "geteadict":
                    return _C({"ABSTRACT": "x", "KEYWORDS": "y"})
                return None

            outs = set()
            for p_ in _W(prog, ctx.resolver, call_value=_cv, exact_loops=True, unroll=8,
                         inline=lambda fn, t, d: d < 3 and t.bound_cls is not None).run(sb, P):
                if p_.kind == "return" and p_.value is not None and p_.value.kind == "const" and isinstance(p_.value.value, (list, tuple)):
                    outs.add(tuple(p_.value.value))
                else:
                    outs.add(None)
            if len(outs) == 1 and None not in outs:
                evaluated = list(next(iter(outs)))
        except Exception:
            evaluated = None
        if evaluated is not None:
            names = [x for x in evaluated if isinstance(x, str) and x.startswith("+") and x not in ("+ABSTRACT", "+KEYWORDS")]
        for n in ast.walk(sb.node):
            if evaluated is None and isinstance(n, ast.List):
                for e in n.elts:
                    if isinstance(e, ast.Constant) and isinstance(e.value, str) and e.value.startswith("+"):
                        names.append(e.value)
        for nm in names:
            m = prog.resolve_method(P, "get" + nm[1:].lower() + "block")
            rep.add("R15b", f"{P.qualname}: renderer for {nm}", m is not None, ctx.where(sb),
                    f"block {nm} is advertised but get{nm[1:].lower()}block does not exist: the information request fails" if m is None else "",
                    key=f"R15b|{P.qualname}|{nm}")
        if P is gp:
            text = norm(sb.node)
            ok = "geteadict()" in text and all(x in names for x in ("+INFO", "+ADMIN", "+VIEWS"))
            if evaluated is not None:
                # for an entry with the attributes ABSTRACT and KEYWORDS: the three fixed blocks and one block per attribute, each once
                ok = sorted(evaluated) == sorted(["+INFO", "+ADMIN", "+VIEWS", "+ABSTRACT", "+KEYWORDS"])
            rep.add("R15b", f"{sb.qualname}: fixed three + one per extended attribute", ok, ctx.where(sb),
                    "" if ok else "the block list does not contain +INFO/+ADMIN/+VIEWS plus one block per entry.geteadict() key",
                    key="R15b|blocklist")
    gb = prog.resolve_method(gp, "getblock")
    if gb is None:
        rep.fail("R15b", "getblock", detail="block dispatcher missing")
    else:
        text = norm(gb.node)
        dyn = any(isinstance(n, ast.Call) and dotted(n.func) == "getattr" and n.args and norm(n.args[0]) == "self" for n in ast.walk(gb.node))
        table = all(f"self.get{nm[1:].lower()}block" in text for nm in ("+INFO", "+ADMIN", "+VIEWS"))
        ok = (dyn or table) and ("geteadict()" in text or "getea(" in text)
        rep.add("R15b", f"{gb.qualname}: extended attributes first, then get<name>block", ok, ctx.where(gb),
                "" if ok else "getblock does not dispatch to the entry's attributes and the get<name>block renderers", key="R15b|dispatch")

    # ------------------------------------------------------------------ R15c
    length_obligations(ctx, rep, "R15c")

    # ------------------------------------------------------------------ R15d
    from ..report import Report
    from . import c13

    sub = Report("C13")
    c13.check(ctx, sub)
    n = 0
    for o in sub.obligations:
        if o.rule == "R13d":
            n += 1
            rep.add("R15d", o.instance, o.ok, o.where, o.detail, key=o.key.replace("R13d", "R15d"), nontrivial=o.nontrivial)

    # ------------------------------------------------------------------ R15f
    from ..effects import Effects
    from .c14 import shared_state_obligations

    ge0 = ctx.cls("gopherentry.GopherEntry")
    info_funcs = set()
    for C in ([ge0] if ge0 else []) + list(prog.subclasses(gp)):
        for c in prog.mro(C):
            info_funcs.update(c.methods.values())
    n_before = len(rep.obligations)
    shared_state_obligations(ctx, rep, "R15f", Effects(prog, ctx.resolver), info_funcs, sequential=True)
    if len(rep.obligations) == n_before:
        rep.ok("R15f", "no shared state written while item information is built", "pygopherd/gopherentry.py")

    # ------------------------------------------------------------------ R15g
    protocol_independence_obligations(ctx, rep, "R15g")

    # ------------------------------------------------------------------ R15e
    ge = ctx.cls("gopherentry.GopherEntry")
    he = prog.resolve_method(ge, "handleeaext") if ge else None
    if he is None:
        rep.fail("R15e", "GopherEntry.handleeaext", detail="sidecar reader not found")
    elif _sidecars_by_evaluation(ctx, rep, ge, he):
        pass
    else:
        problems = []
        loops = [n for n in ast.walk(he.node) if isinstance(n, ast.For) and "eaexts" in norm(n.iter)]
        if not loops:
            problems.append("sidecar files are not read per configured extension (eaexts)")
        from ..facts import expand_ast
        from ..structure import bind_params, helper_calls

        # the reader and the helpers it delegates to (their parameters stand for the reader's arguments)
        scopes = [(he, {})] + [(g, b) for g, _, caller, b in helper_calls(prog, ctx.resolver, he, ge, depth=1) if caller is he]
        opens = [(n, fn, b) for fn, b in scopes for n in ast.walk(fn.node) if isinstance(n, ast.Call) and isinstance(n.func, ast.Attribute) and n.func.attr == "open"]
        for o, fn, b in opens:
            mode = o.args[1] if len(o.args) > 1 else None
            if not (isinstance(mode, ast.Constant) and mode.value == "r"):
                problems.append("sidecar file not opened in text mode 'r'")
            a0 = expand_ast(bind_params(expand_ast(o.args[0], fn), b), he) if o.args else None
            if not (a0 is not None and isinstance(a0, ast.BinOp) and isinstance(a0.op, ast.Add)):
                problems.append("sidecar name is not <path> + <extension>")
        seteas = [(n, fn) for fn, b in scopes for n in ast.walk(fn.node) if isinstance(n, ast.Call) and isinstance(n.func, ast.Attribute) and n.func.attr == "setea"]
        if not seteas:
            problems.append("the sidecar text is not stored as an extended attribute")
        for s, fn in seteas:
            if len(s.args) == 2:
                v = expand_ast(s.args[1], fn)
                attrs = {n.func.attr for n in ast.walk(v) if isinstance(n, ast.Call) and isinstance(n.func, ast.Attribute)}
                if not (attrs & {"readlines", "read", "readline", "splitlines"}):
                    problems.append("the block text is not read from the sidecar file")
                if not (attrs & {"rstrip", "strip", "splitlines"}):
                    problems.append("the sidecar's lines are not right-stripped (line ends would leak into the block)")
                if "join" not in attrs and not (attrs & {"read"}):
                    problems.append("the sidecar's lines are not joined into one block text")
        rep.add("R15e", f"{he.qualname}: sidecar lines become the block's lines", not problems, ctx.where(he), "; ".join(sorted(set(problems))),
                key="R15e|handleeaext")


# ---------------------------------------------------------------------------------------------- R15j

def views_block_obligations(ctx, rep, rule="R15l"):
    """+VIEWS names the MIME type, the language when there is one, and the size when it is known - zero included: the renderer is
    evaluated on model entries."""
    from ..paths import Const, PathLimit, Walker

    prog = ctx.prog
    gp = ctx.cls("protocols.gopherp.GopherPlusProtocol")
    f = prog.resolve_method(gp, "getviewsblock") if gp else None
    if f is None or len(f.params) < 2:
        rep.fail(rule, "GopherPlusProtocol.getviewsblock", detail="+VIEWS renderer not found")
        return
    cases = [({"mimetype": "text/plain", "language": None, "size": 5000}, "+VIEWS:\r\n text/plain: <4k>\r\n"),
             ({"mimetype": "text/plain", "language": None, "size": 0}, "+VIEWS:\r\n text/plain: <0k>\r\n"),
             ({"mimetype": "image/gif", "language": "En_US", "size": 0}, "+VIEWS:\r\n image/gif En_US: <0k>\r\n"),
             ({"mimetype": "text/html", "language": None, "size": None}, "+VIEWS:\r\n text/html:\r\n"),
             ({"mimetype": "application/gopher-menu", "language": None, "size": 1023}, "+VIEWS:\r\n application/gopher-menu: <0k>\r\n"),
             ({"mimetype": None, "language": None, "size": 10}, "")]
    problems, n = [], 0
    for vals, want in cases:
        holder = {}

        def cv(call, target, st, _v=vals):
            fn = call.func
            if isinstance(fn, ast.Attribute) and isinstance(fn.value, ast.Name) and fn.value.id == f.params[1] and fn.attr.startswith("get") and fn.attr[3:] in _v:
                v = _v[fn.attr[3:]]
                a = holder["w"].cur_args or []
                return Const(v) if v is not None or not a else a[0]
            return None

        w = Walker(prog, ctx.resolver, call_value=cv, exact_loops=True, unroll=4, max_paths=500,
                   inline=lambda fn, t, d: d < 3 and (t.bound_cls is not None or (fn.cls is None and fn.module.name.startswith("pygopherd.protocols"))))
        holder["w"] = w
        outs = set()
        try:
            for p in w.run(f, gp, env={f.params[1]: Const("<entry>")}):
                outs.add(p.value.value if p.kind == "return" and p.value is not None and p.value.kind == "const" else ("<" + str(p.value) + ">" if p.kind == "raise" else "?"))
        except (PathLimit, Exception):
            outs = {"?"}
        if len(outs) != 1 or "?" in outs:
            continue
        n += 1
        got = next(iter(outs))
        if got != want:
            problems.append(f"for an entry with type {vals['mimetype']!r}, language {vals['language']!r} and size {vals['size']!r} the block is {got!r}, prescribed {want!r}")
    rep.add(rule, f"{f.qualname}: type, language and size - also a size of zero [{n} of {len(cases)} evaluated]", not problems and n >= 3, ctx.where(f),
            "; ".join(problems[:2]) if problems else ("" if n >= 3 else "the walker could not follow the renderer"), key=f"{rule}|views", nontrivial=n > 0)


def ea_block_obligations(ctx, rep, rule="R15j"):
    from ..paths import Const, PathLimit, Walker

    prog = ctx.prog
    gp = ctx.cls("protocols.gopherp.GopherPlusProtocol")
    ge = ctx.cls("gopherentry.GopherEntry")
    gb = prog.resolve_method(gp, "getblock") if gp else None
    getea = prog.resolve_method(ge, "getea") if ge else None
    getdict = prog.resolve_method(ge, "geteadict") if ge else None
    if gb is None or getea is None or getdict is None or len(gb.params) < 3:
        rep.fail(rule, "GopherPlusProtocol.getblock / GopherEntry.getea", detail="block renderer or entry accessors not found")
        return
    EA = {"ABSTRACT": "", "KEYWORDS": "a\nb", "ASK": " "}
    want = {"+ABSTRACT": "+ABSTRACT:\r\n", "+KEYWORDS": "+KEYWORDS:\r\n a\r\n b\r\n", "+ASK": "+ASK:\r\n  \r\n"}

    def one(func, cls, env, facts, cv=None, holder=None):
        w = Walker(prog, ctx.resolver, call_value=cv, exact_loops=True, unroll=6, assumptions=dict(facts), max_paths=5000,
                   inline=lambda fn, t, d: d < 3 and (t.bound_cls is not None or (fn.cls is None and fn.module.name.startswith("pygopherd")
                                                                                       and fn.module.name not in ("pygopherd.logger", "pygopherd.GopherExceptions"))))
        if holder is not None:
            holder["w"] = w
        outs = set()
        try:
            for p in w.run(func, cls, env=env, facts=dict(facts)):
                if p.kind == "raise":
                    outs.add(("raise", str(p.value)))
                elif p.kind == "return" and p.value is not None and p.value.kind == "const":
                    outs.add(("val", repr(p.value.value)))
                else:
                    outs.add(("?", ""))
        except PathLimit:
            outs = {("?", "")}
        return next(iter(outs)) if len(outs) == 1 else ("?", "")

    facts_e = {"self.ea": Const(dict(EA))}
    problems, n = [], 0
    for block, expected in want.items():
        holder = {}

        def cv(call, target, st):
            f = call.func
            if not (isinstance(f, ast.Attribute) and isinstance(f.value, ast.Name) and f.value.id == gb.params[2]):
                return None
            a = holder["w"].cur_args or []
            if f.attr == "geteadict":
                r = one(getdict, ge, {}, facts_e)
                return Const(ast.literal_eval(r[1])) if r[0] == "val" else None
            if f.attr == "getea" and a and all(x.kind == "const" for x in a):
                env = {getea.params[1]: a[0]}
                dflt = getea.node.args.defaults
                for prm, d in zip(getea.params[len(getea.params) - len(dflt):], dflt):
                    if isinstance(d, ast.Constant):
                        env[prm] = Const(d.value)
                if len(a) > 1 and len(getea.params) > 2:
                    env[getea.params[2]] = a[1]
                r = one(getea, ge, env, facts_e)
                return Const(ast.literal_eval(r[1])) if r[0] == "val" else None
            return None

        got = one(gb, gp, {gb.params[1]: Const(block)}, {}, cv=cv, holder=holder)
        if got[0] == "?":
            continue
        n += 1
        if got[0] == "raise":
            problems.append(f"for an entry whose {block[1:]} side file holds {EA[block[1:]]!r}, getblock({block!r}) raises {got[1]}")
        elif got[1] != repr(expected):
            problems.append(f"for an entry whose {block[1:]} side file holds {EA[block[1:]]!r}, getblock({block!r}) gives {got[1]}, prescribed {expected!r}")
    rep.add(rule, f"{gb.qualname}: blocks of side files, empty ones included [{n} of {len(want)} evaluated]", not problems and n >= 2, ctx.where(gb),
            "; ".join(problems[:2]) if problems else ("" if n >= 2 else "the walker could not follow the renderer"), key=f"{rule}|getblock", nontrivial=n >= 2)
