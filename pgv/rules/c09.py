"""C09  gophermap files are rendered line for line as documented - decided on representatives.

R09a  BuckGophermapHandler.prepare() is evaluated by the walker on scripted gophermap files (the file is a list of byte
      lines, entries are modelled by what is stored into them) in three directories (/lotsa, the root, /a/b): the entry
      list has to be exactly one entry per line, in file order, with the documented meaning of each line shape - info
      line, blank line, link with 1 to 4 fields, absolute / relative / URL: selector, missing selector = description,
      remote host with and without port, unparsable port.
R09b  getinfoentry(text) gives a type-i entry named text.
R09c  the listing handed to every protocol is the list prepare() built (getdirlist() returns it unchanged).
Not decided: lines outside these shapes; what the protocols make of the entries (C06).
"""

from __future__ import annotations

import ast

from ..loader import dotted, norm
from ..paths import Const, Walker

# (gophermap line without line end, expected) - expected: ("info", text) or ("link", type, name, selector, host, port)
# {B} stands for the directory's selector base ("" for the root)
LINES = [
    ("Welcome to the server", ("info", "Welcome to the server")),
    ("", ("info", "")),
    ("1Lots of stuff\tstuff", ("link", "1", "Lots of stuff", "{B}/stuff", None, None)),
    ("1src\t", ("link", "1", "src", "{B}/src", None, None)),
    ("0About this place\t/about.txt", ("link", "0", "About this place", "/about.txt", None, None)),
    ("#not a comment, just text", ("info", "#not a comment, just text")),
    ("0file in a subdirectory\tsub/file.txt", ("link", "0", "file in a subdirectory", "{B}/sub/file.txt", None, None)),
    ("hThe web\tURL:http://example.org/", ("link", "h", "The web", "URL:http://example.org/", None, None)),
    ("1Elsewhere\t/pub\tgopher.example.org", ("link", "1", "Elsewhere", "/pub", "gopher.example.org", None)),
    ("1Elsewhere, other port\t/pub\tgopher.example.org\t7070", ("link", "1", "Elsewhere, other port", "/pub", "gopher.example.org", 7070)),
    ("1Bad port\t/pub\tgopher.example.org\tseventy", ("link", "1", "Bad port", "/pub", "gopher.example.org", None)),
    ("1home\t\tgopher.example.org\t70", ("link", "1", "home", "{B}/home", "gopher.example.org", 70)),
    ("1Archive, port only\t/archive\t\t7070", ("link", "1", "Archive, port only", "/archive", None, 7070)),
    # a missing selector is the description itself - which may be absolute or a URL: then nothing is put in front of it
    ("1/pub\t", ("link", "1", "/pub", "/pub", None, None)),
    ("hURL:http://example.org/x\t", ("link", "h", "URL:http://example.org/x", "URL:http://example.org/x", None, None)),
    # URL: selectors are kept as written whatever the scheme looks like (mailto:, news: have no //)
    ("hWrite to us\tURL:mailto:admin@example.org", ("link", "h", "Write to us", "URL:mailto:admin@example.org", None, None)),
    ("hThe group\tURL:news:comp.infosystems.gopher", ("link", "h", "The group", "URL:news:comp.infosystems.gopher", None, None)),
    ("  indented text", ("info", "indented text")),
    ("9binary\tfiles/a.bin", ("link", "9", "binary", "{B}/files/a.bin", None, None)),
    # a line ends at the line feed and nowhere else: form feed, vertical tab, a lone CR, U+2028 and U+0085 are part of the text
    ("Chapter one\x0cChapter two", ("info", "Chapter one\x0cChapter two")),
    ("0Page\x0bbreak, soft\u2028return\tfile.txt", ("link", "0", "Page\x0bbreak, soft\u2028return", "{B}/file.txt", None, None)),
    ("left\rright\x85end", ("info", "left\rright\x85end")),
]
DIRS = [("/lotsa", "/lotsa"), ("/", ""), ("/a/b", "/a/b")]


class _Obj:
    def __init__(self, what):
        self.what = what

    def __repr__(self):
        return f"<{self.what}>"


def evaluate_prepare(ctx, H, prep, selector, lines, line_end=b"\n"):
    """-> (list of entries as tuples | None, reason)"""
    prog = ctx.prog
    script = [l.encode() + line_end for l in lines]
    holder = {}
    SETTERS = {"settype": "type", "setname": "name", "sethost": "host", "setport": "port", "setselector": "selector"}
    GETTERS = {"gettype": "type", "getname": "name", "gethost": "host", "getport": "port", "getselector": "selector"}

    def ent_of(v):
        return v.value if v is not None and v.kind == "const" and isinstance(v.value, tuple) and v.value[:1] == ("ENT",) else None

    def cv(call, target, st):
        w = holder["w"]
        f = call.func
        a = w.cur_args or []
        d = dotted(f) or ""
        if isinstance(f, ast.Attribute) and f.attr == "open" and "vfs" in norm(f.value):
            st.facts["__opened"] = a[0] if a else Const(None)
            return Const(list(script))
        if isinstance(f, ast.Attribute) and w.cur_recv is not None and w.cur_recv.kind == "const" and isinstance(w.cur_recv.value, list) \
                and w.cur_recv.value == script:
            if f.attr == "readline":
                i = st.facts.get("__rl", Const(0)).value
                st.facts["__rl"] = Const(i + 1)
                return Const(script[i] if i < len(script) else b"")
            if f.attr == "readlines":
                return Const(list(script))
            if f.attr == "read":
                return Const(b"".join(script))
            if f.attr in ("close", "__exit__", "__enter__"):
                return Const(None)
        if d.split(".")[-1] == "GopherEntry" and a:
            k = st.facts.get("__nent", Const(0)).value
            st.facts["__nent"] = Const(k + 1)
            st.facts[f"__ent{k}.selector"] = a[0]
            return Const(("ENT", k))
        if d.split(".")[-1] == "getinfoentry" and a:
            return Const(("INFO", a[0].value if a[0].kind == "const" else "?"))
        if isinstance(f, ast.Attribute) and ent_of(w.cur_recv) is not None:
            k = ent_of(w.cur_recv)[1]
            if f.attr in SETTERS and a:
                st.facts[f"__ent{k}.{SETTERS[f.attr]}"] = a[0]
                return Const(None)
            if f.attr in GETTERS:
                v = st.facts.get(f"__ent{k}.{GETTERS[f.attr]}")
                return v if v is not None else (a[0] if a else Const(None))
            if f.attr.startswith("populate"):
                return Const(None)
        if d.split(".")[-1] == "BaseHandler":
            return Const(_Obj("probe"))
        if isinstance(f, ast.Attribute) and f.attr in ("exists", "isfile", "isdir") and "vfs" in norm(f.value):
            return Const(False)
        if isinstance(f, ast.Attribute) and f.attr == "isrequestsecure":
            return Const(True)
        return None

    def sh(target, val, st):
        if isinstance(target, ast.Attribute) and isinstance(target.value, ast.Name):
            e = ent_of(st.env.get(target.value.id))
            if e is not None:
                st.facts[f"__ent{e[1]}.{target.attr}"] = val

    def ev(node, st):
        if isinstance(node, ast.Attribute) and isinstance(node.ctx, ast.Load) and isinstance(node.value, ast.Name):
            e = ent_of(st.env.get(node.value.id))
            if e is not None:
                return st.facts.get(f"__ent{e[1]}.{node.attr}", Const(None))
        return None

    facts = {"self.selector": Const(selector)}
    w = Walker(prog, ctx.resolver, call_value=cv, store_hook=sh, expr_value=ev, assumptions=facts, sticky=set(facts), exact_loops=True,
               unroll=len(script) + 3, max_paths=400000,
               inline=lambda fn, t, d: d < 3 and (t.bound_cls is not None or (fn.cls is None and fn.module.name.startswith("pygopherd.")
                                                                                   and fn.name not in ("getinfoentry", "log"))) and fn.name not in ("getentry",))
    holder["w"] = w
    try:
        paths = w.run(prep, H, facts=dict(facts))
    except Exception as exc:
        return None, f"the evaluator could not follow prepare() ({type(exc).__name__})"
    outs = set()
    for p in paths:
        if p.kind == "raise":
            return None, f"prepare() raises {p.value} on this file"
        ents = p.state.facts.get("self.entries")
        if ents is None or ents.kind != "const" or not isinstance(ents.value, (list, tuple)):
            return None, "the entry list is not determined"
        res = []
        for x in ents.value:
            if isinstance(x, tuple) and x[:1] == ("INFO",):
                res.append(("info", x[1]))
            elif isinstance(x, tuple) and x[:1] == ("ENT",):
                fld = {}
                for name in ("type", "name", "selector", "host", "port"):
                    v = p.state.facts.get(f"__ent{x[1]}.{name}")
                    fld[name] = (v.value if v.kind == "const" else "?") if v is not None else None
                res.append(("link", fld["type"], fld["name"], fld["selector"], fld["host"], fld["port"]))
            else:
                res.append(("?", repr(x)))
        opened = p.state.facts.get("__opened")
        outs.add((tuple(res), opened.value if opened is not None and opened.kind == "const" else None))
    if len(outs) != 1:
        return None, "the entry list depends on something the analysis cannot decide"
    (res, opened) = next(iter(outs))
    return (list(res), opened), ""


def check(ctx, rep):
    prog = ctx.prog
    rep.rule("R09a", "a scripted gophermap gives exactly one entry per line, in file order, with the documented meaning of each line shape "
             "(evaluated in three directories, LF and CRLF line ends)", floor=3)
    rep.rule("R09f", "= R06e: a link line that names a host or a port (or both) is rendered as a link to that server by every protocol; only a line "
             "that names neither is a link to this server", floor=1)
    from .c06 import link_target_obligations
    link_target_obligations(ctx, rep, "R09f")
    rep.rule("R09e", "= R03m: the description of a gophermap line is an argument of the format operations that render it, never part of a format "
             "string (a `%` in a description must not end the menu)", floor=1)
    from .c03 import format_string_obligations
    format_string_obligations(ctx, rep, "R09e")
    rep.rule("R09d", "a directory that holds a gophermap, and a regular file named *.gophermap, are rendered from the gophermap - whatever the "
             "directory is called; nothing else is", floor=1)
    rep.rule("R09b", "getinfoentry(text): an informational entry of type i named text", floor=1)
    rep.rule("R09c", "getdirlist() hands every protocol the list prepare() built", floor=1)
    H = ctx.cls("handlers.gophermap.BuckGophermapHandler")
    prep = prog.resolve_method(H, "prepare") if H else None
    if prep is None:
        rep.fail("R09a", "BuckGophermapHandler.prepare", detail="gophermap handler not found")
        return
    rep.analysed(prep.qualname)
    rep.assume("lines of the shapes listed in DESIGN.md (info, blank, link with 1-4 fields); entries are what is stored into the entry objects")
    for (selector, base), line_end in [(d_, b"\n") for d_ in DIRS] + [(DIRS[0], b"\r\n")]:
        got, why = evaluate_prepare(ctx, H, prep, selector, [l for l, _ in LINES], line_end)
        label = f"{prep.qualname}: gophermap of {selector!r}" + (" (CRLF)" if line_end != b"\n" else "")
        if got is None:
            rep.fail("R09a", label, ctx.where(prep), why, key=f"R09a|{selector}|{line_end!r}|undetermined")
            continue
        entries, opened = got
        want = []
        for _, exp in LINES:
            want.append(tuple(x.replace("{B}", base) if isinstance(x, str) else x for x in exp))
        problems = []
        if opened != base + "/gophermap":
            problems.append(f"the file read is {opened!r}, not {base + '/gophermap'!r}")
        if len(entries) != len(want):
            problems.append(f"{len(LINES)} lines give {len(entries)} entries (exactly one entry per line)")
        for i, (g, w_) in enumerate(zip(entries, want)):
            if g != w_:
                problems.append(f"line {i + 1} {LINES[i][0]!r} gives {g!r}, documented: {w_!r}")
                if len(problems) >= 3:
                    break
        rep.add("R09a", label, not problems, ctx.where(prep), "; ".join(problems[:3]), key=f"R09a|{selector}|{line_end!r}")

    # ------------------------------------------------------------------ R09d
    import os as _os
    import stat as _stat

    from ..paths import PathLimit, truth

    can = prog.resolve_method(H, "canhandlerequest")
    if can is None:
        rep.fail("R09d", "BuckGophermapHandler.canhandlerequest", detail="gophermap handler test not found")
    else:
        DIRM, REGM = _stat.S_IFDIR | 0o755, _stat.S_IFREG | 0o644
        scenarios = [("/docs", DIRM, True, True, "a directory holding a gophermap"), ("/docs", DIRM, False, False, "a directory without gophermap"),
                     ("/docs/menu.gophermap", REGM, False, True, "a regular file named *.gophermap"),
                     ("/atlas.gophermap", DIRM, True, True, "a directory named *.gophermap that holds a gophermap"),
                     ("/atlas.gophermap", DIRM, False, False, "a directory named *.gophermap without gophermap"),
                     ("/docs/a.txt", REGM, False, False, "an ordinary file"), ("/", DIRM, True, True, "the root with a gophermap"),
                     ("/gone", None, False, False, "something that does not exist")]
        problems, n = [], 0
        for sel, mode, has_map, want, label in scenarios:
            def cvd(call, target, st, _sel=sel, _has=has_map):
                f = call.func
                if isinstance(f, ast.Attribute) and f.attr in ("isfile", "exists") and "vfs" in norm(f.value):
                    a = holder_d["w"].cur_args or []
                    if a and a[0].kind == "const":
                        base = "" if _sel == "/" else _sel
                        return Const(bool(_has and a[0].value in (base + "/gophermap", _sel + "/gophermap")))
                    return None
                if isinstance(f, ast.Attribute) and f.attr == "isdir" and "vfs" in norm(f.value):
                    return Const(mode is not None and _stat.S_ISDIR(mode))
                return None

            holder_d = {}
            facts = {"self.selector": Const(sel), "self.statresult": Const(_os.stat_result((mode, 1, 1, 1, 0, 0, 10, 0, 0, 0)) if mode is not None else None)}
            wd = Walker(prog, ctx.resolver, call_value=cvd, assumptions=dict(facts), exact_loops=True, unroll=4, max_paths=4000,
                        inline=lambda fn, t, d: d < 3 and (t.bound_cls is not None or (fn.cls is None and fn.module is can.module)))
            holder_d["w"] = wd
            try:
                outs = {truth(p.value) if p.kind == "return" and p.value is not None else ("raise" if p.kind == "raise" else False) for p in wd.run(can, H, facts=dict(facts))}
            except PathLimit:
                outs = {None}
            if len(outs) != 1 or next(iter(outs)) not in (True, False):
                continue
            n += 1
            got = next(iter(outs))
            if got is not want:
                problems.append(f"{label} ({sel!r}) is {'taken' if got else 'not taken'} by the gophermap handler")
        rep.add("R09d", f"{can.qualname}: which requests are rendered from a gophermap [{n} of {len(scenarios)} evaluated]", not problems and n >= 5, ctx.where(can),
                "; ".join(problems[:3]) if problems else ("" if n >= 5 else "the walker could not follow the test"), key="R09d|canhandlerequest", nontrivial=n >= 5)

    # ------------------------------------------------------------------ R09b
    gi = ctx.func("gopherentry.getinfoentry")
    if gi is None:
        rep.fail("R09b", "gopherentry.getinfoentry", detail="info entry factory not found")
    else:
        holder = {}

        def cv(call, target, st):
            d = dotted(call.func) or ""
            if d.split(".")[-1] == "GopherEntry":
                return Const(("ENT", 0))
            w = holder["w"]
            if isinstance(call.func, ast.Attribute) and w.cur_recv is not None and w.cur_recv.kind == "const" and w.cur_recv.value == ("ENT", 0) \
                    and call.func.attr.startswith("set") and w.cur_args:
                st.facts["__e." + call.func.attr[3:]] = w.cur_args[0]
                return Const(None)
            return None

        def sh(target, val, st):
            if isinstance(target, ast.Attribute) and isinstance(target.value, ast.Name):
                v = st.env.get(target.value.id)
                if v is not None and v.kind == "const" and v.value == ("ENT", 0):
                    st.facts["__e." + target.attr] = val

        w = Walker(prog, ctx.resolver, call_value=cv, store_hook=sh, exact_loops=True)
        holder["w"] = w
        outs = set()
        for p in w.run(gi, None, env={gi.params[0]: Const("some text")}):
            t, n = p.state.facts.get("__e.type"), p.state.facts.get("__e.name")
            ret_ok = p.kind == "return" and p.value is not None and p.value.kind == "const" and p.value.value == ("ENT", 0)
            outs.add((t.value if t is not None and t.kind == "const" else None, n.value if n is not None and n.kind == "const" else None, ret_ok))
        ok = outs == {("i", "some text", True)}
        rep.add("R09b", f"{gi.qualname}: type i, named by the text", ok, ctx.where(gi),
                "" if ok else f"getinfoentry('some text') gives (type, name, entry returned) = {sorted(map(str, outs))}", key="R09b|getinfoentry")

    # ------------------------------------------------------------------ R09c
    gd = prog.resolve_method(H, "getdirlist")
    problems = []
    if gd is None:
        problems.append("getdirlist not found")
    else:
        rets = [n for n in ast.walk(gd.node) if isinstance(n, ast.Return)]
        if not rets or any(norm(r.value) != "self.entries" for r in rets if r.value is not None) or any(r.value is None for r in rets):
            problems.append(f"getdirlist() returns {[norm(r.value) if r.value is not None else 'None' for r in rets]} instead of the list prepare() built")
        if any(isinstance(n, ast.Attribute) and norm(n) == "self.protocol" for n in ast.walk(gd.node)):
            problems.append("getdirlist() looks at the protocol")
    isd = prog.resolve_method(H, "isdir")
    if isd is None or not any(isinstance(n, ast.Return) and isinstance(n.value, ast.Constant) and n.value.value is True for n in ast.walk(isd.node)):
        problems.append("the handler does not present itself as a directory")
    rep.add("R09c", f"{H.qualname}: one entry list for every protocol", not problems, ctx.where(gd) if gd else "", "; ".join(problems), key="R09c|getdirlist")
