"""C07  A listing is exactly the visible entries, once each, in a stable order (structural clauses).

R07a  the names the entries are built from are sorted when they are iterated
R07b  operating-system enumeration order cannot leak: a loop over listdir() either
      iterates a sorted sequence or its body (with the hook overrides of each concrete
      class) has no order-sensitive effect besides appending to the list sorted by R07a
R07c  the ignore pattern is consulted only while building listings, never when
      deciding whether a selector can be served
R07d  dot-files never enter the listing (UMN), whatever the ignore pattern says
R07e  the final comparison is effect-free and looks only at name and number
R07g  entries hidden by metadata (Type=X blocks) stay hidden (shared with C08's merge rule)
R07h  VFS_Real.listdir() returns the OS's names, decoded with the file-system codec and nothing else
R07f  every name that passes the filter is appended once; nothing else is
Set equality between listing and directory contents is not decided.
"""

from __future__ import annotations

import ast

from ..effects import Effects
from ..facts import expand_ast
from ..loader import dotted, norm
from ..paths import Const, State, Walker, truth
from .c10 import _mut_summary


def _is_sorted_expr(node) -> bool:
    return isinstance(node, ast.Call) and dotted(node.func) == "sorted"


def _initfiles_by_evaluation(ctx, rep, dirbase, pi) -> bool:
    """prep_initfiles() evaluated on a scripted directory: the file list holds exactly the names the filter accepted, each
    once; the filter is asked about selectorbase/name and the name; a name whose test fails with OSError is left out and the
    others stay.  True when the evaluation decided."""
    from ..paths import Const as _C, Walker as _W

    prog = ctx.prog
    names = ["b.txt", ".hidden", "a.txt", "skip~", "z dir", "c.txt"]
    reject = {"skip~"}
    failing = {"broken"}
    holder = {}

    def cv(call, target, st):
        f = call.func
        w = holder["w"]
        if isinstance(f, ast.Attribute) and f.attr == "listdir":
            return _C(list(names))
        if isinstance(f, ast.Attribute) and f.attr == "prep_initfiles_canaddfile":
            a = w.cur_args or []
            asked = st.facts.get("__asked")
            asked = asked.value if asked is not None and asked.kind == "const" else ()
            rec = tuple(x.value if x.kind == "const" else "?" for x in a[1:3])
            st.facts["__asked"] = _C(asked + (rec,))
            nm = a[2].value if len(a) >= 3 and a[2].kind == "const" else None
            return _C(nm not in reject) if nm is not None else None
        if isinstance(f, ast.Attribute) and f.attr == "get" and "config" in norm(f.value):
            return _C("IGNOREPATT")
        return None

    def rp(call, target):
        return []

    # the failing name: the filter raises OSError for it (a stat inside an overriding filter can fail)
    def rp2(call, target):
        return []

    w = _W(prog, ctx.resolver, call_value=cv, exact_loops=True, unroll=len(names) + 3, assumptions={"self.selectorbase": _C("/SB")}, sticky={"self.selectorbase"},
           inline=lambda fn, t, d: d < 3 and (t.bound_cls is not None or (fn.cls is None and fn.module.name.startswith("pygopherd.handlers"))) and fn.name not in ("prep_initfiles_canaddfile", "getselector"))
    holder["w"] = w
    try:
        paths = w.run(pi, dirbase, facts={"self.selectorbase": _C("/SB")})
    except Exception:
        return False
    # keep the paths on which exactly the call for the failing name raised
    outs = set()
    for p in paths:
        if p.kind == "raise":
            continue
        raised = [e for e in p.events if e.kind == "raise" and e.extra == "implicit"]
        asked = p.state.facts.get("__asked")
        asked = asked.value if asked is not None and asked.kind == "const" else ()
        # the raise for a call is recorded before the hook answers: match raises to names by position
        files = p.state.facts.get("self.files")
        if files is None or files.kind != "const" or not isinstance(files.value, (list, tuple)):
            return False
        outs.add((tuple(files.value), asked, len(raised)))
    if not outs:
        return False
    problems = []
    # the path without any injected failure
    clean = [o for o in outs if o[2] == 0]
    if len(clean) != 1:
        return False
    files, asked, _ = clean[0]
    want = tuple(sorted(n for n in names if n not in reject))
    if tuple(sorted(files)) != want or len(files) != len(set(files)):
        problems.append(f"for a directory holding {names!r} where the filter rejects {sorted(reject)!r} the file list becomes {list(files)!r}")
    for n in names:
        if ("/SB/" + n, n) not in asked:
            problems.append(f"the filter is not asked about ('/SB/{n}', {n!r}) (it was asked {[a for a in asked if a[1] == n] or 'nothing'})")
            break
    # second scenario: the filter fails with OSError for one name (an overriding filter reads link files).  Whether that failure is
    # contained is C12's question; here: *if* the listing goes on, the names after the failing one are still in it
    from ..paths import AVal as _AV

    def cv2(call, target, st):
        f = call.func
        if isinstance(f, ast.Attribute) and f.attr == "prep_initfiles_canaddfile":
            a = holder2["w"].cur_args or []
            nm = a[2].value if len(a) >= 3 and a[2].kind == "const" else None
            if nm == "b.txt":
                return _AV("raise", "OSError")
        return cv(call, target, st)

    holder2 = {}
    w2 = _W(prog, ctx.resolver, call_value=cv2, exact_loops=True, unroll=len(names) + 3, assumptions={"self.selectorbase": _C("/SB")}, sticky={"self.selectorbase"},
            inline=lambda fn, t, d: d < 3 and (t.bound_cls is not None or (fn.cls is None and fn.module.name.startswith("pygopherd.handlers"))) and fn.name not in ("prep_initfiles_canaddfile", "getselector"))
    holder2["w"] = holder["w"] = w2
    try:
        paths2 = w2.run(pi, dirbase, facts={"self.selectorbase": _C("/SB")})
    except Exception:
        paths2 = []
    for p in paths2:
        if p.kind == "raise":
            continue
        files = p.state.facts.get("self.files")
        if files is None or files.kind != "const" or not isinstance(files.value, (list, tuple)):
            continue
        lost = [n for n in want if n != "b.txt" and n not in files.value]
        if lost:
            problems.append(f"when the filter fails with OSError for 'b.txt' the scan goes on without {lost!r}: one unreadable name takes the names "
                            "after it out of the listing")
            break
    rep.add("R07f", f"{pi.qualname}: append iff accepted, once", not problems, ctx.where(pi), "; ".join(problems[:3]), key="R07f|prep_initfiles")
    return True



def hash_order_obligations(ctx, rep, rule):
    """Nothing that ends up in a listing is taken from a set in iteration order: the order of a set of strings changes from one
    interpreter start to the next (hash randomisation), so entries, link files or names iterated from one make the menu depend on more
    than names and metadata."""
    prog = ctx.prog
    SETMAKERS = ("set", "frozenset")
    ORDER_FREE = ("sorted", "len", "any", "all", "min", "max", "sum", "set", "frozenset", "bool")
    n_sets, sites = 0, []

    def set_valued(e) -> bool:
        if isinstance(e, (ast.Set, ast.SetComp)):
            return True
        if isinstance(e, ast.Call) and (dotted(e.func) or "") in SETMAKERS:
            return True
        if isinstance(e, ast.BinOp) and isinstance(e.op, (ast.BitOr, ast.BitAnd, ast.Sub, ast.BitXor)):
            return set_valued(e.left) or set_valued(e.right)
        if isinstance(e, ast.Call) and isinstance(e.func, ast.Attribute) and e.func.attr in ("union", "intersection", "difference", "symmetric_difference", "copy") \
                and set_valued(e.func.value):
            return True
        return False

    for mod in prog.modules.values():
        if not mod.name.startswith(("pygopherd.handlers", "pygopherd.protocols")) and mod.name != "pygopherd.gopherentry":
            continue
        if ".tests" in mod.name:
            continue
        classes = list(mod.classes.values())
        funcs = list(mod.functions.values()) + [m for c in classes for m in c.methods.values()]
        # names that hold a set: self.X anywhere in the class hierarchy's module, locals per function
        set_attrs = set()
        for f in funcs:
            for n in ast.walk(f.node):
                if isinstance(n, ast.Assign) and set_valued(n.value):
                    for t in n.targets:
                        if isinstance(t, ast.Attribute) and dotted(t.value) in ("self", "cls"):
                            set_attrs.add(t.attr)
                if isinstance(n, ast.AnnAssign) and n.value is not None and set_valued(n.value) and isinstance(n.target, ast.Attribute):
                    set_attrs.add(n.target.attr)
        for c in classes:
            for k, v in c.attrs.items():
                if set_valued(v):
                    set_attrs.add(k)
        for f in funcs:
            locs = set()
            for n in ast.walk(f.node):
                if isinstance(n, ast.Assign) and set_valued(n.value):
                    locs |= {t.id for t in n.targets if isinstance(t, ast.Name)}

            def is_set(e):
                if set_valued(e):
                    return True
                if isinstance(e, ast.Name) and e.id in locs:
                    return True
                if isinstance(e, ast.Attribute) and dotted(e.value) in ("self", "cls") and e.attr in set_attrs:
                    return True
                return False

            if locs or set_attrs:
                n_sets += 1
            from ..structure import parents

            pm = None
            for n in ast.walk(f.node):
                it = None
                if isinstance(n, (ast.For, ast.AsyncFor)) and is_set(n.iter):
                    it = n.iter
                elif isinstance(n, ast.comprehension) and is_set(n.iter):
                    it = n.iter
                    # a comprehension consumed by an order-free function, or building a set, is fine
                    pm = pm or parents(f.node)
                    comp = pm.get(n)
                    outer = pm.get(comp)
                    if isinstance(comp, ast.SetComp) or (isinstance(outer, ast.Call) and (dotted(outer.func) or "") in ORDER_FREE):
                        it = None
                elif isinstance(n, ast.Call) and n.args and is_set(n.args[0]):
                    d = dotted(n.func) or ""
                    if d in ("list", "tuple", "enumerate", "iter", "next", "zip", "map", "filter") or (
                            isinstance(n.func, ast.Attribute) and n.func.attr in ("extend", "join", "writelines")):
                        it = n.args[0]
                elif isinstance(n, ast.Starred) and is_set(n.value):
                    it = n.value
                if it is not None:
                    sites.append((f, n if not isinstance(n, ast.comprehension) else it, it))
    for f, node, it in sites:
        rep.add(rule, f"{f.qualname}: iteration over {norm(it)[:40]}", False, ctx.where(f, node),
                f"`{norm(it)[:50]}` is a set: its iteration order follows string hashes, which differ from one server start to the next - what is "
                "built from it (entries, link files read, names) comes in an order that names and metadata do not determine; sort it first",
                key=f"{rule}|{f.qualname}|{norm(it)[:50]}")
    if not sites:
        rep.ok(rule, f"no set is iterated in handlers, protocols or entries [{n_sets} functions see a set]", "pygopherd/handlers", "", key=f"{rule}|none")


def check(ctx, rep):
    prog = ctx.prog
    eff = Effects(prog, ctx.resolver)
    rep.rule("R07a", "entries are built from a sorted list of names", floor=1)
    rep.rule("R07b", "loops over listdir() results: sorted iteration, or an order-insensitive body for every concrete class", floor=2)
    rep.rule("R07c", "ignorepatt is read only in listing construction", floor=1)
    rep.rule("R07d", "dot-files are never added to the listing by the UMN handler", floor=1)
    rep.rule("R07e", "entrycmp has no effects and reads only name/num", floor=1)
    rep.rule("R07g", "entries hidden by metadata stay hidden: MergeLinkFiles removes the walked entry for Type=X, never re-adds a block for a walked file, keeps its selector index intact", floor=1)
    rep.rule("R07j", "a listing depends on this directory alone: building it writes no module- or class-level state (a verdict remembered for one "
             "directory must not be replayed for another)", floor=1)
    rep.rule("R07k", "= R10a: a stored listing stands in for the directory only within the configured lifetime - what was listed, hidden or ordered "
             "by metadata that has changed since is generated again", floor=1)
    rep.rule("R07n", "the filter keeps a name out exactly when the configured ignore pattern matches selectorbase/name, in the root as in any other "
             "directory: the base filter is evaluated with the shipped patterns on names on both sides of their alternatives", floor=1)
    rep.rule("R07o", "link files (.Links, .names, .cap/*) are decoded the way directory names are (UTF-8 with surrogateescape): a Path= that names an "
             "entry by bytes that are not UTF-8 still equals that entry's selector, so hiding and merging work for it", floor=1)
    rep.rule("R07p", "= R10f: the selector filter lets ordinary names through (one character long, with dots or blanks inside, starting with a dot, "
             "not UTF-8) - a name it refuses drops out of every listing and cannot be fetched", floor=1)
    rep.rule("R07t", "= R08g: the selector of a link-file block is the one its Path= names (trailing slash dropped for ./ and ~/ paths too) - a block "
             "whose selector differs from the walked entry's hides or renames nothing and shows up as a second entry", floor=5)
    from .c08 import linkfile_text_obligations
    umn_t = ctx.cls("handlers.UMN.UMNDirHandler")
    if umn_t is not None:
        linkfile_text_obligations(ctx, rep, umn_t, "R07t")
    rep.rule("R07s", "= R12f: the file-system view's predicates answer False for what cannot be looked at (name too long, directory not searchable) "
             "instead of raising - the side-file probes of a long but valid name must not drop it from the listing", floor=1)
    from .c12 import vfs_predicate_obligations
    vfs_predicate_obligations(ctx, rep, "R07s")
    rep.rule("R07r", "a dot-file the ignore pattern matches is left out unread: it is parsed as a link file only when the pattern lets its name "
             "through (evaluated for the shipped patterns and the dot-file-excluding pattern the configuration file suggests)", floor=1)
    ignored_linkfile_obligations(ctx, rep, "R07r")
    rep.rule("R07q", "nothing on the listing path iterates a set (for, comprehension, list(), extend(), join()): set order follows randomised string "
             "hashes, so it is not a function of names and metadata; sorted(), len(), membership and the like are fine", floor=1)
    hash_order_obligations(ctx, rep, "R07q")
    rep.rule("R07i", "= R10c: the listing kept for later requests is the final one (hidden names removed, merged, sorted) - never an intermediate list", floor=2)
    rep.rule("R07h", "the real-file-system VFS lists names exactly as the OS returns them (file-system decoding only): the selector built from a listed name is the name on disk", floor=1)
    rep.rule("R07u", "the stat result handed to each candidate handler is the stat of the selector it is asked about: every acceptance test reads it "
             "as that - a stat of a cut or rewritten selector makes members whose names have that shape unservable and drops them from listings", floor=1)
    stat_of_the_asked_selector_obligations(ctx, rep, "R07u")
    rep.rule("R07f", "a name is appended to the file list exactly when the filter accepts it, once", floor=1)
    dirbase = ctx.cls("handlers.dir.DirHandler")
    if dirbase is None:
        rep.fail("R07a", "DirHandler", detail="directory handler not found")
        return
    family = prog.subclasses(dirbase)

    # ------------------------------------------------------------------ R07a
    for C in family:
        prep = prog.resolve_method(C, "prepare")
        pe = prog.resolve_method(C, "prep_entries")
        if prep is None or pe is None:
            continue
        if prep.cls is not C and pe.cls is not C and C is not dirbase:
            continue
        # the loop in prep_entries
        loops = [n for n in ast.walk(pe.node) if isinstance(n, ast.For) and "self.files" in norm(n.iter)]
        sorted_iter = loops and all(_is_sorted_expr(l.iter) for l in loops)
        problems = set()
        if not loops:
            problems.add("prep_entries does not iterate self.files")
        if not sorted_iter:
            w = Walker(prog, ctx.resolver, inline=lambda fn, t, d: t.bound_cls is not None and fn.name == "prepare", max_depth=3)
            for p in w.run(prep, C):
                idx_init = idx_sort = idx_entries = None
                for i, e in enumerate(p.events):
                    if e.kind != "call":
                        continue
                    if e.target.kind == "repo" and any(f.name == "prep_initfiles" for f in e.target.funcs):
                        idx_init = i
                    if isinstance(e.node.func, ast.Attribute) and e.node.func.attr == "sort" and norm(e.node.func.value) == "self.files" \
                            and not e.node.keywords and not e.node.args:
                        idx_sort = i
                    if isinstance(e.node.func, ast.Attribute) and e.node.func.attr == "sort" and norm(e.node.func.value) == "self.files" \
                            and (e.node.keywords or e.node.args):
                        if not all(k.arg == "reverse" for k in e.node.keywords):
                            problems.add("self.files is sorted with a custom key (order no longer a function of the names alone)")
                        idx_sort = i
                    if e.target.kind == "repo" and any(f.name == "prep_entries" for f in e.target.funcs):
                        idx_entries = i
                if idx_entries is not None:
                    if idx_sort is None or idx_sort > idx_entries or (idx_init is not None and idx_sort < idx_init):
                        problems.add("entries are built from self.files without sorting it after it was filled")
        rep.add("R07a", f"{C.qualname}: names sorted before entries are built", not problems, ctx.where(prep), "; ".join(sorted(problems)),
                key=f"R07a|{C.qualname}")

    # ------------------------------------------------------------------ R07b
    for C in family:
        for c in prog.mro(C):
            for m in c.methods.values():
                if prog.resolve_method(C, m.name) is not m:
                    continue
                cands = [n for n in ast.walk(m.node) if isinstance(n, ast.For)]
                cands += [n for n in ast.walk(m.node) if isinstance(n, (ast.ListComp, ast.SetComp, ast.GeneratorExp)) and len(n.generators) == 1]
                for loop in cands:
                    it = expand_ast(loop.iter if isinstance(loop, ast.For) else loop.generators[0].iter, m)
                    if isinstance(it, ast.Name) and it.id in m.params:
                        # the loop lives in a helper that is handed the names: what the (single) caller passes
                        pidx = m.params.index(it.id) - (1 if m.params[:1] == ["self"] else 0)
                        passed = []
                        for c2 in prog.mro(C):
                            for m2 in c2.methods.values():
                                if m2 is m or prog.resolve_method(C, m2.name) is not m2:
                                    continue
                                for n2 in ast.walk(m2.node):
                                    if isinstance(n2, ast.Call) and isinstance(n2.func, ast.Attribute) and n2.func.attr == m.name \
                                            and dotted(n2.func.value) == "self":
                                        a2 = n2.args[pidx] if 0 <= pidx < len(n2.args) else next((k.value for k in n2.keywords if k.arg == it.id), None)
                                        if a2 is not None:
                                            passed.append(expand_ast(a2, m2))
                        if len(passed) == 1:
                            it = passed[0]
                    if "listdir(" not in norm(it):
                        continue
                    loop_iter = loop.iter if isinstance(loop, ast.For) else loop.generators[0].iter
                    is_sorted = _is_sorted_expr(it) or any(
                        isinstance(n, ast.Call) and isinstance(n.func, ast.Attribute) and n.func.attr == "sort" and norm(n.func.value) == norm(loop_iter)
                        and n.lineno < loop.lineno for n in ast.walk(m.node))
                    problems = []
                    if not is_sorted:
                        # body effects for this concrete class
                        for call, t in eff.calls_of(m, C):
                            if not any(x is call for x in ast.walk(loop)):
                                continue
                            if isinstance(call.func, ast.Attribute) and call.func.attr == "append" and norm(call.func.value) == "self.files":
                                continue  # sorted before use (R07a)
                            if t.kind == "repo" and t.bound_cls is not None:
                                muts = set()
                                for f in t.funcs:
                                    muts |= _mut_summary(prog, f, C)
                                if muts:
                                    problems.append(f"{norm(call.func)} (as resolved for {C.name}) modifies {sorted(muts)} in directory-enumeration order")
                            elif isinstance(call.func, ast.Attribute) and call.func.attr in ("append", "extend", "insert", "add", "update") \
                                    and (dotted(call.func.value) or "").startswith("self."):
                                problems.append(f"{norm(call.func)} collects items in directory-enumeration order")
                    rep.add("R07b", f"{C.name}: loop over listdir() in {m.qualname}", not problems, ctx.where(m, loop),
                            "the operating system's enumeration order leaks into the result: " + "; ".join(problems) if problems else
                            ("sorted iteration" if is_sorted else "order-insensitive body"), key=f"R07b|{C.name}|{m.qualname}")

    # ------------------------------------------------------------------ R07c
    readers = []
    for f in prog.all_functions():
        if not f.module.name.startswith("pygopherd"):
            continue
        for n in ast.walk(f.node):
            if isinstance(n, ast.Constant) and n.value == "ignorepatt":
                readers.append(f)
                break
    bad = []
    gate_funcs = set()
    for H in ctx.handler_classes():
        for name in ("canhandlerequest", "isrequestsecure", "isrequestforme", "__init__"):
            m = prog.resolve_method(H, name)
            if m is None:
                continue
            work, seen = [m], set()
            while work:
                x = work.pop()
                if x in seen:
                    continue
                seen.add(x)
                for call, t in eff.calls_of(x, H):
                    if t.kind == "repo" and (t.bound_cls is not None or (call.args and dotted(call.args[0]) == "self")):
                        work.extend(t.funcs)
            gate_funcs |= seen
    gh = ctx.func("handlers.HandlerMultiplexer.getHandler")
    if gh is not None:
        gate_funcs.add(gh)
    for f in readers:
        if f in gate_funcs:
            bad.append(f.qualname)
    rep.add("R07c", f"ignorepatt readers: {[f.qualname for f in readers]}", bool(readers) and not bad, "pygopherd/handlers/dir.py",
            f"{bad} consults the ignore pattern while deciding whether a selector can be served: ignored files would no longer be retrievable" if bad
            else ("" if readers else "the ignore pattern is never read"), key="R07c|ignorepatt")

    # ------------------------------------------------------------------ R07d
    umn = ctx.cls("handlers.UMN.UMNDirHandler")
    if umn is not None:
        m = prog.resolve_method(umn, "prep_initfiles_canaddfile")
        fparam = m.params[3] if m is not None and len(m.params) > 3 else "file"
        if m is None:
            rep.fail("R07d", "UMNDirHandler.prep_initfiles_canaddfile", detail="dot-file diversion not found")
        else:
            assume = {f"{fparam}[0] == '.'": Const(True), f"{fparam}[0] != '.'": Const(False), f"{fparam}.startswith('.')": Const(True),
                      f"{fparam}[:1] == '.'": Const(True), f"{fparam}[0:1] == '.'": Const(True)}
            w = Walker(prog, ctx.resolver, assumptions=assume, sticky=set(assume))
            bad = [p for p in w.run(m, umn) if p.kind == "return" and truth(p.value) is not False]
            rep.add("R07d", f"{m.qualname}: dot-files never listed", not bad, ctx.where(m),
                    "a name starting with '.' can be added to the listing" if bad else "", key="R07d|dotfiles")

    # ------------------------------------------------------------------ R07g
    if umn is not None:
        from .c08 import merge_obligations

        merge_obligations(ctx, rep, umn, rule_c="R07g", only_merge=True)

    # ------------------------------------------------------------------ R07j
    from ..effects import Effects as _Eff
    from .c14 import shared_state_obligations

    listing_funcs = set()
    for C in family:
        for c in prog.mro(C):
            listing_funcs.update(m for m in c.methods.values() if m.name.startswith(("prep", "prepare", "getdirlist", "MergeLinkFiles", "processLinkFile",
                                                                                     "getLinkItem", "mergeentries", "entrycmp")))
    n_before = len(rep.obligations)
    shared_state_obligations(ctx, rep, "R07j", _Eff(prog, ctx.resolver), listing_funcs, sequential=True)
    if len(rep.obligations) == n_before:
        rep.ok("R07j", f"no module- or class-level state is written while a listing is built [{len(listing_funcs)} functions]", "pygopherd/handlers/dir.py")
    # ------------------------------------------------------------------ R07p
    from .c10 import alias_obligations
    alias_obligations(ctx, rep, "R07p")
    # ------------------------------------------------------------------ R07o
    link_decoding_obligations(ctx, rep, "R07o")
    # ------------------------------------------------------------------ R07n
    ignore_filter_obligations(ctx, rep, "R07n", dirbase_ := ctx.cls("handlers.dir.DirHandler"))
    # ------------------------------------------------------------------ R07i
    from .c10 import freshness_obligations, save_order_obligations
    save_order_obligations(ctx, rep, "R07i")
    # ------------------------------------------------------------------ R07k
    eff_ = _Eff(prog, ctx.resolver)
    dirbase_ = ctx.cls("handlers.dir.DirHandler")
    for C in family:
        lc = prog.resolve_method(C, "loadcache")
        if lc is None or (lc.cls is not C and C is not dirbase_):
            continue
        freshness_obligations(ctx, rep, eff_, C, lc, "R07k")
    # ------------------------------------------------------------------ R07h
    vfsr = ctx.cls("handlers.base.VFS_Real")
    ld = vfsr.methods.get("listdir") if vfsr else None
    if ld is None:
        rep.fail("R07h", "VFS_Real.listdir", detail="directory enumeration of the real VFS not found")
    else:
        from ..structure import resolve_value

        problems = []
        rets = [n for n in ast.walk(ld.node) if isinstance(n, ast.Return) and n.value is not None]
        if not rets:
            problems.append("listdir returns nothing")

        def decoded_only(e, var=None) -> bool:
            """e denotes OS names passed through file-system decoding only"""
            if isinstance(e, ast.Call) and (dotted(e.func) or "") in ("os.listdir",):
                return True
            if isinstance(e, ast.Call) and (dotted(e.func) or "") in ("sorted", "list", "tuple") and e.args:
                return decoded_only(e.args[0], var)
            if isinstance(e, ast.Call) and (dotted(e.func) or "") == "map" and len(e.args) == 2 and (dotted(e.args[0]) or "") == "os.fsdecode":
                return decoded_only(e.args[1], var)
            if isinstance(e, (ast.ListComp, ast.GeneratorExp)) and len(e.generators) == 1 and not e.generators[0].ifs \
                    and isinstance(e.generators[0].target, ast.Name):
                return decoded_only(e.generators[0].iter, var) and decoded_only(e.elt, e.generators[0].target.id)
            if var is not None:
                if isinstance(e, ast.Name) and e.id == var:
                    return True
                if isinstance(e, ast.Call) and (dotted(e.func) or "") == "os.fsdecode" and len(e.args) == 1:
                    return decoded_only(e.args[0], var)
                if isinstance(e, ast.Call) and isinstance(e.func, ast.Attribute) and e.func.attr == "decode" and decoded_only(e.func.value, var):
                    kw = {k.arg: k.value for k in e.keywords}
                    err = kw.get("errors") or (e.args[1] if len(e.args) > 1 else None)
                    return isinstance(err, ast.Constant) and err.value == "surrogateescape"
            return False

        for r in rets:
            v = resolve_value(r.value, ld, vfsr, None, prog, ctx.resolver)
            if not decoded_only(v):
                problems.append(f"`return {norm(r.value)[:70]}` hands out something other than the OS's names decoded with the file-system codec: "
                                "an entry whose listed name differs from its name on disk is looked up under a selector that does not exist and drops out of the listing")
        rep.add("R07h", f"{ld.qualname}: names as on disk", not problems, ctx.where(ld), "; ".join(problems), key="R07h|listdir")

    # ------------------------------------------------------------------ R07e
    if umn is not None:
        ec = prog.resolve_method(umn, "entrycmp")
        if ec is None:
            rep.fail("R07e", "entrycmp", detail="UMN comparison not found")
        else:
            problems = []
            summ = eff.summary(ec, umn)
            bad = sorted(e for e in summ if e.startswith(("GLOBAL_WRITE", "FS_", "EXEC", "EVAL")) or e in ("TIME", "RANDOM"))
            if bad:
                problems.append(f"effects {bad}")
            if _mut_summary(prog, ec, umn):
                problems.append(f"modifies {sorted(_mut_summary(prog, ec, umn))}")
            params = ec.params[1:3]
            for n in ast.walk(ec.node):
                if isinstance(n, ast.Attribute) and isinstance(n.value, ast.Name) and n.value.id in params:
                    if n.attr not in ("name", "num", "getnum", "getname"):
                        problems.append(f"the order depends on .{n.attr}")
                if isinstance(n, ast.Assign) and any(isinstance(t, ast.Attribute) for t in n.targets):
                    problems.append("assigns attributes")
            rep.add("R07e", f"{ec.qualname}: pure, name/num only", not problems, ctx.where(ec), "; ".join(sorted(set(problems))), key="R07e|entrycmp")

    # ------------------------------------------------------------------ R07f
    pi = prog.resolve_method(dirbase, "prep_initfiles")
    if pi is None:
        rep.fail("R07f", "prep_initfiles", detail="file-list construction not found")
    elif _initfiles_by_evaluation(ctx, rep, dirbase, pi):
        pass
    else:
        loops = [n for n in ast.walk(pi.node) if isinstance(n, ast.For) and "listdir(" in norm(expand_ast(n.iter, pi))]
        problems = []
        comps = []
        for n in ast.walk(pi.node):
            if isinstance(n, ast.Assign) and any(norm(t) == "self.files" for t in n.targets) and isinstance(n.value, ast.ListComp) \
                    and len(n.value.generators) == 1 and "listdir(" in norm(expand_ast(n.value.generators[0].iter, pi)):
                comps.append(n.value)
        for comp in comps:
            g = comp.generators[0]
            var = norm(g.target)
            from ..structure import concat_pieces

            if norm(comp.elt) != var:
                problems.append("the comprehension collects something other than the directory entry's name")
            tests = [t for t in g.ifs]
            okf = len(tests) == 1 and isinstance(tests[0], ast.Call) and isinstance(tests[0].func, ast.Attribute) \
                and tests[0].func.attr == "prep_initfiles_canaddfile" and len(tests[0].args) >= 3 and norm(tests[0].args[2]) == var \
                and concat_pieces(__import__("pgv.structure", fromlist=["resolve_value"]).resolve_value(tests[0].args[1], pi, dirbase, None, prog, ctx.resolver)) == [("expr", "self.selectorbase"), ("lit", "/"), ("expr", var)]
            if not okf:
                problems.append("names are not filtered by prep_initfiles_canaddfile(ignorepatt, selectorbase/name, name)")
        if len(loops) + len(comps) != 1:
            problems.append(f"{len(loops) + len(comps)} loops over the directory contents")
        for loop in loops:
            var = norm(loop.target)
            w = Walker(prog, ctx.resolver)
            w.frame = (pi, dirbase)
            w._budget = 100000
            for kind, val, s in w.exec_block(loop.body, State()):
                appends = [e for e in s.events if e.kind == "call" and isinstance(e.node.func, ast.Attribute) and e.node.func.attr == "append"
                           and norm(e.node.func.value) == "self.files"]
                def _filter_call(e):
                    n = e.node
                    if isinstance(n, ast.Name) and e.defs and n.id in e.defs:
                        n = e.defs[n.id]  # verdict kept in a local first
                    if isinstance(n, ast.Call) and isinstance(n.func, ast.Attribute) and n.func.attr == "prep_initfiles_canaddfile":
                        return n
                    return None

                decided = [e for e in s.events if e.kind == "test" and _filter_call(e) is not None]
                excepted = any(e.kind == "except" for e in s.events)
                if excepted:
                    continue
                acc = [e for e in decided if e.extra is True]
                if acc and len(appends) != 1:
                    problems.append(f"an accepted name is appended {len(appends)} times")
                if not acc and appends:
                    problems.append("a name is appended without the filter having accepted it")
                for a in appends:
                    if not (a.node.args and norm(a.node.args[0]) == var):
                        problems.append(f"`{norm(a.node)}` appends something other than the directory entry's name")
                for d in decided:
                    from ..structure import concat_pieces

                    args = list(_filter_call(d).args)
                    if len(args) >= 3:
                        from ..structure import resolve_value

                        pcs = concat_pieces(resolve_value(args[1], pi, dirbase, d.defs or {}, prog, ctx.resolver))
                        if norm(args[2]) != var or pcs != [("expr", "self.selectorbase"), ("lit", "/"), ("expr", var)]:
                            problems.append("the filter is not applied to selectorbase/name")
        rep.add("R07f", f"{pi.qualname}: append iff accepted, once", not problems, ctx.where(pi), "; ".join(sorted(set(problems))), key="R07f|prep_initfiles")


# ---------------------------------------------------------------------------------------------- R07n
def ignore_filter_obligations(ctx, rep, rule, dirbase):
    import re as _re

    from ..paths import Const as _C, PathLimit, Walker as _W

    prog = ctx.prog
    f = prog.resolve_method(dirbase, "prep_initfiles_canaddfile") if dirbase else None
    if f is None or len(f.params) < 4:
        rep.fail(rule, "DirHandler.prep_initfiles_canaddfile", detail="listing filter not found")
        return
    patterns = {}
    for rel, raw in ctx.config.get("handlers.dir.DirHandler", "ignorepatt").items():
        patterns.setdefault(raw, rel)
    names = ["robots.txt", "lib", "library", "bin", "notes.txt", "lost+found", "gophermap", "x.abstract", "backup~", ".cap", ".cache.pygopherd.dir",
             "a.3d", "veronica.ctl", "etc", "etcetera", "nohup.out", "form.ask", "plain"]
    for patt, rel in sorted(patterns.items()):
        try:
            rx = _re.compile(patt)
        except _re.error:
            rep.fail(rule, f"{rel}: ignorepatt", rel, "the configured ignore pattern is not a regular expression")
            continue
        problems, n = [], 0
        for sel, base in (("/", ""), ("/sub", "/sub"), ("/a/b.d", "/a/b.d")):
            for name in names:
                cand = base + "/" + name
                facts = {"self.selector": _C(sel), "self.selectorbase": _C(base)}
                w = _W(prog, ctx.resolver, exact_loops=True, unroll=4, assumptions=dict(facts), max_paths=4000,
                       inline=lambda fn, t, d: d < 2 and (t.bound_cls is not None or (fn.cls is None and fn.module.name.startswith("pygopherd.handlers"))))
                outs = set()
                try:
                    for p in w.run(f, dirbase, env={f.params[1]: _C(patt), f.params[2]: _C(cand), f.params[3]: _C(name)}, facts=dict(facts)):
                        outs.add(truth(p.value) if p.kind == "return" and p.value is not None else "?")
                except PathLimit:
                    outs = {"?"}
                if len(outs) != 1 or next(iter(outs)) not in (True, False):
                    continue
                n += 1
                want = rx.search(cand) is None
                got = next(iter(outs))
                if got is not want:
                    problems.append(f"in the directory {sel!r} the name {name!r} is {'listed' if got else 'left out'} although the pattern "
                                    f"{'matches' if not want else 'does not match'} {cand!r}")
        enough = n >= len(names)
        rep.add(rule, f"{rel}: {f.qualname} agrees with the ignore pattern [{n} names evaluated]", not problems and enough, ctx.where(f),
                "; ".join(problems[:3]) if problems else ("" if enough else "the walker could not follow the filter"), key=f"{rule}|{rel}", nontrivial=enough)



def ignored_linkfile_obligations(ctx, rep, rule):
    """A name the ignore pattern matches is left out *unread*: the UMN filter may parse a dot-file as a link file only when the
    pattern lets the name through (an ignored file that is parsed can hide entries or add foreign ones)."""
    import re as _re

    from ..paths import Const as _C, PathLimit, Walker as _W

    prog = ctx.prog
    umn = ctx.cls("handlers.UMN.UMNDirHandler")
    f = prog.resolve_method(umn, "prep_initfiles_canaddfile") if umn else None
    if f is None or len(f.params) < 4 or f.cls is None or f.cls.name == "DirHandler":
        rep.ok(rule, "the link-file handler has no filter of its own", "pygopherd/handlers/UMN.py", "", key=f"{rule}|none", nontrivial=False)
        return
    patterns = {}
    for rel, raw in ctx.config.get("handlers.dir.DirHandler", "ignorepatt").items():
        patterns.setdefault(raw, rel)
    patterns.setdefault(r"~$|/\.|/gophermap$", "(pattern suggested in the configuration file: dot-files excluded)")
    names = [".Links", ".names", ".message", ".cache.pygopherd.dir", ".forward", ".hidden~", "plain.txt", ".cap"]
    for patt, rel in sorted(patterns.items()):
        try:
            rx = _re.compile(patt)
        except _re.error:
            continue
        problems, n = [], 0
        for name in names:
            cand = "/sub/" + name
            facts = {"self.selector": _C("/sub"), "self.selectorbase": _C("/sub")}
            read = []

            def cv(call, target, st, _read=read):
                fn = call.func
                if isinstance(fn, ast.Attribute) and fn.attr == "processLinkFile":
                    _read.append(1)
                    return _C([])
                if isinstance(fn, ast.Attribute) and fn.attr == "isdir" and "vfs" in norm(fn.value):
                    return _C(False)
                if isinstance(fn, ast.Attribute) and fn.attr in ("extend", "append", "add") and "link" in norm(fn.value).lower():
                    return _C(None)
                return None

            w = _W(prog, ctx.resolver, call_value=cv, exact_loops=True, unroll=4, assumptions=dict(facts), max_paths=4000,
                   inline=lambda fn, t, d: d < 3 and (t.bound_cls is not None or (fn.cls is None and fn.module.name.startswith("pygopherd.handlers")))
                   and fn.name != "processLinkFile")
            try:
                paths = w.run(f, umn, env={f.params[1]: _C(patt), f.params[2]: _C(cand), f.params[3]: _C(name)}, facts=dict(facts))
            except PathLimit:
                continue
            if len(paths) != 1 or paths[0].kind != "return":
                continue
            n += 1
            ignored = rx.search(cand) is not None
            if ignored and read:
                problems.append(f"{name!r} is matched by the ignore pattern {patt!r} and yet parsed as a link file: its blocks can hide entries of the "
                                "directory or add entries that are not in it")
        enough = n >= len(names) // 2
        rep.add(rule, f"{rel}: names the pattern ignores are not read as link files [{n} names evaluated]", not problems and enough, ctx.where(f),
                "; ".join(problems[:2]) if problems else ("" if enough else "the walker could not follow the filter"), key=f"{rule}|{rel}", nontrivial=enough)


# ---------------------------------------------------------------------------------------------- R07o
def link_decoding_obligations(ctx, rep, rule="R07o"):
    prog = ctx.prog
    umn = ctx.cls("handlers.UMN.UMNDirHandler")
    plf = prog.resolve_method(umn, "processLinkFile") if umn else None
    if plf is None:
        rep.fail(rule, "UMNDirHandler.processLinkFile", detail="link-file reader not found")
        return
    vfs0 = ctx.cls("handlers.base.VFS_Real")

    def text_opens(func, cls, depth=0):
        """(function, call, errors value or None, binary?) for every open of a file in `func` (following VFS / handler helpers one level)"""
        out = []
        for c in ast.walk(func.node):
            if not (isinstance(c, ast.Call) and isinstance(c.func, (ast.Attribute, ast.Name))):
                continue
            name = c.func.attr if isinstance(c.func, ast.Attribute) else c.func.id
            kw = {k.arg: k.value for k in c.keywords}
            if name == "open":
                mode = kw.get("mode") or (c.args[1] if len(c.args) > 1 else None)
                if isinstance(c.func, ast.Name) and len(c.args) >= 1 and mode is None and "mode" not in kw:
                    mode = ast.Constant(value="r")
                modev = mode.value if isinstance(mode, ast.Constant) else (None if mode is None else "?")
                if isinstance(mode, ast.Name) and mode.id in func.params:
                    continue  # a pass-through primitive: judged at its callers
                err = kw.get("errors") or (c.args[2] if isinstance(c.func, ast.Attribute) and len(c.args) > 2 else None)
                out.append((func, c, err.value if isinstance(err, ast.Constant) else ("?" if err is not None else None), isinstance(modev, str) and "b" in modev))
            elif depth < 2 and isinstance(c.func, ast.Attribute) and norm(c.func.value).endswith("vfs") and vfs0 is not None:
                g = prog.resolve_method(vfs0, name)
                if g is not None and g.name not in ("open", "isfile", "isdir", "exists", "stat", "listdir", "getfspath", "iswritable", "unlink"):
                    out.extend(text_opens(g, vfs0, depth + 1))
        return out

    sites = text_opens(plf, umn)
    if not sites:
        rep.fail(rule, f"{plf.qualname}: link files are opened", ctx.where(plf), "no open of the link file found", key=f"{rule}|open")
        return
    for func, c, err, binary in sites:
        if binary:
            dec = [d for d in ast.walk(func.node) if isinstance(d, ast.Call) and isinstance(d.func, ast.Attribute) and d.func.attr == "decode"]
            ok = bool(dec) and all(any(k.arg == "errors" and isinstance(k.value, ast.Constant) and k.value.value == "surrogateescape" for k in d.keywords) for d in dec)
            why = "read as bytes and decoded with errors other than surrogateescape"
        else:
            ok = err == "surrogateescape"
            why = f"opened as text with errors={err!r}"
        rep.add(rule, f"{func.qualname}: {norm(c)[:60]}", ok, ctx.where(func, c),
                "" if ok else f"the link file is {why}: a Path= naming an entry whose name is not valid UTF-8 no longer equals the entry's selector "
                "(which is the file-system decoding of the name) - Type=X does not hide it and Name= does not reach it", key=f"{rule}|{func.qualname}|{norm(c.func)}")


def stat_of_the_asked_selector_obligations(ctx, rep, rule="R07u"):
    """The stat result the multiplexer hands to each candidate handler describes the very selector the handler is asked about.
    Every handler's acceptance test reads `self.statresult` as the stat of `self.selector` (S_ISREG / S_ISDIR on it); a stat of
    anything else - the selector cut at a `?`, lower-cased, with a suffix dropped - makes an ordinary member whose name has
    that shape unservable, and DirHandler.prep_entries then drops it from its directory's listing without a trace."""
    from ..loader import norm as _norm

    gh = ctx.func("handlers.HandlerMultiplexer.getHandler")
    if gh is None:
        rep.fail(rule, "HandlerMultiplexer.getHandler", detail="handler multiplexer not found")
        return
    rep.analysed(gh.qualname)
    assigns = {}
    for n in ast.walk(gh.node):
        if isinstance(n, ast.Assign) and len(n.targets) == 1 and isinstance(n.targets[0], ast.Name):
            assigns.setdefault(n.targets[0].id, []).append(n.value)
    loopvars = {}
    for n in ast.walk(gh.node):
        if isinstance(n, ast.For) and isinstance(n.target, ast.Name):
            loopvars[n.target.id] = n

    def alias(e):
        """follow `x = y` single assignments of plain names"""
        seen = set()
        while isinstance(e, ast.Name) and e.id not in seen:
            seen.add(e.id)
            vals = [v for v in assigns.get(e.id, []) if not (isinstance(v, ast.Constant) and v.value is None)]
            if len(vals) == 1 and isinstance(vals[0], ast.Name):
                e = vals[0]
            else:
                break
        return e

    n_sites = 0
    for n in ast.walk(gh.node):
        if not (isinstance(n, ast.Call) and isinstance(n.func, ast.Name) and n.func.id in loopvars and len(n.args) >= 5):
            continue
        n_sites += 1
        sel, st = alias(n.args[0]), n.args[4]
        problems = []
        if isinstance(st, ast.Name):
            vals = [v for v in assigns.get(st.id, []) if not (isinstance(v, ast.Constant) and v.value is None)]
            stats = [v for v in vals if isinstance(v, ast.Call) and isinstance(v.func, ast.Attribute) and v.func.attr in ("stat", "lstat")]
            if not vals:
                problems.append(f"`{st.id}` is never set: every handler sees a missing file")
            for v in vals:
                if v not in stats:
                    continue  # a helper does the stat: not decided here (no alarm on a refactoring)
                elif not v.args or _norm(alias(v.args[0])) != _norm(sel):
                    problems.append(f"the handlers are asked about `{_norm(sel)}` but handed the stat of `{_norm(v.args[0])[:60] if v.args else ''}`: a name for which "
                                    "the two differ is refused by every handler, so it cannot be fetched and is silently left out of its directory's listing")
                elif v.func.attr == "lstat":
                    problems.append("lstat: a symbolic link to a file or directory is accepted by no handler")
        elif not (isinstance(st, ast.Constant) and st.value is None):
            problems.append(f"the stat argument is `{_norm(st)[:50]}`")
        rep.add(rule, f"getHandler: {_norm(n)[:60]}", not problems, ctx.where(gh, n), "; ".join(sorted(set(problems))), key=f"{rule}|getHandler|{n_sites}")
    if not n_sites:
        rep.fail(rule, "HandlerMultiplexer.getHandler", detail="no handler construction found in getHandler")
