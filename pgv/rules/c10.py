"""C10  The directory cache is transparent and never older than its lifetime.

R10a  freshness guard: the cache is deserialised only under  now - mtime(cache) < cachetime
      (strict; now = time.time(), mtime from a stat of the same cache name, lifetime from
      the cachetime option) - any equivalent spelling of that inequality is accepted
R10b  no refresh on a hit: fromcache is falsy unless the load succeeded; under
      fromcache the cache file is not rewritten
R10c  entries are pickled after their last mutation and before control returns to the
      protocol's render loop; handlers never call renderers
R10d  the UMN merge/sort runs only when entries were generated (not on a cache hit)
Equality of cached and generated listings along histories is not decided.
"""

from __future__ import annotations

import ast
from typing import Dict, Optional

from ..effects import Effects
from ..facts import expand_ast
from ..loader import dotted, norm
from ..paths import FALSY, TRUTHY, Const, Walker, truth

MUTATORS = {"append", "extend", "insert", "remove", "pop", "sort", "reverse", "clear"}
RENDERERS = {"renderobjinfo", "renderabstract", "renderdirstart", "renderdirend", "writedir", "getblock", "getallblocks",
             "getrenderstr"}


# ------------------------------------------------------------- linear forms
def linear(node, func, defs, ctxinfo) -> Optional[Dict[str, int]]:
    """Expression -> coefficients over NOW / MTIME / CT / const; None if not linear in those."""
    if isinstance(node, ast.Name) and node.id in defs:
        return linear(defs[node.id], func, defs, ctxinfo)
    if isinstance(node, ast.Constant) and isinstance(node.value, (int, float)):
        return {"1": node.value} if node.value else {}
    if isinstance(node, ast.BinOp) and isinstance(node.op, (ast.Add, ast.Sub)):
        a = linear(node.left, func, defs, ctxinfo)
        b = linear(node.right, func, defs, ctxinfo)
        if a is None or b is None:
            return None
        out = dict(a)
        sign = 1 if isinstance(node.op, ast.Add) else -1
        for k, v in b.items():
            out[k] = out.get(k, 0) + sign * v
        return {k: v for k, v in out.items() if v}
    if isinstance(node, ast.UnaryOp) and isinstance(node.op, ast.USub):
        a = linear(node.operand, func, defs, ctxinfo)
        return None if a is None else {k: -v for k, v in a.items()}
    if isinstance(node, ast.Call):
        d = dotted(node.func) or ""
        if d in ("time.time",):
            return {"NOW": 1}
        if d in ("int", "float") and node.args:
            return linear(node.args[0], func, defs, ctxinfo)
    # mtime of the cache file
    if isinstance(node, ast.Subscript) and not isinstance(node.slice, ast.Slice):
        idx = norm(node.slice)
        if idx in ("stat.ST_MTIME", "8", "ST_MTIME"):
            src = node.value
            if isinstance(src, ast.Name) and src.id in defs:
                src = defs[src.id]
            if _is_cache_stat(src, defs):
                return {"MTIME": 1}
            return {"OTHER_MTIME:" + norm(node.value): 1}
    if isinstance(node, ast.Attribute) and node.attr == "st_mtime":
        src = node.value
        if isinstance(src, ast.Name) and src.id in defs:
            src = defs[src.id]
        if _is_cache_stat(src, defs):
            return {"MTIME": 1}
        return {"OTHER_MTIME:" + norm(node.value): 1}
    if isinstance(node, ast.Attribute) and dotted(node) == "self.cachetime":
        return {"CT": 1} if ctxinfo.get("cachetime_ok") else {"OTHER:self.cachetime": 1}
    return {"OTHER:" + norm(node)[:40]: 1}


def _is_cache_stat(src, defs=None) -> bool:
    if not (isinstance(src, ast.Call) and isinstance(src.func, ast.Attribute) and src.func.attr == "stat" and len(src.args) == 1):
        return False
    a = src.args[0]
    for _ in range(3):
        if isinstance(a, ast.Name) and defs and a.id in defs:
            a = defs[a.id]
    return norm(a) == "self.cachename"


def freshness(node, truthv, func, defs, ctxinfo):
    """Classify one decided comparison: 'fresh' (now-mtime < ct holds), 'stale-or-equal',
    'weak' (non-strict), or None if it is not a comparison of these quantities."""
    if not (isinstance(node, ast.Compare) and len(node.ops) == 1):
        return None
    L = linear(node.left, func, defs, ctxinfo)
    R = linear(node.comparators[0], func, defs, ctxinfo)
    if L is None or R is None:
        return None
    D = dict(L)
    for k, v in R.items():
        D[k] = D.get(k, 0) - v
    D = {k: v for k, v in D.items() if v}
    if "NOW" not in D:
        return None
    op = type(node.ops[0])
    if D["NOW"] < 0:
        D = {k: -v for k, v in D.items()}
        op = {ast.Lt: ast.Gt, ast.Gt: ast.Lt, ast.LtE: ast.GtE, ast.GtE: ast.LtE}.get(op, op)
    if D != {"NOW": 1, "MTIME": -1, "CT": -1}:
        return "other:" + ",".join(f"{k}{v:+d}" for k, v in sorted(D.items()))
    # now - mtime - ct  OP  0
    if op is ast.Lt:
        return "fresh" if truthv else "stale"
    if op is ast.GtE:
        return "stale" if truthv else "fresh"
    if op is ast.LtE:
        return "weak" if truthv else "stale"
    if op is ast.Gt:
        return "stale" if truthv else "weak"
    return "other:op"


def complete_pickling_obligations(ctx, rep, rule="R10e"):
    """Entries go into the cache and come out of it whole: no pickling hook of an entry class leaves a field out by its value."""
    prog = ctx.prog
    dirbase = ctx.cls("handlers.dir.DirHandler")
    ge = ctx.cls("gopherentry.GopherEntry")
    if ge is None:
        rep.fail(rule, "GopherEntry", detail="entry class not found")
    else:
        for E in prog.subclasses(ge):
            problems = []
            hooks = [h for h in ("__getstate__", "__reduce__", "__reduce_ex__", "__getnewargs__", "__getnewargs_ex__", "__setstate__", "__slots__") if h in E.methods or h in E.attrs]
            gs = E.methods.get("__getstate__")
            for h in hooks:
                if h in ("__reduce__", "__reduce_ex__", "__getnewargs__", "__getnewargs_ex__", "__slots__"):
                    problems.append(f"{h} customises how entries are pickled: cannot show that a cached entry equals the generated one")
            if gs is not None:
                dropped = set()
                ok_shape = False
                for n in ast.walk(gs.node):
                    if isinstance(n, (ast.DictComp, ast.ListComp, ast.GeneratorExp)) and any(g.ifs for g in n.generators):
                        problems.append("__getstate__ filters the fields by value: a field that is set but falsy (size 0, port 0, empty name) is dropped from the cache and "
                                        "comes back as 'unset', so the cached listing differs from the generated one")
                    if isinstance(n, ast.Call) and isinstance(n.func, ast.Attribute) and n.func.attr == "pop" and n.args and isinstance(n.args[0], ast.Constant):
                        dropped.add(n.args[0].value)
                    if isinstance(n, ast.Delete):
                        for t in n.targets:
                            if isinstance(t, ast.Subscript) and isinstance(t.slice, ast.Constant):
                                dropped.add(t.slice.value)
                    if isinstance(n, ast.Attribute) and norm(n) == "self.__dict__":
                        ok_shape = True
                if not ok_shape:
                    problems.append("__getstate__ does not start from the full self.__dict__")
                # dropped fields must be restored on load
                lc = prog.resolve_method(dirbase, "loadcache")
                restorers = [E.methods.get("__setstate__"), lc]
                for k in sorted(dropped):
                    restored = any(r is not None and any((isinstance(x, ast.Call) and isinstance(x.func, ast.Attribute) and x.func.attr == f"set{k}") or
                                                         (isinstance(x, ast.Attribute) and isinstance(x.ctx, ast.Store) and x.attr == k) for x in ast.walk(r.node))
                                   for r in restorers)
                    if not restored:
                        problems.append(f"field '{k}' is left out of the cache and never restored after loading")
            elif "__setstate__" in hooks:
                problems.append("__setstate__ without __getstate__ rewrites loaded entries")
            rep.add(rule, f"{E.qualname}: cached by complete pickling", not problems, ctx.where(E.module, E.node), "; ".join(sorted(set(problems))),
                    key=f"{rule}|{E.qualname}", nontrivial=bool(hooks))



def alias_obligations(ctx, rep, rule="R10f"):
    """BaseGopherProtocol.slashnormalize() and BaseHandler.isrequestsecure() evaluated on the alias spellings of a directory."""
    from ..paths import PathLimit

    prog = ctx.prog
    pb = ctx.cls("protocols.base.BaseGopherProtocol")
    hb = ctx.cls("handlers.base.BaseHandler")
    sn = prog.resolve_method(pb, "slashnormalize") if pb else None
    sec = prog.resolve_method(hb, "isrequestsecure") if hb else None
    sn_params = [p_ for p_ in (sn.params if sn else []) if p_ not in ("self", "cls")]
    if sn is None or sec is None or not sn_params:
        rep.fail(rule, "slashnormalize / isrequestsecure", detail="normalisation or selector filter not found")
        return

    def evaluate(func, cls, env=None, facts=None):
        w = Walker(prog, ctx.resolver, exact_loops=True, unroll=8, assumptions=dict(facts or {}), max_paths=5000,
                   inline=lambda fn, t, d: d < 3 and (t.bound_cls is not None or fn.cls is None))
        outs = set()
        try:
            for p in w.run(func, cls, env=env or {}, facts=dict(facts or {})):
                outs.add(p.value.value if p.kind == "return" and p.value is not None and p.value.kind == "const" else ("?", p.kind))
        except PathLimit:
            outs = {("?", "limit")}
        return next(iter(outs)) if len(outs) == 1 else ("?", "paths")

    aliases = ["/dir/.", "/.", "/a/b/.", "dir/.", ".", "/dir/./", "/dir//", "/dir/sub/..", "/dir/./sub", "//dir", "//", "//dir/sub", "/dir//sub"]
    plain = ["/dir", "/", "/dir/.hidden", "/dir/a.b", "/dir/sub", "/a", "/dir/x", "/7", "/dir/a b", "/dir/caf\udce9", "/dir/x.", "/dir/-", "/d/~"]
    problems, n = [], 0
    for word in aliases + plain:
        normd = evaluate(sn, pb, env={sn_params[0]: Const(word)})
        if not isinstance(normd, str):
            continue
        if word in aliases and normd in plain:
            n += 1
            continue  # normalised to the directory's own selector
        verdict = evaluate(sec, hb, facts={"self.selector": Const(normd)})
        if isinstance(verdict, tuple):
            continue
        n += 1
        if word in aliases and verdict:
            problems.append(f"the request {word!r} reaches the handlers as {normd!r} and passes the filter: the directory is listed under that name, every child "
                            f"selector ({normd + '/x'!r}) is refused, and the empty listing is written to the cache file of the directory itself")
        if word in plain and not verdict:
            problems.append(f"the ordinary selector {word!r} is refused by the filter")
    ok = n >= 8 and not problems
    rep.add(rule, f"{sec.qualname}: other spellings of a directory are refused [{n} selectors evaluated]", ok, ctx.where(sec),
            "; ".join(problems[:2]) if problems else ("" if ok else f"only {n} selectors could be evaluated"), key=f"{rule}|aliases")


def freshness_obligations(ctx, rep, eff, C, lc, rule="R10a"):
    """The cache of directory handler class C is deserialised only while it is younger than the configured lifetime.
    -> (load call sites, walker that inlines the loader's helpers), or (None, None) when no load was found."""
    prog = ctx.prog
    rep.analysed(lc.qualname)
    # the lifetime attribute must come from the cachetime option
    ct_ok = False
    for c in prog.mro(C):
        for m in c.methods.values():
            for n in ast.walk(m.node):
                if isinstance(n, ast.Assign) and any(norm(t) == "self.cachetime" for t in n.targets):
                    v = n.value
                    ct_ok = isinstance(v, ast.Call) and isinstance(v.func, ast.Attribute) and v.func.attr in ("getint", "getfloat") \
                        and len(v.args) == 2 and isinstance(v.args[1], ast.Constant) and v.args[1].value == "cachetime"
                    if not ct_ok:
                        break
    info = {"cachetime_ok": ct_ok}
    from ..structure import helper_calls

    LOADERS = ("pickle.load", "pickle.loads", "marshal.load")
    loads = [c for c, t in eff.calls_of(lc, C) if t.kind == "ext" and t.ext in LOADERS]
    # helpers of the handler that loadcache delegates to (freshness predicate, file reader) are walked with it
    lc_helpers = [g for g, _, _, _ in helper_calls(prog, ctx.resolver, lc, C, depth=2) if g.cls is not None and prog.is_subclass(C, g.cls)]
    # ... or to a small cache-file module / class of the handlers package
    work_, seen_ = [lc] + list(lc_helpers), set()
    while work_:
        g_ = work_.pop()
        if g_ in seen_:
            continue
        seen_.add(g_)
        for c_, t_ in eff.calls_of(g_, C if g_.cls is not None and prog.is_subclass(C, g_.cls) else g_.cls):
            if t_.kind in ("repo", "ctor") and len(t_.funcs) == 1 and t_.funcs[0] is not None and len(seen_) < 12:
                f2 = t_.funcs[0]
                if f2.module.name.startswith("pygopherd.handlers") and f2.name not in ("getfspath", "open", "stat", "__init__") \
                        and (f2.cls is None or not prog.is_subclass(f2.cls, ctx.cls("handlers.base.VFS_Real") or f2.cls) or f2.cls is C):
                    if f2 not in lc_helpers and f2 is not lc:
                        lc_helpers.append(f2)
                    work_.append(f2)
    for g in lc_helpers:
        loads.extend(c for c, t in eff.calls_of(g, C) if t.kind == "ext" and t.ext in LOADERS)
    if not loads:
        rep.fail(rule, f"{lc.qualname}: load site", ctx.where(lc), "no deserialisation found in loadcache")
        return None, None
    w = Walker(prog, ctx.resolver, fork_returns=True, inline=lambda fn, t, d: d < 3 and fn in lc_helpers, inline_by_name=True)
    problems = set()
    n_paths = 0
    for p in w.run(lc, C):
        if not any(e.kind == "call" and e.node in loads for e in p.events):
            continue
        n_paths += 1
        verdicts = []
        for e in p.events:
            if e.kind == "call" and e.node in loads:
                break
            if e.kind == "test" and e.extra is not None:
                v = freshness(e.node, bool(e.extra), (e.frame[0] if e.frame and e.frame[0] is not None else lc), e.defs or {}, info)
                if v:
                    verdicts.append(v)
        if "fresh" in verdicts:
            continue
        if "weak" in verdicts:
            problems.add("the comparison is not strict: an entry exactly as old as its lifetime is still used (with lifetime 0 a cache written in the same second is served)")
        elif any(v.startswith("other") for v in verdicts):
            problems.add("the freshness test does not compare time.time() - mtime(cache file) with the cachetime option: " + ", ".join(v for v in verdicts if v.startswith("other")))
        elif "stale" in verdicts:
            problems.add("the cache is loaded when it is stale (test inverted)")
        else:
            problems.add("the cache can be loaded without any freshness test")
    if not ct_ok:
        problems.add("self.cachetime is not read from the cachetime option")
    rep.add(rule, f"{lc.qualname}: freshness guard", not problems, ctx.where(lc), "; ".join(sorted(problems)) or f"{n_paths} load paths",
            key=f"{rule}|{lc.qualname}|" + ";".join(sorted(problems)))

    return loads, w


def check(ctx, rep):
    prog = ctx.prog
    eff = Effects(prog, ctx.resolver)
    rep.rule("R10a", "cache deserialised only under now - mtime(cache) < cachetime (strict, right quantities)", floor=1)
    rep.rule("R10b", "fromcache falsy unless the load succeeded; no rewrite of the cache on a hit", floor=3)
    rep.rule("R10c", "savecache() after the last mutation of the entry list and before the protocol renders; handlers never render", floor=3)
    rep.rule("R10e", "entries are cached by complete pickling: no value-dependent pickle hooks on entry classes", floor=1)
    rep.rule("R10d", "UMN merge and sort only on freshly generated entries; prepare() falsy exactly on a cache hit", floor=2)
    dirbase = ctx.cls("handlers.dir.DirHandler")
    if dirbase is None:
        rep.fail("R10a", "DirHandler", detail="directory handler not found")
        return
    family = prog.subclasses(dirbase)

    # ------------------------------------------------------------------ R10a
    for C in family:
        lc = prog.resolve_method(C, "loadcache")
        if lc is None:
            rep.fail("R10a", f"{C.qualname}.loadcache", detail="cache loader not found")
            continue
        if lc.cls is not C and C is not dirbase:
            continue
        loads, w = freshness_obligations(ctx, rep, eff, C, lc, "R10a")
        if loads is None:
            continue

        # -------------------------------------------------------------- R10b
        problems = set()
        for p in w.run(lc, C):
            loaded = False
            fc = None
            first_assign_seen = False
            for e in p.events:
                if e.kind == "call" and e.node in loads:
                    loaded = True
                if e.kind == "assign" and e.target == "self.fromcache":
                    t = truth(e.extra) if e.extra is not None else None
                    if t is not False and not loaded:
                        problems.add("fromcache can be set before the cache has been loaded")
                    fc = t
                    first_assign_seen = True
            if p.kind in ("return", "fall") and fc is None and not first_assign_seen:
                problems.add("a path through loadcache leaves fromcache unset (stale value from an earlier call)")
            if p.kind in ("return", "fall") and not loaded and fc is not False:
                problems.add("a path that did not load the cache ends with fromcache not false")
        rep.add("R10b", f"{lc.qualname}: fromcache only after a successful load", not problems, ctx.where(lc), "; ".join(sorted(problems)),
                key=f"R10b|{lc.qualname}|" + ";".join(sorted(problems)))
    for C in family:
        sc = prog.resolve_method(C, "savecache")
        if sc is None or (sc.cls is not C and C is not dirbase):
            continue
        w = Walker(prog, ctx.resolver, assumptions={"self.fromcache": TRUTHY})
        bad = []
        for p in w.run(sc, C):
            for e in p.calls():
                if eff.is_vfs_call(e.target) and e.target.funcs[0].name == "open":
                    bad.append(norm(e.node))
                if (e.target.kind == "ext" and e.target.ext in ("pickle.dump", "builtins.open")) or \
                        (isinstance(e.node.func, ast.Attribute) and e.node.func.attr == "dump" and "ickle" in norm(e.node.func.value)):
                    bad.append(norm(e.node))
        rep.add("R10b", f"{sc.qualname}: no rewrite on a hit", not bad, ctx.where(sc),
                f"with fromcache set the cache file is rewritten ({bad[0][:50]}): its age restarts on every hit and it can outlive its lifetime" if bad else "",
                key=f"R10b|{sc.qualname}|rewrite")
        # and without fromcache it is written
        w2 = Walker(prog, ctx.resolver, assumptions={"self.fromcache": FALSY}, inline_by_name=True,
                    inline=lambda fn, t, d: d < 3 and fn.module.name.startswith("pygopherd.handlers") and fn.name not in ("open", "getfspath", "stat")
                    and any(isinstance(x, ast.Call) and (dotted(x.func) or "").startswith("pickle.") for x in ast.walk(fn.node)))
        wrote = any(any((e.target.kind == "ext" and e.target.ext in ("pickle.dump", "pickle.dumps", "marshal.dump"))
                        or (isinstance(e.node.func, ast.Attribute) and e.node.func.attr == "dump" and "ickle" in norm(e.node.func.value))
                        for e in p.calls()) for p in w2.run(sc, C))
        rep.add("R10b", f"{sc.qualname}: written on a miss", wrote, ctx.where(sc), "" if wrote else "generated entries are never cached",
                key=f"R10b|{sc.qualname}|write", nontrivial=False)

    save_order_obligations(ctx, rep, "R10c", family)
    hits = []
    for f in prog.all_functions():
        if f.module.name.startswith("pygopherd.handlers") or f.module.name == "pygopherd.gopherentry":
            for n in ast.walk(f.node):
                if isinstance(n, ast.Call) and isinstance(n.func, ast.Attribute) and n.func.attr in RENDERERS:
                    hits.append(f"{f.qualname}:{n.lineno} {norm(n.func)}")
    rep.add("R10c", "handlers never call protocol renderers", not hits, "pygopherd/handlers", "; ".join(hits[:3]), key="R10c|renderers")
    # savecache is not called from protocols (after rendering)
    hits = []
    for f in prog.all_functions():
        if f.module.name.startswith("pygopherd.protocols"):
            for n in ast.walk(f.node):
                if isinstance(n, ast.Call) and isinstance(n.func, ast.Attribute) and n.func.attr == "savecache":
                    hits.append(f"{f.qualname}:{n.lineno}")
    rep.add("R10c", "protocols never save the cache themselves", not hits, "pygopherd/protocols",
            "savecache() called from a protocol (after entries may have been rendered and rewritten): " + "; ".join(hits) if hits else "",
            key="R10c|protocol-save", nontrivial=False)

    # ------------------------------------------------------------------ R10e
    complete_pickling_obligations(ctx, rep, "R10e")

    # ------------------------------------------------------------------ R10g
    rep.rule("R10g", "the age of a cache file is the time it was written: nothing on the request path sets file times (utime / touch) - a cache whose "
             "time stamp was moved forward without being rewritten is served as fresh", floor=1)
    hits = []
    for f in prog.all_functions():
        if not f.module.name.startswith("pygopherd") or ".tests" in f.module.name or f.module.name.endswith("testutil"):
            continue
        for n in ast.walk(f.node):
            if isinstance(n, ast.Call):
                d = dotted(n.func) or ""
                last = d.split(".")[-1] if d else (n.func.attr if isinstance(n.func, ast.Attribute) else "")
                if last in ("utime", "utimes", "futimes", "lutimes", "touch", "futimens", "utimensat"):
                    hits.append((f, n))
    for f, n in hits:
        rep.add("R10g", f"{f.qualname}: {norm(n)[:60]}", False, ctx.where(f, n),
                "a file's time stamp is set without the file being written: for a cache file the freshness test (R10a) then measures the age of the "
                "time stamp, not of the listing inside", key=f"R10g|{f.qualname}|{norm(n.func)}")
    if not hits:
        rep.ok("R10g", "no call sets file times in pygopherd/", "pygopherd", "", key="R10g|none")
    # ------------------------------------------------------------------ R10f
    rep.rule("R10f", "one directory, one selector: the other spellings of a directory's path (`dir/.`, `dir/./`, `dir//`, `dir/x/..`) are refused by "
             "the selector filter after the protocols' normalisation - a listing made under such a spelling finds every child refused and "
             "would be stored, empty, in the directory's own cache file", floor=1)
    alias_obligations(ctx, rep, "R10f")

    # ------------------------------------------------------------------ R10d
    dp = prog.resolve_method(dirbase, "prepare")
    if dp is not None:
        problems = set()

        def _lc(val):
            return lambda call, target, st: val if norm(call) == "self.loadcache()" else None

        scenarios = []
        for hitval in (True, False):
            for p in Walker(prog, ctx.resolver, call_value=_lc(TRUTHY if hitval else FALSY),
                            inline=lambda fn, t, d: d < 2 and t.bound_cls is not None and fn.name not in (
                                "loadcache", "savecache", "prep_initfiles", "prep_entries", "prep_entriesappend", "getselector", "getentry")).run(dp, dirbase):
                consulted = any(e.kind == "call" and norm(e.node) == "self.loadcache()" for e in p.events)
                scenarios.append((p, hitval if consulted else None))
        for p, hit in scenarios:
            gen = any(e.kind == "call" and e.target.kind == "repo" and any(f.name in ("prep_initfiles", "prep_entries") for f in e.target.funcs) for e in p.events)
            if hit is True:
                if gen:
                    problems.add("entries are regenerated although the cache was used")
                if p.kind == "return" and truth(p.value) is not False:
                    problems.add("prepare() reports 'generated' on a cache hit (subclasses then merge and sort cached entries again)")
            elif hit is False:
                if not gen:
                    problems.add("on a cache miss the entries are not generated")
                if p.kind != "return" or truth(p.value) is not True:
                    problems.add("prepare() does not report 'generated' after generating (subclasses skip their merge and sort)")
            else:
                problems.add("prepare() does not consult loadcache()")
        rep.add("R10d", f"{dp.qualname}: falsy exactly on a cache hit", not problems, ctx.where(dp), "; ".join(sorted(problems)),
                key=f"R10d|{dp.qualname}|" + ";".join(sorted(problems)))
    for C in family:
        if C is dirbase:
            continue
        pr = C.methods.get("prepare")
        if pr is None:
            continue
        w = Walker(prog, ctx.resolver, assumptions={"super().prepare()": FALSY, f"{dirbase.name}.prepare(self)": FALSY})
        bad = []
        for p in w.run(pr, C):
            for e in p.events:
                if mutation(e) or (e.kind == "call" and e.target.kind == "repo" and e.target.bound_cls is not None
                                   and any("self.fileentries" in _mut_summary(prog, f, C) for f in e.target.funcs)):
                    bad.append(norm(e.node)[:50])
        rep.add("R10d", f"{pr.qualname}: no merge/sort on a cache hit", not bad, ctx.where(pr),
                f"cached entries are modified again on a hit: {bad[0]}" if bad else "", key=f"R10d|{pr.qualname}|hit")


def mutation(ev) -> bool:
    if ev.kind == "assign" and isinstance(ev.target, str) and ev.target == "self.fileentries":
        return True
    if ev.kind == "call" and isinstance(ev.node.func, ast.Attribute) and ev.node.func.attr in MUTATORS \
            and norm(ev.node.func.value) == "self.fileentries":
        return True
    return False

def is_save(ev) -> bool:
    return ev.kind == "call" and ev.target.kind == "repo" and any(f.name == "savecache" for f in ev.target.funcs)



def save_order_obligations(ctx, rep, rule="R10c", family=None):
    """Event order over prepare()+getdirlist() of every directory handler class: the entry list is saved after its last
    mutation, and never before one (a request that stops after prepare(), or a concurrent one, would be served the unfinished list)."""
    prog = ctx.prog
    if family is None:
        dirbase = ctx.cls("handlers.dir.DirHandler")
        family = prog.subclasses(dirbase) if dirbase else []
    for C in family:
        prep = prog.resolve_method(C, "prepare")
        gdl = prog.resolve_method(C, "getdirlist")
        if prep is None or gdl is None:
            rep.fail(rule, f"{C.qualname}", detail="prepare/getdirlist missing")
            continue
        inline = lambda fn, t, d: t.bound_cls is not None and fn.name not in ("loadcache", "savecache", "processLinkFile", "getLinkItem", "mergeentries")  # noqa: E731
        w = Walker(prog, ctx.resolver, inline=inline, max_depth=5, merge_loops=True)
        problems = set()
        try:
            ppaths = w.run(prep, C)
            gpaths = Walker(prog, ctx.resolver, inline=inline, max_depth=5).run(gdl, C)
        except Exception:
            problems.add("could not enumerate prepare()/getdirlist() paths")
            ppaths, gpaths = [], []
        # mutations hidden in non-inlined helpers count at their call
        def seq(p):
            out = []
            for e in p.events:
                if mutation(e):
                    out.append("M")
                elif is_save(e):
                    out.append("S")
                elif e.kind == "call" and e.target.kind == "repo" and e.target.bound_cls is not None and \
                        any("self.fileentries" in _mut_summary(prog, f, C) for f in e.target.funcs):
                    out.append("M")
            return out
        generated = False
        for pp in ppaths:
            if pp.kind == "raise":
                continue
            sp = seq(pp)
            if "M" in sp:
                generated = True
            for gp in gpaths:
                if gp.kind == "raise":
                    continue
                s = sp + seq(gp)
                if "M" in s:
                    last_m = max(i for i, x in enumerate(s) if x == "M")
                    first_s = min((i for i, x in enumerate(s) if x == "S"), default=None)
                    if first_s is not None and first_s < last_m:
                        problems.add("the entry list is written to the cache before it is final (it is merged/sorted/changed again afterwards): a request "
                                     "that ends after prepare() - an HTTP HEAD - or one that reads the cache in between leaves the unfinished list "
                                     "to be served for the cache lifetime")
                    if "S" not in s[last_m + 1:]:
                        problems.add("a path generates or modifies the entry list and returns to the protocol without pickling it afterwards "
                                     "(the cache would miss the merge/sort, or - if saved after rendering - contain entries the Gopher+ renderer has already rewritten)")
        if not generated and not problems:
            problems.add("prepare() never builds the entry list")
        rep.add(rule, f"{C.qualname}: entries pickled after the last mutation, before rendering", not problems, ctx.where(gdl),
                "; ".join(sorted(problems)), key=f"{rule}|{C.qualname}|" + ";".join(sorted(problems)))


def _mut_summary(prog, func, concrete, _seen=None):
    """Texts of self attributes a method (transitively via self-calls) mutates in place or assigns."""
    cache = prog.__dict__.setdefault("_pgv_mut", {})
    key = (func, concrete)
    if key in cache:
        return cache[key]
    _seen = _seen or set()
    if key in _seen:
        return set()
    _seen.add(key)
    out = set()
    for n in ast.walk(func.node):
        if isinstance(n, ast.Assign):
            for t in n.targets:
                if isinstance(t, ast.Attribute) and dotted(t.value) == "self":
                    out.add("self." + t.attr)
        if isinstance(n, ast.Call) and isinstance(n.func, ast.Attribute):
            if n.func.attr in MUTATORS and (dotted(n.func.value) or "").startswith("self."):
                out.add(dotted(n.func.value))
            rd = dotted(n.func.value)
            callee = None
            if rd == "self":
                callee = prog.resolve_method(concrete, n.func.attr)
            elif rd == "super()" and func.cls is not None:
                callee = prog.resolve_method(concrete, n.func.attr, after=func.cls)
            if callee is not None:
                out |= _mut_summary(prog, callee, concrete, _seen)
    cache[key] = out
    return out
