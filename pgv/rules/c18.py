"""C18  simpleTAL never lets data become markup, code or leftover state (structural clauses).

R18a  every write of the interpreter emits template text, a tag serialised by tagAsText
      (which quote-escapes every attribute value), or html.escape()d results; a raw
      result is written only on the branch the template asked 'structure' for
R18b  python gate: with allowPythonPath false no eval/exec/compile/__import__ is
      reachable in simpletal; the flag is stored unchanged; the TAL handler passes the
      configuration option through
R18d  template text is re-escaped when it is compiled (handle_data; reference handlers dormant or escaping)
R18c  locals pairing: every pushLocals / addRepeat sets a flag that is part of the saved
      scope state, and every popLocals / removeRepeat is reached only under that flag
Pass-through fidelity, idempotence and context equality after expansion are not decided.
"""

from __future__ import annotations

import ast

from ..effects import Effects, PRIMITIVES
from ..loader import dotted, norm
from ..paths import FALSY, TRUTHY, Const, Walker, truth


def _escapes_quoted(call) -> bool:
    """html.escape(x, quote=1/True) (or default quote)"""
    if not (isinstance(call, ast.Call) and (dotted(call.func) or "") in ("html.escape",)):
        return False
    q = None
    if len(call.args) >= 2:
        q = call.args[1]
    for k in call.keywords:
        if k.arg == "quote":
            q = k.value
    return q is None or (isinstance(q, ast.Constant) and bool(q.value))


def atomic_push_obligations(ctx, rep, rule):
    """The interpreter records that locals / a repeat frame were pushed only after the context method returned.  If such a
    method fails half-way (an IndexError from the repeat variable is even expected and caught by the interpreter) the frames it
    pushed stay: so, after its first push, it must not call into objects handed in by the caller."""
    prog = ctx.prog
    tales = prog.modules.get("simpletal.simpleTALES")
    C = tales.classes.get("Context") if tales else None
    if C is None:
        rep.fail(rule, "simpleTALES.Context", detail="context class not found")
        return
    PUSH_ATTRS = ("repeatStack", "localStack")
    n = 0
    for m in C.methods.values():
        stmts = list(m.node.body)
        first = None
        for i, st_ in enumerate(stmts):
            for x in ast.walk(st_):
                if isinstance(x, ast.Call) and isinstance(x.func, ast.Attribute) and (
                        (x.func.attr == "append" and (dotted(x.func.value) or "").split(".")[-1] in PUSH_ATTRS) or
                        (x.func.attr == "pushLocals" and dotted(x.func.value) == "self")):
                    first = i if first is None else first
        if first is None or m.name in ("pushLocals",):
            continue
        n += 1
        params = set(m.params[1:])
        risky = []
        for st_ in stmts[first:]:
            for x in ast.walk(st_):
                if isinstance(x, ast.Call) and isinstance(x.func, ast.Attribute):
                    root = x.func.value
                    while isinstance(root, (ast.Attribute, ast.Subscript, ast.Call)):
                        root = root.value if not isinstance(root, ast.Call) else root.func
                    if isinstance(root, ast.Name) and root.id in params:
                        # ... unless undone by a finally / except of the method
                        from ..structure import enclosing_tries as _et

                        if not any(tr.finalbody or tr.handlers for tr in _et(m.node, x)):
                            risky.append(norm(x)[:40])
        rep.add(rule, f"{m.qualname}: nothing can fail between its pushes and its return", not risky, ctx.where(m),
                f"`{risky[0]}` is called on an object of the caller after a frame was pushed: when it raises (a repeat variable that is already "
                "exhausted raises IndexError, which the interpreter catches) the pushed frames stay and every later pop is one level off" if risky else "",
                key=f"{rule}|{m.qualname}")
    if n == 0:
        rep.fail(rule, "simpleTALES.Context", detail="no pushing method found")


def check(ctx, rep):
    prog = ctx.prog
    eff = Effects(prog, ctx.resolver)
    rep.rule("R18a", "interpreter writes: template text, tagAsText output, or html.escape()d results; raw results only under the structure flag", floor=8)
    rep.rule("R18b", "no eval/exec reachable with allowPythonPath false; flag stored unchanged; handler passes the option through", floor=3)
    rep.rule("R18c", "pushLocals/addRepeat set a saved flag; popLocals/removeRepeat only under that flag", floor=4)
    rep.rule("R18d", "template text reaches the compiled program escaped: handle_data escapes; character/entity reference handlers "
             "are dormant (html.parser converts references first) or escape what they decode", floor=2)
    rep.rule("R18f", "a template compiler drives the parser it is built on: no mix-in base listed before a parser base defines a method of the "
             "parser library's interface (feed, close, reset, handle_* ...) - the compiler would call the mix-in's method and the parser "
             "would never see the call (text still buffered at the end of the document is lost)", floor=1)
    library_shadow_obligations(ctx, rep, "R18f")
    rep.rule("R18g", "= R17m: only a statement that says `global` defines a global - every other tal:define statement is local to its element and "
             "gone from the caller's context afterwards", floor=2)
    from .c17 import define_evaluation_obligations
    tal_mod = prog.modules.get("simpletal.simpleTAL")
    if tal_mod is not None:
        define_evaluation_obligations(ctx, rep, "R18g", tal_mod)
    rep.rule("R18e", "context pushes are all-or-nothing: after a method of the context has pushed a frame it calls nothing that can fail on the "
             "caller's objects (the interpreter pops only what it knows was pushed)", floor=1)
    rep.assume("simpleTALUtils (macro expansion utility) is not used by template expansion and is out of scope")
    rep.rule("R18h", "the HTML compiler takes attribute values as html.parser hands them over - references already expanded - on every "
             "interpreter from 3.7 on: evaluated for nine interpreter versions, whatever version test the module makes", floor=1)
    attribute_passthrough_obligations(ctx, rep, "R18h")
    compile_text_obligations(ctx, rep, "R18d")
    atomic_push_obligations(ctx, rep, "R18e")
    mod = prog.modules.get("simpletal.simpleTAL")
    tales = prog.modules.get("simpletal.simpleTALES")
    if mod is None or tales is None:
        rep.fail("R18a", "simpletal", detail="simpleTAL modules not found")
        return
    interp = mod.classes.get("TemplateInterpreter")
    if interp is None:
        rep.fail("R18a", "TemplateInterpreter", detail="interpreter class not found")
        return
    interps = [c for c in mod.classes.values() if prog.is_subclass(c, interp)]

    # ------------------------------------------------------------------ R18a
    # (1) tag serialisers escape every attribute value with quotes
    for C in interps:
        for m in C.methods.values():
            if not m.name.startswith("tagAsText"):
                continue
            problems = []
            uses = 0
            for n in ast.walk(m.node):
                if isinstance(n, ast.Call) and isinstance(n.func, ast.Attribute) and n.func.attr == "append" and n.args:
                    a = n.args[0]
                    if any(isinstance(x, ast.Name) and x.id == "attValue" for x in ast.walk(a)):
                        uses += 1
                        if not _escapes_quoted(a):
                            problems.append(f"`{norm(n)[:60]}` puts an attribute value into the tag without html.escape(quote=True)")
                if isinstance(n, (ast.BinOp, ast.JoinedStr)) and any(isinstance(x, ast.Name) and x.id == "attValue" for x in ast.walk(n)):
                    if not any(_escapes_quoted(x) for x in ast.walk(n)):
                        problems.append(f"`{norm(n)[:60]}` formats a raw attribute value into the tag")
            if uses == 0 and not problems and not any("attValue" in norm(n) for n in ast.walk(m.node) if isinstance(n, ast.Name)):
                # minimised boolean attributes legitimately drop the value
                pass
            rep.add("R18a", f"{m.qualname}: attribute values quote-escaped", not problems, ctx.where(m), "; ".join(sorted(set(problems))),
                    key=f"R18a|{m.qualname}")
    # (2) every self.file.write in the interpreter
    for C in interps:
        for m in C.methods.values():
            writes = [n for n in ast.walk(m.node) if isinstance(n, ast.Call) and isinstance(n.func, ast.Attribute) and n.func.attr == "write"
                      and norm(n.func.value) == "self.file"]
            if not writes:
                continue
            # raw-result writes must be unreachable when the structure flag is false
            flagnames = set()
            for n in ast.walk(m.node):
                if isinstance(n, ast.Assign) and isinstance(n.targets[0], ast.Tuple) and norm(n.value) == "self.tagContent":
                    flagnames.add(norm(n.targets[0].elts[0]))
            assume = {f: Const(0) for f in flagnames}
            from ..facts import reachable_nodes

            reach_noflag = reachable_nodes(prog, ctx.resolver, m, C, {id(x) for x in writes}, assume)
            if reach_noflag is None:
                reach_noflag = {id(x) for x in writes}
            for wr in writes:
                a = wr.args[0] if wr.args else None
                kind = None
                if a is None:
                    kind = "nothing"
                elif isinstance(a, ast.Constant):
                    kind = "constant"
                elif isinstance(a, ast.Call) and isinstance(a.func, ast.Attribute) and a.func.attr.startswith("tagAsText"):
                    kind = "tag"
                elif isinstance(a, ast.Call) and (dotted(a.func) or "") == "html.escape":
                    kind = "escaped"
                elif m.name == "cmdOutput" and isinstance(a, ast.Name) and a.id in m.params:
                    kind = "template text"
                elif isinstance(a, ast.BinOp) and all(isinstance(x, ast.Constant) or (isinstance(x, ast.Subscript) and norm(x.value) == "args")
                                                     for x in _flatten_add(a)):
                    kind = "end tag from template"
                else:
                    kind = "raw"
                ok = True
                detail = kind
                if kind == "raw":
                    if id(wr) in reach_noflag or not flagnames:
                        ok = False
                        detail = (f"`{norm(wr)[:60]}` writes an evaluation result unescaped on a path where the template did not ask for 'structure': "
                                  "context data can introduce markup")
                    else:
                        detail = "raw write only under the structure flag"
                rep.add("R18a", f"{m.qualname}: {norm(wr)[:55]}", ok, ctx.where(m, wr), detail, key=f"R18a|{m.qualname}|{norm(wr)[:70]}",
                        nontrivial=kind in ("raw", "escaped", "tag"))
    # (3) text results are escaped: at least one escaped write exists in the end-tag handler
    et = interp.methods.get("cmdEndTagEndScope")
    if et is not None:
        has_esc = any(isinstance(n, ast.Call) and (dotted(n.func) or "") == "html.escape" for n in ast.walk(et.node))
        rep.add("R18a", "text results go through html.escape", has_esc, ctx.where(et), "" if has_esc else "no html.escape in the result writer", key="R18a|escape-present")

    # ------------------------------------------------------------------ R18b
    n_eval = 0
    for m2 in (mod, tales, prog.modules.get("simpletal.simpleTALUtils")):
        if m2 is None:
            continue
        for f in list(m2.functions.values()) + [x for c in m2.classes.values() for x in c.methods.values()]:
            evs = [(c, t) for c, t in eff.calls_of(f, f.cls) if t.kind == "ext" and "EVAL" in PRIMITIVES.get(t.ext, ())]
            if not evs:
                continue
            n_eval += 1
            assume = {"self.allowPythonPath": Const(0), "self.context.allowPythonPath": Const(0)}
            from ..facts import reachable_nodes

            reached = reachable_nodes(prog, ctx.resolver, f, f.cls, {id(c) for c, _ in evs}, assume)
            bad = [evs[0][0]] if reached is None or reached else []
            rep.add("R18b", f"{f.qualname}: {norm(evs[0][0])[:40]} gated by allowPythonPath", not bad, ctx.where(f, evs[0][0]),
                    "python: expressions are evaluated although Python paths are disabled" if bad else "", key=f"R18b|{f.qualname}|eval")
    if n_eval == 0:
        rep.ok("R18b", "no eval/exec in simpletal at all", nontrivial=False)
    cx = tales.classes.get("Context")
    if cx is not None:
        writes = []
        for m in cx.methods.values():
            for n in ast.walk(m.node):
                if isinstance(n, ast.Assign) and any(norm(t) == "self.allowPythonPath" for t in n.targets):
                    writes.append((m, n))
        ok = len(writes) == 1 and writes[0][0].name == "__init__" and norm(writes[0][1].value) == "allowPythonPath"
        rep.add("R18b", "Context stores the allowPythonPath argument unchanged, once", ok, ctx.where(writes[0][0], writes[0][1]) if writes else tales.relpath,
                "" if ok else f"self.allowPythonPath is assigned {[norm(n.value) for _, n in writes]}", key="R18b|flag")
        init = cx.methods.get("__init__")
        if init is not None:
            a = init.node.args
            names = [x.arg for x in a.args]
            dflt = None
            if "allowPythonPath" in names:
                i = names.index("allowPythonPath") - (len(names) - len(a.defaults))
                if 0 <= i < len(a.defaults):
                    dflt = a.defaults[i]
            ok = isinstance(dflt, ast.Constant) and not dflt.value
            rep.add("R18b", "Python paths are disabled unless asked for", ok, ctx.where(init), "" if ok else "allowPythonPath defaults to enabled", key="R18b|default",
                    nontrivial=False)
    th = ctx.cls("handlers.tal.TALFileHandler")
    if th is not None:
        wr = prog.resolve_method(th, "write")
        problems = []
        from ..structure import bind_params, helper_calls

        # the context may be built in write() or in a helper it calls (method or module-level function)
        scopes = [(wr, {})] + [(g, b) for g, _, caller, b in helper_calls(prog, ctx.resolver, wr, th, depth=2)] if wr else []
        ctor = [(n, b) for fn, b in scopes for n in ast.walk(fn.node) if isinstance(n, ast.Call) and (dotted(n.func) or "").endswith("Context")]
        if not ctor:
            problems.append("the handler does not build a TALES context")
        for c, b in ctor:
            v = next((k.value for k in c.keywords if k.arg == "allowPythonPath"), c.args[1] if len(c.args) > 1 else None)
            v = bind_params(v, b) if v is not None else None
            if v is None or norm(v) != "self.allowpythonpath":
                problems.append(f"the context is created with allowPythonPath={norm(v) if v is not None else 'default'} instead of the configured option")
        cfg_ok = False
        for c in prog.mro(th):
            for m in c.methods.values():
                for n in ast.walk(m.node):
                    if isinstance(n, ast.Assign) and any(norm(t) == "self.allowpythonpath" for t in n.targets) and isinstance(n.value, ast.Call) \
                            and isinstance(n.value.func, ast.Attribute) and n.value.func.attr == "getboolean" \
                            and any(isinstance(x, ast.Constant) and x.value == "allowpythonpath" for x in n.value.args):
                        cfg_ok = True
        if not cfg_ok:
            problems.append("self.allowpythonpath is never read from the allowpythonpath option")
        rep.add("R18b", "TALFileHandler passes the allowpythonpath option to the context", not problems, ctx.where(wr) if wr else "", "; ".join(problems), key="R18b|handler")

    # ------------------------------------------------------------------ R18c
    scope_fields = []
    ss = interp.methods.get("cmdStartScope")
    if ss is not None:
        for n in ast.walk(ss.node):
            if isinstance(n, ast.Call) and isinstance(n.func, ast.Attribute) and n.func.attr == "append" and norm(n.func.value) == "self.scopeStack" \
                    and n.args and isinstance(n.args[0], ast.Tuple):
                scope_fields = [norm(e) for e in n.args[0].elts]
        if not scope_fields:
            # the state is saved through a NamedTuple / a helper of the class (see C17's saved_names)
            from .c17 import saved_names

            scope_fields = ["self." + x for x in saved_names(prog, interp, ss)]
    for flag in ("self.localVarsDefined", "self.repeatVariable"):
        rep.add("R18c", f"{flag} is part of the saved scope state", flag in scope_fields, ctx.where(ss) if ss else mod.relpath,
                "" if flag in scope_fields else f"{flag} is not saved/restored per element: an inner element's locals flag leaks to the outer one", key=f"R18c|saved|{flag}")
    # ... and of the state saved around a nested template run (structure content that is itself a template, macros)
    from .c17 import saved_names

    pp, qp = interp.methods.get("pushProgram"), interp.methods.get("popProgram")
    if pp is not None and qp is not None:
        _reflective = any(isinstance(c_, ast.Call) and isinstance(c_.func, ast.Attribute) and dotted(c_.func.value) == "self"
                          and (h_ := prog.resolve_method(interp, c_.func.attr)) is not None
                          and any(isinstance(x, ast.Attribute) and x.attr == "_fields" for x in ast.walk(h_.node))
                          and any(isinstance(x, ast.Call) and dotted(x.func) == "setattr" for x in ast.walk(h_.node))
                          for c_ in ast.walk(qp.node))
        sv, rs = saved_names(prog, interp, pp), (saved_names(prog, interp, pp) if _reflective else set()) | saved_names(prog, interp, qp) | {n.attr for n in ast.walk(qp.node) if isinstance(n, ast.Attribute)
                                                                                   and isinstance(n.ctx, ast.Store) and dotted(n.value) == "self"}
        for flag in ("localVarsDefined", "repeatVariable"):
            ok = flag in sv and flag in rs
            rep.add("R18c", f"self.{flag} is saved and restored around a nested template run", ok, ctx.where(pp),
                    "" if ok else f"self.{flag} is not part of the state pushProgram/popProgram carry over a nested run: the nested template clears it and the "
                    "enclosing element never pops the locals it pushed (defined variables stay in the caller's context)", key=f"R18c|program|{flag}")
    for C in interps:
        for m in C.methods.values():
            pushes = [n for n in ast.walk(m.node) if isinstance(n, ast.Call) and isinstance(n.func, ast.Attribute) and n.func.attr in ("pushLocals", "addRepeat")
                      and norm(n.func.value) == "self.context"]
            pops = [n for n in ast.walk(m.node) if isinstance(n, ast.Call) and isinstance(n.func, ast.Attribute) and n.func.attr in ("popLocals", "removeRepeat")
                    and norm(n.func.value) == "self.context"]
            if pushes:
                w = Walker(prog, ctx.resolver, merge_loops=False, unroll=2)
                problems = []
                try:
                    for p in w.run(m, C):
                        if p.kind == "raise":
                            continue
                        pushed = None
                        flagged = False
                        for e in p.events:
                            if e.kind == "call" and e.node in pushes:
                                pushed = e.node.func.attr
                            if e.kind == "assign" and e.target in ("self.localVarsDefined",) and truth(e.extra) is not False:
                                flagged = True
                            if e.kind == "assign" and e.target == "self.repeatVariable" and not (e.extra is not None and e.extra.kind == "const" and e.extra.value is None):
                                flagged = True
                        if pushed == "pushLocals" and not flagged:
                            # the flag may be assigned from a local that is truthy on this path
                            last = [e for e in p.events if e.kind == "assign" and e.target == "self.localVarsDefined"]
                            if not last or truth(last[-1].extra) is False:
                                problems.append("locals are pushed but the 'locals defined' flag is not set: they are never popped")
                        if pushed == "addRepeat":
                            if not any(e.kind == "assign" and e.target == "self.repeatVariable" for e in p.events) and "self.repeatVariable" not in str([e.target for e in p.events]):
                                problems.append("a repeat is registered but self.repeatVariable is not set")
                except Exception:
                    problems.append("could not enumerate paths")
                rep.add("R18c", f"{m.qualname}: push sets its flag", not problems, ctx.where(m), "; ".join(sorted(set(problems))), key=f"R18c|{m.qualname}|push")
            # pops in a helper method are judged where a command handler calls it (with the helper walked as part of the handler)
            from ..structure import helper_calls

            called_by_handler = {g for hm in C.methods.values() if hm.name.startswith("cmd") for g, _, _, _ in helper_calls(prog, ctx.resolver, hm, C, depth=2)}
            if pops and m in called_by_handler and not m.name.startswith("cmd"):
                pops = []
            if m.name.startswith("cmd"):
                for g, _, _, _ in helper_calls(prog, ctx.resolver, m, C, depth=2):
                    if g.cls is not None and g.cls.module is m.module and not g.name.startswith("cmd"):
                        pops = pops + [n for n in ast.walk(g.node) if isinstance(n, ast.Call) and isinstance(n.func, ast.Attribute)
                                       and n.func.attr in ("popLocals", "removeRepeat") and norm(n.func.value) == "self.context"]
            if pops:
                assume = {"self.localVarsDefined": Const(0), "self.repeatVariable is not None": Const(False), "self.repeatVariable is None": Const(True),
                          "self.repeatVariable": Const(None)}
                from ..facts import reachable_nodes

                reached = reachable_nodes(prog, ctx.resolver, m, C, {id(x) for x in pops}, assume,
                                          inline=lambda fn, t, d: d < 3 and t.bound_cls is not None and fn.cls is not None and fn.cls.module is m.module
                                          and not fn.name.startswith("cmd") and any(any(x is pn for x in ast.walk(fn.node)) for pn in pops))
                bad = ["?"] if reached is None else [norm(x) for x in pops if id(x) in reached]
                rep.add("R18c", f"{m.qualname}: pops only under their flag", not bad, ctx.where(m),
                        f"{sorted(set(bad))} can run although no locals were pushed for this element: the caller's variables are popped away" if bad else "",
                        key=f"R18c|{m.qualname}|pop")
    context_symmetry(ctx, rep, "R18c", tales)
    rep.rule("R18j", "the compiled content command carries a true structure flag for `structure expr` only (compiler evaluated on 8 arguments): "
             "the interpreter writes the result unescaped exactly when that flag is true", floor=1)
    content_flag_obligations(ctx, rep, "R18j", mod)
    rep.rule("R18i", "an element's saved state is taken off the scope stack only after the locals defined on it were popped (every path of every "
             "command handler, with the locals flag set)", floor=1)
    scope_exit_obligations(ctx, rep, "R18i", interps)



def scope_exit_obligations(ctx, rep, rule, interps):
    """An element's saved state is taken off the scope stack only after the locals defined on that element were popped: every
    path of a command handler that reaches `self.scopeStack.pop()` with the locals flag set has called context.popLocals() first."""
    prog = ctx.prog
    n = 0
    for C in interps:
        for m in C.methods.values():
            if not m.name.startswith("cmd"):
                continue

            def is_scope_pop(node):
                return isinstance(node, ast.Call) and isinstance(node.func, ast.Attribute) and node.func.attr == "pop" and norm(node.func.value) == "self.scopeStack"

            reach = [m] + [g for g, _, _, _ in __import__("pgv.structure", fromlist=["helper_calls"]).helper_calls(prog, ctx.resolver, m, C, depth=2)
                           if g.cls is not None and g.cls.module is m.module and not g.name.startswith("cmd")]
            if not any(is_scope_pop(x) for g in reach for x in ast.walk(g.node)):
                continue
            n += 1
            facts = {"self.localVarsDefined": Const(1)}
            w = Walker(prog, ctx.resolver, assumptions=facts, sticky=set(facts), merge_loops=True, max_paths=4000,
                       inline=lambda fn, t, d: d < 3 and t.bound_cls is not None and fn.cls is not None and fn.cls.module is m.module and not fn.name.startswith("cmd")
                       and fn.name not in ("pushProgram", "popProgram"))
            bad = None
            try:
                for p in w.run(m, C, facts=dict(facts)):
                    if p.kind == "raise":
                        continue
                    popped = False
                    for e in p.events:
                        if e.kind == "call" and isinstance(e.node.func, ast.Attribute) and e.node.func.attr == "popLocals":
                            popped = True
                        if e.kind == "assign" and e.target == "self.localVarsDefined":
                            break  # the flag is set on this path itself (the element starts here)
                        if e.kind == "call" and is_scope_pop(e.node) and not popped:
                            bad = e.node
                            break
                    if bad is not None:
                        break
            except Exception:
                rep.add(rule, f"{m.qualname}: locals popped before the scope is left", False, ctx.where(m), "the paths of the handler could not be enumerated",
                        key=f"{rule}|{m.qualname}")
                continue
            rep.add(rule, f"{m.qualname}: locals popped before the scope is left", bad is None, ctx.where(m, bad) if bad is not None else ctx.where(m),
                    "" if bad is None else "a path restores the enclosing element's state from the scope stack while the locals defined on this element are still "
                    "pushed (the flag that says so is overwritten by the restore): they stay in the caller's context after the expansion",
                    key=f"{rule}|{m.qualname}")
    if not n:
        rep.fail(rule, "TemplateInterpreter", detail="no command handler leaves an element's scope (scopeStack.pop() not found)")



def content_flag_obligations(ctx, rep, rule, mod):
    """The interpreter writes a result unescaped when the structure flag of the compiled content command is true: the compiler's
    parser of `tal:content` / `tal:replace` arguments is evaluated - the flag is true for `structure expr` and false for `expr`,
    `text expr` and for paths that merely contain a blank."""
    prog = ctx.prog
    comp = mod.classes.get("TemplateCompiler")
    f = prog.resolve_method(comp, "compileCmdContent") if comp else None
    if f is None or len(f.params) < 2:
        rep.fail(rule, "TemplateCompiler.compileCmdContent", detail="content command compiler not found")
        return
    cases = [("item", False, "item"), ("text item", False, "item"), ("structure item", True, "item"), ("structure a | b", True, "a | b"),
             ("text a | b", False, "a | b"), ("a | b", False, "a | b"), ("textual item", False, "textual item"), ("string:structure x", False, "string:structure x")]
    problems, n = [], 0
    for arg, want_raw, want_expr in cases:
        w = Walker(prog, ctx.resolver, exact_loops=True, unroll=6, max_paths=2000, assumptions={"self.endTagSymbol": Const(7)}, sticky={"self.endTagSymbol"},
                   inline=lambda fn, t, d: d < 3 and (t.bound_cls is not None or fn.module.name.startswith("simpletal")) and fn.name not in ("tagAsText",))
        outs = set()
        try:
            env_ = {f.params[1]: Const(arg)}
            env_.update({p_: Const(0) for p_ in f.params[2:]})
            for p in w.run(f, comp, env=env_, facts={"self.endTagSymbol": Const(7)}):
                if p.kind == "return" and p.value is not None and p.value.kind == "const" and isinstance(p.value.value, tuple) and len(p.value.value) == 2 \
                        and isinstance(p.value.value[1], tuple) and len(p.value.value[1]) >= 3:
                    a = p.value.value[1]
                    outs.add((bool(a[1]), a[2]))
                else:
                    outs.add(("?", ""))
        except Exception:
            outs = {("?", "")}
        if len(outs) != 1 or next(iter(outs))[0] == "?":
            continue
        n += 1
        raw, expr = next(iter(outs))
        if raw is not want_raw:
            problems.append(f"`tal:content=\"{arg}\"` compiles with the structure flag {'set' if raw else 'clear'}: the value is written "
                            f"{'as markup, unescaped' if raw else 'escaped although structure was asked for'}")
        elif expr != want_expr:
            problems.append(f"`tal:content=\"{arg}\"` compiles to the expression {expr!r} instead of {want_expr!r}")
    rep.add(rule, f"{f.qualname}: the structure flag is set for `structure ...` only [{n} of {len(cases)} evaluated]", not problems and n >= len(cases) // 2,
            ctx.where(f), "; ".join(problems[:2]) if problems else ("" if n >= len(cases) // 2 else "the walker could not follow the compiler"),
            key=f"{rule}|content", nontrivial=n > 0)


def context_symmetry(ctx, rep, rule, tales):
    """Context.pushLocals/popLocals and addRepeat/removeRepeat save and restore by stack."""
    prog = ctx.prog
    cx = tales.classes.get("Context")
    if cx is None:
        rep.fail(rule, "simpleTALES.Context", detail="context class not found")
        return

    def saved(fn):
        """(stack, field) pairs: self.<stack>.append(self.<field>) followed by self.<field> = <copy>"""
        out = []
        if fn is None:
            return out
        for n in ast.walk(fn.node):
            if isinstance(n, ast.Call) and isinstance(n.func, ast.Attribute) and n.func.attr == "append" and n.args \
                    and (dotted(n.func.value) or "").startswith("self.") and (dotted(n.args[0]) or "").startswith("self."):
                stack, field = dotted(n.func.value), dotted(n.args[0])
                copied = False
                for a in ast.walk(fn.node):
                    if isinstance(a, ast.Assign) and any(dotted(t) == field for t in a.targets) and a.lineno > n.lineno:
                        v = a.value
                        if isinstance(v, ast.Call) and ((isinstance(v.func, ast.Attribute) and v.func.attr in ("copy", "deepcopy") and (dotted(v.func.value) == field or (v.args and dotted(v.args[0]) == field)))
                                                        or (dotted(v.func) in ("dict", "list") and v.args and dotted(v.args[0]) == field)):
                            copied = True
                        elif isinstance(v, (ast.Dict, ast.List)) and not (v.keys if isinstance(v, ast.Dict) else v.elts):
                            copied = True
                out.append((stack, field, copied))
        return out

    def restored(fn):
        out = []
        if fn is None:
            return out
        for n in ast.walk(fn.node):
            if isinstance(n, ast.Assign) and isinstance(n.value, ast.Call) and isinstance(n.value.func, ast.Attribute) and n.value.func.attr == "pop" \
                    and not n.value.args and (dotted(n.value.func.value) or "").startswith("self."):
                for t in n.targets:
                    if (dotted(t) or "").startswith("self."):
                        out.append((dotted(n.value.func.value), dotted(t)))
        return out
    for push, pop, what in (("pushLocals", "popLocals", "local variables"), ("addRepeat", "removeRepeat", "repeat variables")):
        pf, qf = cx.methods.get(push), cx.methods.get(pop)
        problems = []
        if pf is None or qf is None:
            problems.append(f"{push}/{pop} not found")
        else:
            sv = [x for x in saved(pf)]
            # addRepeat may delegate the locals part to pushLocals
            rs = restored(qf)
            own = [(st, f, c) for st, f, c in sv]
            if not own:
                problems.append(f"{push} does not save the current {what} on a stack: an inner scope overwrites the outer one's {what} for good")
            for st, f, c in own:
                if not c:
                    problems.append(f"{push} saves {f} but keeps using (and mutating) the same object instead of a copy")
                if (st, f) not in rs:
                    problems.append(f"{pop} does not restore {f} from {st}")
            # mutation of the field in place without having been saved
            for n in ast.walk(pf.node):
                if isinstance(n, ast.Call) and isinstance(n.func, ast.Attribute) and n.func.attr in ("pop", "clear", "update", "__delitem__") \
                        and any(dotted(n.func.value) == f for _, f, _ in own):
                    pass
            for n in ast.walk(qf.node):
                if isinstance(n, ast.Call) and isinstance(n.func, ast.Attribute) and n.func.attr in ("pop", "clear", "popitem") and n.args \
                        and (dotted(n.func.value) or "").startswith("self.") and not any(dotted(n.func.value) == st for st, _, _ in own):
                    problems.append(f"{pop} deletes entries from {dotted(n.func.value)} in place (an outer scope's entry of the same name is lost)")
        if push == "addRepeat" and pf is not None and not any(isinstance(n, ast.Call) and isinstance(n.func, ast.Attribute) and n.func.attr == "pushLocals" for n in ast.walk(pf.node)):
            problems.append("addRepeat does not push locals for the loop variable")
        rep.add(rule, f"Context.{push}/{pop}: {what} scoped by stack", not problems, ctx.where(pf) if pf else tales.relpath,
                "; ".join(sorted(set(problems))), key=f"{rule}|context|{push}")


def compile_text_obligations(ctx, rep, rule):
    """HTML templates: text between tags is re-escaped before it becomes a TAL_OUTPUT command.  html.parser hands
    handle_data() text with character references already converted (convert_charrefs is True by default), so
    handle_data must escape; handle_charref/handle_entityref are only called when convert_charrefs is switched off,
    and then they must escape what they decode as well."""
    prog = ctx.prog
    mod = prog.modules.get("simpletal.simpleTAL")
    comp = mod.classes.get("HTMLTemplateCompiler") if mod else None
    if comp is None:
        rep.fail(rule, "HTMLTemplateCompiler", detail="HTML template compiler not found")
        return

    def escaped_arg(call, m):
        """is the argument of self.parseData(...) html.escape()d, or handed to handle_data()?"""
        a = call.args[0] if call.args else None
        from ..facts import expand_ast

        a = expand_ast(a, m) if a is not None else None
        return isinstance(a, ast.Call) and (dotted(a.func) or "") in ("html.escape", "cgi.escape", "xml.sax.saxutils.escape")

    hd = prog.resolve_method(comp, "handle_data")
    problems = []
    if hd is None:
        problems.append("handle_data not found")
    else:
        pcs = [n for n in ast.walk(hd.node) if isinstance(n, ast.Call) and isinstance(n.func, ast.Attribute) and n.func.attr == "parseData"]
        if not pcs:
            problems.append("handle_data does not add the text to the program")
        for c in pcs:
            if not escaped_arg(c, hd):
                problems.append(f"`{norm(c)[:50]}` adds template text unescaped: a literal &lt; in the source comes out as <")
    rep.add(rule, "handle_data escapes template text", not problems, ctx.where(hd) if hd else "simpletal/simpleTAL.py", "; ".join(problems), key=f"{rule}|handle_data")
    # are the reference handlers live?
    live = []
    for m_ in prog.modules.values():
        if not m_.name.startswith("simpletal"):
            continue
        for n in ast.walk(m_.tree):
            if isinstance(n, ast.Call):
                for k in n.keywords:
                    if k.arg == "convert_charrefs" and not (isinstance(k.value, ast.Constant) and k.value.value is True):
                        live.append(f"{m_.relpath}:{n.lineno}")
            if isinstance(n, ast.Assign) and any(isinstance(t, ast.Attribute) and t.attr == "convert_charrefs" for t in n.targets) \
                    and not (isinstance(n.value, ast.Constant) and n.value.value is True):
                live.append(f"{m_.relpath}:{n.lineno}")
    problems = []
    for name in ("handle_charref", "handle_entityref"):
        m = prog.resolve_method(comp, name)
        if m is None:
            continue
        for c in [n for n in ast.walk(m.node) if isinstance(n, ast.Call) and isinstance(n.func, ast.Attribute) and n.func.attr == "parseData"]:
            if live and not escaped_arg(c, m):
                problems.append(f"character references are delivered to {name}() (convert_charrefs switched off at {live[0]}) and `{norm(c)[:50]}` "
                                "adds the decoded character unescaped: &#60;b&#62; in a template becomes a real <b> element")
    rep.add(rule, "reference handlers dormant or escaping" + (" (live)" if live else " (dormant: html.parser converts references before handle_data)"),
            not problems, "simpletal/simpleTAL.py", "; ".join(problems), key=f"{rule}|refs")


def _flatten_add(n):
    if isinstance(n, ast.BinOp) and isinstance(n.op, ast.Add):
        return _flatten_add(n.left) + _flatten_add(n.right)
    return [n]


# ---------------------------------------------------------------------------------------------- R18f
def _library_names(dotted_name):
    """Public callables of a class of the standard library (looked up in the running interpreter's own library; nothing
    of the repository is imported)."""
    import importlib
    import sys as _sys

    modname, _, clsname = dotted_name.rpartition(".")
    if not modname or modname.split(".")[0] not in getattr(_sys, "stdlib_module_names", ()):
        return None
    try:
        L = getattr(importlib.import_module(modname), clsname)
    except Exception:
        return None
    if not isinstance(L, type):
        return None
    return {n for n in dir(L) if not n.startswith("__") and callable(getattr(L, n, None)) and not hasattr(object, n)}


def library_shadow_obligations(ctx, rep, rule="R18f"):
    prog = ctx.prog
    n_cls = 0
    for mod in prog.modules.values():
        if not mod.name.startswith("simpletal"):
            continue
        for C in mod.classes.values():
            if len(C.bases) < 2:
                continue

            def lib_roots(b, _seen=()):
                """library classes a base descends from"""
                if isinstance(b, str):
                    return {b}
                out = set()
                if b in _seen:
                    return out
                for bb in b.bases:
                    out |= lib_roots(bb, _seen + (b,))
                return out

            def repo_methods(b, _seen=()):
                out = {}
                if isinstance(b, str) or b in _seen:
                    return out
                for bb in reversed(b.bases):
                    out.update(repo_methods(bb, _seen + (b,)))
                out.update({n: m for n, m in b.methods.items()})
                return out

            later_libs = []
            for i, b in enumerate(C.bases):
                libs = set()
                for bj in C.bases[i + 1:]:
                    libs |= lib_roots(bj)
                libs -= lib_roots(b)  # a base that is itself built on the library overrides it on purpose
                later_libs.append(libs)
            if not any(later_libs):
                continue
            n_cls += 1
            problems = []
            for b, libs in zip(C.bases, later_libs):
                if isinstance(b, str) or not libs:
                    continue
                meths = repo_methods(b)
                for L in sorted(libs):
                    names = _library_names(L)
                    if names is None:
                        continue
                    for n in sorted(set(meths) & names):
                        if n in C.methods:
                            continue  # the class itself settles which one is meant
                        problems.append((meths[n], f"{meths[n].qualname} comes before {L}.{n} in the method order of {C.name}: self.{n}() and the "
                                         f"library's own calls of {n}() reach the mix-in, never the parser"))
            rep.add(rule, f"{C.qualname}: mix-in bases leave the parser interface alone", not problems,
                    ctx.where(problems[0][0]) if problems else ctx.where(C), "; ".join(p_[1] for p_ in problems[:2]), key=f"{rule}|{C.qualname}")
    if not n_cls:
        rep.fail(rule, "template compilers", detail="no class combining a mix-in with a parser base found")


# ---------------------------------------------------------------------------------------------- R18h
_INTERPRETERS = [(3, 7, 0), (3, 8, 10), (3, 9, 2), (3, 10, 0), (3, 11, 7), (3, 12, 1), (3, 13, 0), (3, 20, 3), (4, 0, 0)]
_ATTRS = [("title", "R&D<x&y; &amp; &#65; &lt;b&gt;"), ("href", "?a=1&copy=2;&b"), ("alt", ""), ("checked", None)]


def _version_text(v):
    return "%d.%d.%d (main, Jan  1 2024, 00:00:00) [GCC 12.2.0]" % v


def attribute_passthrough_obligations(ctx, rep, rule="R18h"):
    """html.parser hands attribute values over with their references already expanded, on every interpreter
    the package supports: the compiler has to take them as they are, whatever version test it makes."""
    from ..paths import Const, PathLimit, Walker
    from ..structure import module_func

    prog = ctx.prog
    tal = prog.modules.get("simpletal.simpleTAL")
    comp = tal.classes.get("HTMLTemplateCompiler") if tal else None
    hs = prog.resolve_method(comp, "handle_starttag") if comp else None
    if hs is None or len(hs.params) < 3:
        rep.fail(rule, "HTMLTemplateCompiler.handle_starttag", detail="the HTML compiler's start-tag callback was not found")
        return
    mod = hs.module

    def dotted_in(node):
        from ..loader import dotted
        d = dotted(node)
        if not d:
            return None
        head, _, rest = d.partition(".")
        head = mod.imports.get(head, head)
        return head + ("." + rest if rest else "")

    local = {n.id for n in ast.walk(hs.node) if isinstance(n, ast.Name) and isinstance(n.ctx, ast.Store)} | set(hs.params)
    read = {n.id for n in ast.walk(hs.node) if isinstance(n, ast.Name) and isinstance(n.ctx, ast.Load)} - local
    # module-level names read by the callback that the module computes rather than states
    computed = {}
    for stmt in mod.tree.body:
        if isinstance(stmt, (ast.FunctionDef, ast.ClassDef, ast.Import, ast.ImportFrom)):
            continue
        versioned = any(isinstance(x, ast.Attribute) and (dotted_in(x) or "").startswith(("sys.version", "sys.hexversion", "platform.python_version"))
                        for x in ast.walk(stmt))
        for n in ast.walk(stmt):
            if isinstance(n, ast.Name) and isinstance(n.ctx, ast.Store) and (n.id in read or versioned):
                if isinstance(stmt, ast.Assign) and isinstance(stmt.value, ast.Constant):
                    continue
                if isinstance(stmt, ast.Assign) and isinstance(stmt.value, ast.Call) and dotted_in(stmt.value.func) in ("re.compile", "logging.getLogger"):
                    continue
                computed.setdefault(n.id, [])
                if stmt not in computed[n.id]:
                    computed[n.id].append(stmt)

    def sysval(v):
        def ev(node, st):
            if isinstance(node, ast.Attribute):
                d = dotted_in(node)
                if d == "sys.version_info":
                    return Const(tuple(v) + ("final", 0))
                if d == "sys.version":
                    return Const(_version_text(v))
                if d == "sys.hexversion":
                    return Const((v[0] << 24) | (v[1] << 16) | (v[2] << 8) | 0xF0)
                if isinstance(node.value, ast.Attribute) and dotted_in(node.value) == "sys.version_info" and node.attr in ("major", "minor", "micro"):
                    return Const(v[("major", "minor", "micro").index(node.attr)])
            if isinstance(node, ast.Call) and dotted_in(node.func) in ("platform.python_version",):
                return Const("%d.%d.%d" % v)
            if isinstance(node, ast.Call) and dotted_in(node.func) in ("platform.python_version_tuple",):
                return Const(tuple(str(x) for x in v))
            return None
        return ev

    mf = module_func(mod)
    problems, undecided, n = [], [], 0
    for v in _INTERPRETERS:
        consts = {}
        for name, stmts in computed.items():
            w = Walker(prog, ctx.resolver, expr_value=sysval(v), exact_loops=True, unroll=4, max_paths=400)
            vals = set()
            try:
                for p in w.run_body(stmts, mf):
                    val = p.state.env.get(name)
                    vals.add(repr(val.value) if val is not None and val.kind == "const" else "?")
            except PathLimit:
                vals = {"?"}
            if len(vals) == 1 and "?" not in vals:
                consts[name] = Const(ast.literal_eval(next(iter(vals))))
        seen = []

        def cv(call, target, st, _w=[None]):
            f = call.func
            if isinstance(f, ast.Attribute) and isinstance(f.value, ast.Name) and f.value.id == hs.params[0] and f.attr == "parseStartTag":
                a = w2.cur_args or []
                seen.append(a[1] if len(a) > 1 else None)
                return Const(None)
            if isinstance(f, ast.Attribute) and f.attr in ("debug", "info", "warn", "warning") :
                return Const(None)
            if isinstance(f, ast.Attribute) and isinstance(f.value, ast.Name) and f.value.id == hs.params[0] and f.attr == "popTag":
                return Const(None)
            return None

        def ev2(node, st, _c=consts, _s=sysval(v)):
            if isinstance(node, ast.Name) and isinstance(node.ctx, ast.Load) and node.id in _c and node.id not in st.env:
                return _c[node.id]
            return _s(node, st)

        w2 = Walker(prog, ctx.resolver, call_value=cv, expr_value=ev2, exact_loops=True, unroll=8, max_paths=3000,
                    inline=lambda fn, t, d: d < 2 and fn.module.name.startswith("simpletal") and fn.name not in ("parseStartTag", "popTag"))
        given = [a for a in _ATTRS if a[1] is not None] + [("checked", "checked")]
        handed = list(_ATTRS)  # a minimised attribute comes as (name, None) and is given its own name; an empty value stays empty
        try:
            paths = w2.run(hs, comp, env={hs.params[1]: Const("a"), hs.params[2]: Const(handed)},
                           facts={"self.tal_namespace_omittag": Const("tal:omit-tag")})
            kinds = {p.kind for p in paths}
        except PathLimit:
            kinds, seen = {"?"}, []
        got = None
        if len(seen) == 1 and seen[0] is not None and seen[0].kind == "const" and kinds <= {"return", "fall"}:
            got = [tuple(x) for x in seen[0].value]
        label = "%d.%d" % v[:2]
        if got is None:
            undecided.append(label + "".join(f" ({k} = {c.value!r})" for k, c in consts.items() if isinstance(c.value, bool)))
            continue
        n += 1
        if got != given:
            bad = next((g for g, e in zip(got, given) if g != e), got)
            problems.append(f"on Python {label} ({', '.join(f'{k} = {c.value!r}' for k, c in consts.items()) or 'no version test'}) the attribute value "
                            f"{dict(given).get(bad[0], '')!r} the parser hands over reaches the compiled template as {bad[1]!r}")
    ok = not problems and not undecided
    detail = "; ".join(problems[:2])
    if undecided and not problems:
        detail = f"the callback does not plainly pass the values on for Python {', '.join(undecided)}: attribute values are worked on a second time there"
    rep.add(rule, f"{hs.qualname}: attribute values as the parser hands them over [{n} of {len(_INTERPRETERS)} interpreters evaluated"
            + (f"; computed module names {sorted(computed)}" if computed else "") + "]", ok, ctx.where(hs), detail, key=f"{rule}|handle_starttag", nontrivial=n > 0)
