"""C13  Generated HTML, WML and Gopher+ blocks cannot be subverted by data.

R13a  every operand interpolated into server-built HTML/WML is escaped text (text
      context) or quote-escaped / percent-encoded (inside a double-quoted attribute)
R13b  values interpolated into HTTP header lines are server-chosen (time, MIME table)
R13c  the redirect page escapes the URL; its filter rejects quotes and control characters
R13d  Gopher+ blocks: attribute text is emitted line by line behind a one-space prefix;
      block names are constants / configuration
R13e  text that can span lines (HTML titles, mail subjects) is whitespace-collapsed
      before it becomes an entry name
"""

from __future__ import annotations

import ast

from ..loader import dotted, norm
from ..markup import K, MarkupDomain, OBJ, TAINTED
from ..paths import Const, Walker, truth
from ..prov import Engine
from ..strlang import accepts, path_constraints
from ..structure import parents

MARKUP_ENTRY = ["renderobjinfo", "renderdirstart", "renderdirend", "renderabstract", "filenotfound", "handlerwrite",
                "getimgtag", "handle", "write_status"]


def build(ctx):
    prog = ctx.prog
    pb = ctx.cls("protocols.base.BaseGopherProtocol")
    hb = ctx.cls("handlers.base.BaseHandler")
    ge = ctx.cls("gopherentry.GopherEntry")
    dom = MarkupDomain(prog, pb, hb, ge)
    eng = Engine(prog, ctx.resolver, dom, max_depth=10)
    if ge is not None:
        eng.field_classes = [ge]
    return dom, eng, pb, hb, ge


def markup_classes(ctx, pb, hb):
    """Classes with methods that build strings containing markup."""
    out = []
    for base in (pb, hb):
        if base is None:
            continue
        for C in ctx.prog.subclasses(base):
            for m in C.methods.values():
                if any(isinstance(n, ast.Constant) and isinstance(n.value, (str, bytes)) and
                       ("<" in (n.value if isinstance(n.value, str) else n.value.decode("latin-1"))) and
                       (">" in (n.value if isinstance(n.value, str) else n.value.decode("latin-1")))
                       for n in ast.walk(m.node)):
                    out.append(C)
                    break
    # subclasses inherit markup methods
    res = []
    for base in (pb, hb):
        if base is None:
            continue
        for C in ctx.prog.subclasses(base):
            if any(c in out for c in ctx.prog.mro(C)) and C not in res:
                res.append(C)
    return res


def _configured_names(ctx, it, func) -> bool:
    """Does this iterable enumerate the configured sidecar table (eaexts) or another entry's block names - directly,
    through a local, or through a one-return accessor of the class?"""
    from ..structure import resolve_value

    texts = [norm(it)]
    try:
        texts.append(norm(resolve_value(it, func, func.cls, None, ctx.prog, ctx.resolver)))
    except Exception:
        pass
    # an accessor with a lazily filled module-level table: `global eaexts ... return eaexts`
    for n in ast.walk(it):
        if isinstance(n, ast.Call) and isinstance(n.func, ast.Attribute) and dotted(n.func.value) == "self" and func.cls is not None:
            m = ctx.prog.resolve_method(func.cls, n.func.attr)
            if m is not None:
                texts.extend(norm(r.value) for r in ast.walk(m.node) if isinstance(r, ast.Return) and r.value is not None)
        if isinstance(n, ast.Name):
            for a in ast.walk(func.node):
                if isinstance(a, ast.Assign) and any(isinstance(t, ast.Name) and t.id == n.id for t in a.targets) and a.value is not it:
                    for c in ast.walk(a.value):
                        if isinstance(c, ast.Call) and isinstance(c.func, ast.Attribute) and dotted(c.func.value) == "self" and func.cls is not None:
                            m = ctx.prog.resolve_method(func.cls, c.func.attr)
                            if m is not None:
                                texts.extend(norm(r.value) for r in ast.walk(m.node) if isinstance(r, ast.Return) and r.value is not None)
                    texts.append(norm(a.value))
    return any("eaexts" in t or "geteadict()" in t for t in texts)


def name_sink_obligations(ctx, rep, rule, why=None):
    """Text read from file content (HTML titles, mail subjects) that becomes an entry name: whitespace-collapsed first."""
    prog = ctx.prog
    dom, eng, pb, hb, ge = build(ctx)
    for H in ctx.handler_classes():
        m = prog.resolve_method(H, "getentry")
        if m is not None:
            eng.eval_func(m, H, {})
    for key, rec in sorted(dom.name_sinks.items()):
        func, node = rec["func"], rec["node"]
        bad = {"MULTILINE", "LINE"} & rec["kinds"]
        rep.add(rule, f"{func.qualname}: {norm(node)[:60]}", not bad, ctx.where(func, node),
                (why or "text that can contain line breaks or tabs becomes an entry name without whitespace collapsing") if bad else f"{sorted(rec['kinds'])}",
                key=f"{rule}|{func.qualname}|{norm(node)[:60]}", nontrivial=bool(rec["kinds"] - {"CONST", "OBJ"}))



_RE_FLAGS = {"A", "ASCII", "I", "IGNORECASE", "L", "LOCALE", "M", "MULTILINE", "S", "DOTALL", "U", "UNICODE", "X", "VERBOSE", "NOFLAG", "DEBUG"}


def regex_flag_position_obligations(ctx, rep, rule):
    """`re.sub(p, r, s, re.X)` passes the flag as *count* (and `re.split(p, s, re.X)` as maxsplit): the substitution that is
    meant to remove line ends or collapse blanks from text that goes into markup then stops after that many matches."""
    prog = ctx.prog
    n, found = 0, []
    for f in prog.all_functions():
        if not f.module.name.startswith(("pygopherd", "simpletal")) or ".tests" in f.module.name:
            continue
        for c in ast.walk(f.node):
            if not isinstance(c, ast.Call):
                continue
            d = dotted(c.func) or ""
            pos = {"re.sub": 3, "re.subn": 3, "re.split": 2}.get(d)
            if pos is None and isinstance(c.func, ast.Attribute) and c.func.attr in ("sub", "subn", "split"):
                pos = {"sub": 2, "subn": 2, "split": 1}[c.func.attr] if not d.startswith("re.") else None
            if pos is None:
                continue
            n += 1
            if len(c.args) > pos:
                a = c.args[pos]
                names = {(dotted(x) or "") for x in ast.walk(a) if isinstance(x, ast.Attribute)}
                if any(nm.startswith("re.") and nm.split(".")[-1] in _RE_FLAGS for nm in names):
                    found.append((f, c, norm(a)))
    for f, c, a in found:
        rep.add(rule, f"{f.qualname}: {norm(c)[:60]}", False, ctx.where(f, c),
                f"`{a}` is passed in the position of count/maxsplit, not as flags=: only that many matches are replaced - a title or attribute with more "
                "line ends than that keeps them, and text after a raw CR LF passes for a new header line", key=f"{rule}|{f.qualname}|{norm(c)[:40]}")
    if not found:
        rep.ok(rule, f"regular-expression flags are passed as flags [{n} substitution / split calls]", "pygopherd", "", key=f"{rule}|none")



def regex_replacement_obligations(ctx, rep, rule):
    """The replacement argument of re.sub is a template: backslash escapes in it are expanded (`\\074` becomes `<`).  Data - even data
    that has been escaped for HTML - may only be put in through a function replacement (or str.replace)."""
    prog = ctx.prog
    n, found = 0, []
    for f in prog.all_functions():
        if not f.module.name.startswith("pygopherd") or ".tests" in f.module.name:
            continue
        for c in ast.walk(f.node):
            if not isinstance(c, ast.Call):
                continue
            d = dotted(c.func) or ""
            if d in ("re.sub", "re.subn") and len(c.args) >= 2:
                repl = c.args[1]
            elif isinstance(c.func, ast.Attribute) and c.func.attr in ("sub", "subn") and not d.startswith("re.") and len(c.args) >= 1 \
                    and not isinstance(c.func.value, ast.Constant):
                repl = c.args[0]
            else:
                continue
            n += 1
            if isinstance(repl, (ast.Constant, ast.Lambda)):
                continue
            if isinstance(repl, ast.Name) and (repl.id in f.module.functions or any(isinstance(x, ast.FunctionDef) and x.name == repl.id for x in ast.walk(f.node))):
                continue
            if isinstance(repl, ast.Attribute) and dotted(repl.value) in ("self", "cls"):
                g = prog.resolve_method(f.cls, repl.attr) if f.cls is not None else None
                if g is not None:
                    continue
            if isinstance(repl, ast.Call) and isinstance(repl.func, ast.Attribute) and repl.func.attr == "replace" and repl.args \
                    and isinstance(repl.args[0], ast.Constant) and repl.args[0].value == "\\":
                continue  # backslashes doubled
            found.append((f, c, norm(repl)))
    for f, c, r in found:
        rep.add(rule, f"{f.qualname}: {norm(c)[:60]}", False, ctx.where(f, c),
                f"`{r[:40]}` is data used as the replacement *template* of a substitution: a backslash sequence in it (`\\074`, `\\g<0>`) is expanded after any "
                "escaping was done - a name can smuggle `<` into the page, or make the substitution fail", key=f"{rule}|{f.qualname}|{norm(c)[:40]}")
    if not found:
        rep.ok(rule, f"substitutions take constant or function replacements [{n} calls]", "pygopherd", "", key=f"{rule}|none")


def check(ctx, rep):
    prog = ctx.prog
    rep.rule("R13a", "operands interpolated into HTML/WML built by the server: escaped in text, quote-escaped or percent-encoded in attributes", floor=20)
    rep.rule("R13b", "HTTP header lines interpolate only server-chosen values", floor=2)
    rep.rule("R13c", "redirect page: URL escaped with quotes; filter rejects \" CR LF TAB NUL", floor=5)
    rep.rule("R13g", "the replacement of a regular-expression substitution is a constant or a function, never data (its backslash sequences would be "
             "expanded after escaping)", floor=1)
    regex_replacement_obligations(ctx, rep, "R13g")
    rep.rule("R13f", "substitutions that clean text for markup run to the end: no regular-expression flag sits in the count / maxsplit position "
             "of re.sub / re.split", floor=1)
    regex_flag_position_obligations(ctx, rep, "R13f")
    rep.rule("R13e", "= R03m: names, selectors and other data are arguments of the format operations that build markup, never part of the format "
             "string - escaping does not touch `%` and braces, so `{img}` in a file name would be interpreted a second time", floor=1)
    from .c03 import format_string_obligations
    format_string_obligations(ctx, rep, "R13e")
    rep.rule("R13d", "Gopher+ blocks: attribute text only via splitlines() behind a ' ' prefix; block names constant/config", floor=3)
    rep.rule("R13e", "HTML titles and mail subjects are whitespace-collapsed before setname", floor=2)
    rep.assume("the configuration (pagetopper, footer, admin) is trusted markup/text")
    dom, eng, pb, hb, ge = build(ctx)
    if pb is None or hb is None:
        rep.fail("R13a", "class hierarchy", detail="protocol/handler base classes not found")
        return

    # header writers: the HTTP family's handle() writes the header block with f-strings
    http = ctx.cls("protocols.http.HTTPProtocol")
    gp = ctx.cls("protocols.gopherp.GopherPlusProtocol")
    if http is not None:
        for C in prog.subclasses(http):
            h = prog.resolve_method(C, "handle")
            if h is not None:
                dom.header_funcs.add(h.qualname)
            dom.header_classes.add(C.qualname)
    if gp is not None:
        for C in prog.subclasses(gp):
            for c in prog.mro(C):
                for m in c.methods.values():
                    if m.name == "getblock" or (m.name.startswith("get") and m.name.endswith("block")) or m.name == "getallblocks":
                        dom.block_funcs.add(m.qualname)

    classes = markup_classes(ctx, pb, hb)
    for C in classes:
        for mname in MARKUP_ENTRY + ["write", "getentry"]:
            m = prog.resolve_method(C, mname)
            if m is None:
                continue
            if prog.is_subclass(C, hb) and mname not in ("write", "getentry"):
                continue
            if prog.is_subclass(C, pb) and mname in ("write", "getentry"):
                continue
            eng.eval_func(m, C, {})
    if gp is not None:
        for C in prog.subclasses(gp):
            for mname in ("renderobjinfo", "getallblocks", "getblock", "filenotfound"):
                m = prog.resolve_method(C, mname)
                if m is not None:
                    args = {}
                    if mname == "getblock":
                        args = {"block": K("CONFIG")}
                    eng.eval_func(m, C, args)
    # what the HTML/WML renderers hand back is the markup they built - nothing rewrites it afterwards
    if http is not None:
        for C in prog.subclasses(http):
            for mname in ("renderobjinfo", "renderdirstart", "renderdirend", "renderabstract"):
                m = prog.resolve_method(C, mname)
                if m is None:
                    continue
                v = eng.eval_func(m, C, {})
                bad = sorted(set(v) & {"TAINTED", "MULTILINE", "LINE"})
                rep.add("R13a", f"{C.name}.{mname}: returns the markup it built", not bad, ctx.where(m),
                        f"the finished markup passes through something that does not preserve escaping (result is {bad}): a transformation applied "
                        "after html.escape - Unicode normalisation, unescaping, decoding, character replacement - can turn harmless characters "
                        "of a name back into < > \" &" if bad else "", key=f"R13a|returns|{C.name}.{mname}")
    # R13e sources: every handler getentry (titles, subjects)
    for H in ctx.handler_classes():
        m = prog.resolve_method(H, "getentry")
        if m is not None:
            eng.eval_func(m, H, {})
    rep.analysed(*sorted(f.qualname for f in eng.visited_funcs))

    pm_cache = {}
    for key, rec in sorted(dom.sinks.items(), key=lambda kv: (kv[0][0], kv[0][1], kv[0][2])):
        func, node = rec["func"], rec["node"]
        # inner links of a + chain are reported by the outermost expression only
        if isinstance(node, ast.BinOp) and isinstance(node.op, ast.Add):
            pm = pm_cache.setdefault(func, parents(func.node))
            par = pm.get(node)
            if isinstance(par, ast.BinOp) and isinstance(par.op, ast.Add) and par.left is node:
                continue
        ctxs = sorted(rec["contexts"])
        if rec["what"] == "header line":
            rule = "R13b"
            why = f"header line carries {sorted(rec['kinds'])} data (must be server-chosen)"
        elif rec["what"] == "Gopher+ block":
            rule = "R13d"
            why = "attribute text reaches a Gopher+ block without the per-line ' ' prefix (a content line could pass for a block header)"
        else:
            rule = "R13a"
            why = (f"operand of kind {sorted(rec['kinds'])} lands in {'/'.join(ctxs)} context without "
                   f"{'html.escape(quote=True) or URL quoting' if any(c in ('attr', 'tag', 'sattr') for c in ctxs) else 'html.escape'}")
        rep.add(rule, f"{func.qualname}: `{rec['operand']}` in {norm(node)[:50]}", rec["ok"], ctx.where(func, node),
                (why + f" [via {sorted(rec['chains'])[0]}]") if not rec["ok"] else f"{sorted(rec['kinds'])} in {'/'.join(ctxs)}",
                key=f"{rule}|{func.qualname}|{rec['operand']}|{norm(node)[:80]}")

    # ------------------------------------------------------------------ R13c
    url = ctx.cls("handlers.url.HTMLURLHandler")
    if url is None:
        rep.fail("R13c", "HTMLURLHandler", detail="redirect handler not found")
    else:
        sec = prog.resolve_method(url, "isrequestsecure")
        w = Walker(prog, ctx.resolver, fork_returns=True, symbols={"self.selector": "SEL"},
                   inline=lambda fn, t, d: False)
        acc = [path_constraints(p, {"self.selector"}) for p in w.run(sec, url) if p.kind == "return" and truth(p.value) is not False]
        def by_evaluation(sel):
            """the filter evaluated on one selector: True / False, or None when the walker cannot follow it"""
            facts = {"self.selector": Const(sel)}
            we = Walker(prog, ctx.resolver, exact_loops=True, unroll=8, assumptions=dict(facts), max_paths=4000,
                        inline=lambda fn, t, d: d < 3 and (t.bound_cls is not None or (fn.cls is None and fn.module.name.startswith("pygopherd."))))
            try:
                outs = {truth(p.value) if p.kind == "return" and p.value is not None else None for p in we.run(sec, url, facts=dict(facts))}
            except Exception:
                return None
            return next(iter(outs)) if len(outs) == 1 else None

        clean_ok = by_evaluation("URL:http://x.example/a?b=c")
        for ch, nm in (('"', "double quote"), ("\n", "LF"), ("\r", "CR"), ("\t", "TAB"), ("\0", "NUL")):
            verdicts = [by_evaluation("URL:http://x.example/a" + ch + "b"), by_evaluation("/URL:http://x.example/" + ch)] if clean_ok is True else [None]
            if all(v is not None for v in verdicts):
                rep.add("R13c", f"redirect filter rejects {nm}", not any(verdicts), ctx.where(sec),
                        f"a selector containing {nm} can reach the redirect page" if any(verdicts) else "", key=f"R13c|{nm}")
                continue
            bad = [cs for cs in acc if accepts(cs, "x" + ch + "y")]
            rep.add("R13c", f"redirect filter rejects {nm}", bool(acc) and not bad, ctx.where(sec),
                    f"a selector containing {nm} can reach the redirect page" if bad or not acc else "", key=f"R13c|{nm}")

    # ------------------------------------------------------------------ R13d (block names)
    n_setea = 0
    for f in prog.all_functions():
        if not f.module.name.startswith("pygopherd") or f.module.name == "pygopherd.testutil":
            continue
        for n in ast.walk(f.node):
            if isinstance(n, ast.Call) and isinstance(n.func, ast.Attribute) and n.func.attr == "setea" and n.args:
                n_setea += 1
                a0 = n.args[0]
                ok = isinstance(a0, ast.Constant)
                if isinstance(a0, ast.Name) and a0.id in f.params:
                    # a helper's parameter: judged at its call sites (the argument there must be a constant or a configured name)
                    sites_ok = []
                    for g in prog.all_functions():
                        if g.module is not f.module:
                            continue
                        for c in ast.walk(g.node):
                            if isinstance(c, ast.Call) and isinstance(c.func, ast.Attribute) and c.func.attr == f.name:
                                params = f.params[1:] if f.cls is not None else f.params
                                idx = params.index(a0.id) if a0.id in params else None
                                arg = c.args[idx] if idx is not None and idx < len(c.args) else next((k.value for k in c.keywords if k.arg == a0.id), None)
                                good = isinstance(arg, ast.Constant)
                                if isinstance(arg, ast.Name):
                                    for loop in ast.walk(g.node):
                                        if isinstance(loop, (ast.For, ast.comprehension)) and any(isinstance(e, ast.Name) and e.id == arg.id for e in ast.walk(loop.target)):
                                            if _configured_names(ctx, loop.iter, g):
                                                good = True
                                sites_ok.append(good)
                    ok = bool(sites_ok) and all(sites_ok)
                elif isinstance(a0, ast.Name):
                    # bound by iterating configuration (eaexts.items()) or another entry's block names
                    for loop in ast.walk(f.node):
                        if isinstance(loop, (ast.For, ast.comprehension)) and any(isinstance(e, ast.Name) and e.id == a0.id for e in ast.walk(loop.target)):
                            if _configured_names(ctx, loop.iter, f):
                                ok = True
                rep.add("R13d", f"{f.qualname}: block name `{norm(a0)}`", ok, ctx.where(f, n),
                        "Gopher+ block name is not a constant/configured name" if not ok else "", key=f"R13d|{f.qualname}|{norm(a0)}")

    # ------------------------------------------------------------------ R13e
    for key, rec in sorted(dom.name_sinks.items()):
        func, node = rec["func"], rec["node"]
        bad = {"MULTILINE", "LINE"} & rec["kinds"]
        rep.add("R13e", f"{func.qualname}: {norm(node)[:60]}", not bad, ctx.where(func, node),
                "text that can contain line breaks becomes an entry name without whitespace collapsing "
                "(it would break the one-line menu / +INFO record it is embedded in)" if bad else f"{sorted(rec['kinds'])}",
                key=f"R13e|{func.qualname}|{norm(node)[:60]}", nontrivial=bool(rec["kinds"] - {"CONST", "OBJ"}))
