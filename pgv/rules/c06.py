"""C06  The same site is seen through every protocol (structural clauses).

R06a  one shared directory walk: only the base protocol defines writedir /
      renderabstract / gethandler; listings are produced only by
      self.writedir(self.entry, handler.getdirlist()); in writedir every entry is
      rendered by self.renderobjinfo and written, unconditionally, once
R06b  every selector that reaches gethandler() went through slashnormalize(), and
      slashnormalize() returns a string starting with "/" on every path
R06c  search strings / selectors are decoded with the transport's convention
      (UTF-8, surrogateescape) in every protocol
R06e  the URL-based renderers link to this server exactly for entries without host and port
R06f  unset host/port/type are completed the same way in Gopher menu lines and gopher:// URLs
R06d  each protocol maps the menu MIME type to its own listing type, totally
Equality of rendered listings across protocols is not decided.
"""

from __future__ import annotations

import ast

from ..effects import Effects
from ..facts import expand_ast
from ..loader import dotted, norm
from ..paths import Const, State, Walker, truth

SHARED = ("writedir", "renderabstract", "gethandler")
DECODERS = {"urllib.parse.unquote", "urllib.parse.unquote_plus", "urllib.parse.parse_qs", "urllib.parse.parse_qsl"}


def writer_params(prog, resolver, g, cls):
    """Parameters of method g that are written to the client (self.wfile.write) on every completing path."""
    cached = getattr(g, "_pgv_writer_params", None)
    if cached is not None:
        return cached
    out = None
    try:
        paths = Walker(prog, resolver, merge_loops=True).run(g, cls)
    except Exception:
        paths = []
    for p in paths:
        if p.kind == "raise":
            continue
        here = set()
        for e in p.events:
            if e.kind == "call" and isinstance(e.node.func, ast.Attribute) and e.node.func.attr == "write" \
                    and (dotted(e.node.func.value) or "").endswith("wfile") and e.node.args:
                a = expand_ast(e.node.args[0], g, e.defs) if e.defs else e.node.args[0]
                here |= {x.id for x in ast.walk(a) if isinstance(x, ast.Name) and x.id in g.params}
        out = here if out is None else (out & here)
    g._pgv_writer_params = out or set()
    return g._pgv_writer_params


def _writedir_by_evaluation(ctx, rep, pb, wd) -> bool:
    """writedir(entry, [E1, E2, E3]) evaluated with the renderers standing for marked strings: what reaches the client is
    start + one rendered line per entry, each exactly once and in list order (an abstract may follow its entry), + end -
    whatever the abstract options say.  True when the evaluation decided."""
    from ..paths import Const as _C, Walker as _W

    prog = ctx.prog
    if len(wd.params) < 3:
        return False
    entries = ["<E1>", "<E2>", "<E3>"]
    holder = {}

    def cv(call, target, st):
        f = call.func
        w = holder["w"]
        a = w.cur_args or []
        if isinstance(f, ast.Attribute) and dotted(f.value) == "self":
            if f.attr == "renderobjinfo" and a and a[0].kind == "const":
                return _C(f"[line {a[0].value}]")
            if f.attr == "renderdirstart":
                return _C("[start]")
            if f.attr == "renderdirend":
                return _C("[end]")
            if f.attr == "renderabstract":
                return _C("[abstract]")
        if isinstance(f, ast.Attribute) and f.attr in ("getea",):
            return _C("abstract text")
        if isinstance(f, ast.Attribute) and f.attr == "write" and (dotted(f.value) or "").endswith("wfile"):
            prev = st.facts.get("__written")
            prev = prev.value if prev is not None and prev.kind == "const" else ()
            v = a[0].value if a and a[0].kind == "const" else None
            st.facts["__written"] = _C(prev + (v,))
            return _C(None)
        return None

    w = _W(prog, ctx.resolver, call_value=cv, exact_loops=True, unroll=len(entries) + 3, max_paths=200000,
           inline=lambda fn, t, d: d < 3 and t.bound_cls is not None and fn.name not in ("renderobjinfo", "renderdirstart", "renderdirend", "renderabstract",
                                                                                         "groksabstract"))
    holder["w"] = w
    try:
        paths = w.run(wd, pb, env={wd.params[1]: _C("<DIR>"), wd.params[2]: _C(list(entries))})
    except Exception:
        return False
    problems = set()
    n = 0
    for p in paths:
        if p.kind == "raise":
            return False
        wr = p.state.facts.get("__written")
        wr = wr.value if wr is not None and wr.kind == "const" else ()
        if any(x is None for x in wr):
            return False
        n += 1
        text = b"".join(x if isinstance(x, bytes) else str(x).encode() for x in wr).decode()
        body = text.replace("[abstract]", "")
        want = "[start]" + "".join(f"[line {e}]" for e in entries) + "[end]"
        if body != want:
            problems.add(f"a listing of {entries} is sent as {text!r}: every entry has to be rendered and written exactly once, in order, between start and end")
        elif "[abstract]" in text:
            # an abstract belongs right after its own entry (or before the first one: the directory's own)
            import re as _re

            if not _re.fullmatch(r"\[start\](\[abstract\])?(\[line <E\d>\](\[abstract\])?)*\[end\]", text):
                problems.add(f"abstract lines are misplaced: {text!r}")
    if not n:
        return False
    rep.add("R06a", f"{wd.qualname}: every entry rendered and written once", not problems, ctx.where(wd), "; ".join(sorted(problems)[:2]),
            key="R06a|writedir|" + ";".join(sorted(problems))[:80])
    return True



def search_string_evaluation(ctx, rep, rule="R06n"):
    """The search string a client types reaches the handler as typed, whichever protocol carried it: each URL-based protocol's
    handle() is evaluated up to the handler look-up on requests that carry a search string, and `self.searchrequest` is read off.
    (Gemini queries are plain percent-encoding - a `+` is a `+`; HTTP form fields are form-encoded - a `+` is a blank, `%2B` a `+`.)"""
    from ..paths import Const, PathLimit, Walker

    prog = ctx.prog
    typed = ["c++", "a b", "100%", "x+y & z", "q"]
    import urllib.parse as up

    protos = [("protocols.gemini.GeminiProtocol", lambda q: {"self.request": Const("gemini://host.example/s?" + up.quote(q, safe="+&") + "\r\n")}),
              ("protocols.http.HTTPProtocol", lambda q: (lambda t: {"self.requestparts": Const(["GET", t, "HTTP/1.0"]), "self.requestparts[1]": Const(t),
                                                                   "self.requestparts[0]": Const("GET")})("/s?searchrequest=" + up.quote_plus(q)))]
    for qual, mk in protos:
        P = ctx.cls(qual)
        h = prog.resolve_method(P, "handle") if P else None
        if h is None:
            continue
        problems, n = [], 0
        for q in typed:
            facts = mk(q)

            def rp(call, tgt):
                return ["StopAtLookup"] if isinstance(call.func, ast.Attribute) and call.func.attr == "gethandler" else []

            def cv(call, tgt, st):
                if isinstance(call.func, ast.Attribute) and call.func.attr in ("headerslurp", "log"):
                    return Const(None)
                return None

            w = Walker(prog, ctx.resolver, assumptions=facts, sticky=set(facts), raise_points=rp, call_value=cv, exact_loops=True, unroll=4, max_paths=4000,
                       inline=lambda fn, t, d: d < 3 and (t.bound_cls is not None or (fn.cls is None and fn.module.name.startswith("pygopherd")
                                                                                       and fn.module.name not in ("pygopherd.logger", "pygopherd.GopherExceptions"))
                                                          or (fn.cls is not None and P is not None and prog.is_subclass(P, fn.cls))) and fn.name not in (
                           "gethandler", "writedir", "filenotfound", "log", "renderobjinfo", "headerslurp", "write_status", "handlerwrite", "canhandlerequest",
                           "getHandler"))
            got = set()
            try:
                for p in w.run(h, P, facts=dict(facts)):
                    if p.kind == "raise" and str(p.value) == "StopAtLookup":
                        v = p.state.facts.get("self.searchrequest")
                        got.add(v.value if v is not None and v.kind == "const" else "?")
            except PathLimit:
                got = {"?"}
            if not got or "?" in got:
                continue
            n += 1
            if got != {q}:
                problems.append(f"the search string {q!r}, sent as {list(facts.values())[0].value if 'self.request' in facts else facts['self.requestparts[1]'].value!r}, "
                                f"reaches the handler as {sorted(map(str, got))}")
        rep.add(rule, f"{h.qualname}: a search string reaches the handler as typed [{n} of {len(typed)} evaluated]", not problems and n >= 3, ctx.where(h),
                "; ".join(problems[:2]) if problems else ("" if n >= 3 else "the walker could not follow handle() up to the look-up"),
                key=f"{rule}|{qual}", nontrivial=n > 0)



def row_totality_obligations(ctx, rep, rule="R06p"):
    """Every protocol renders every entry of a listing - also one without a type (a link-file block with no Type= line is served as
    type 0 by Gopher): the HTML and WML row renderers are evaluated for the types 0, 1, i, 7 and none; they return a row that
    carries the name, they do not raise."""
    from ..paths import Const, PathLimit, Walker

    prog = ctx.prog
    n_r = 0
    for qual in ("protocols.http.HTTPProtocol", "protocols.wap.WAPProtocol"):
        P = ctx.cls(qual)
        f = prog.resolve_method(P, "getrenderstr") if P else None
        if f is None or len(f.params) < 3:
            continue
        n_r += 1
        problems, n = [], 0
        for typ in ("0", "1", "i", "7", None):
            vals = {"type": typ, "name": "The <name>", "selector": "/s", "mimetype": "text/plain"}
            holder = {}

            def cv(call, target, st, _v=vals):
                fn = call.func
                if isinstance(fn, ast.Attribute) and isinstance(fn.value, ast.Name) and fn.value.id == f.params[1] and fn.attr.startswith("get") and fn.attr[3:] in _v:
                    v = _v[fn.attr[3:]]
                    a = holder["w"].cur_args or []
                    return Const(v) if v is not None or not a else a[0]
                if isinstance(fn, ast.Attribute) and fn.attr == "getimgtag":
                    return Const("<IMG>")
                return None

            facts = {"self.accesskeyidx": Const(0), "self.postfieldidx": Const(0), "self.waptop": Const("/wap")}
            w = Walker(prog, ctx.resolver, call_value=cv, exact_loops=True, unroll=4, max_paths=800, assumptions=dict(facts),
                       inline=lambda fn, t, d: d < 3 and (t.bound_cls is not None or (fn.cls is None and fn.module.name.startswith("pygopherd.protocols")))
                       and fn.name != "getimgtag")
            holder["w"] = w
            outs = set()
            try:
                for p in w.run(f, P, env={f.params[1]: Const("<entry>"), f.params[2]: Const("/s")}, facts=dict(facts)):
                    if p.kind == "raise":
                        outs.add("raises " + str(p.value))
                    elif p.kind == "return" and p.value is not None and p.value.kind == "const" and isinstance(p.value.value, str):
                        outs.add("row" if "The &lt;name&gt;" in p.value.value else "row without the name")
                    else:
                        outs.add("?")
            except (PathLimit, Exception):
                outs = {"?"}
            if len(outs) != 1 or "?" in outs:
                continue
            n += 1
            got = next(iter(outs))
            if got != "row":
                problems.append(f"for an entry of type {typ!r} the row renderer {got}: the listing stops (or loses the entry) in this protocol only")
        rep.add(rule, f"{f.qualname}: a row for every entry, typeless ones included [{n} of 5 evaluated]", not problems and n >= 3, ctx.where(f),
                "; ".join(problems[:2]) if problems else ("" if n >= 3 else "the walker could not follow the renderer"), key=f"{rule}|{qual}", nontrivial=n > 0)
    if not n_r:
        rep.fail(rule, "getrenderstr", detail="row renderers not found")


def check(ctx, rep):
    prog = ctx.prog
    eff = Effects(prog, ctx.resolver)
    rep.rule("R06a", "one directory walk shared by all protocols; every entry rendered and written once, unconditionally", floor=8)
    rep.rule("R06b", "selectors reaching handler selection are slash-normalised; slashnormalize() yields a leading '/'", floor=5)
    rep.rule("R06c", "request text is decoded as UTF-8/surrogateescape everywhere (percent-decoding, query strings, request bodies)", floor=6)
    rep.rule("R06e", "URL-based renderers: relative link exactly when the entry names neither host nor port; otherwise entry.geturl()", floor=1)
    rep.rule("R06f", "unset fields are completed alike by the Gopher menu line and gopher:// URLs (own host/port; other host -> port 70; no type -> 0)", floor=4)
    rep.rule("R06g", "= R04d: every protocol advertises adjust(entry.getmimetype()) for a selector (one MIME type per selector across protocols)", floor=1)
    rep.rule("R06h", "every URL-based protocol renders, for the same local entry, a link target that percent-decodes to the entry's selector (below the protocol's own prefix)", floor=1)
    rep.rule("R06j", "gopher:// URLs for entries on another server are gopher://host:port/<type><selector> (RFC 4266): the URL protocols then point at "
             "the same selector as the Gopher menu line does", floor=1)
    rep.rule("R06i", "= R15g: handlers build the entry list without looking at the protocol that asks", floor=1)
    rep.rule("R06k", "= R14a over the renderers: what a protocol writes for an entry depends on the entry and the request alone - no module- or "
             "class-level memo of rendered text (one request form would decide what the others show)", floor=1)
    from ..effects import Effects as _Eff6
    from .c14 import shared_state_obligations as _sso6
    render_funcs = set()
    for P_ in ctx.protocol_classes():
        for c_ in prog.mro(P_):
            render_funcs.update(m_ for m_ in c_.methods.values() if m_.name.startswith(("render", "writedir", "getrenderstr", "getimgtag", "get")) and m_.name != "gethandler")
    n_before_ = len(rep.obligations)
    _sso6(ctx, rep, "R06k", _Eff6(prog, ctx.resolver), render_funcs, sequential=True)
    if len(rep.obligations) == n_before_:
        rep.ok("R06k", f"no module- or class-level state is written while entries are rendered [{len(render_funcs)} functions]", "pygopherd/protocols", key="R06k|none")
    rep.rule("R06l", "what a program run for a request writes reaches the client byte for byte, over TLS as over a plain connection: no subprocess on the "
             "request path is run in text mode (encoding=, errors=, text=, universal_newlines=), which translates line ends", floor=1)
    n_sub = 0
    for f_ in prog.all_functions():
        if not f_.module.name.startswith("pygopherd.handlers"):
            continue
        for c_ in ast.walk(f_.node):
            if isinstance(c_, ast.Call) and (dotted(c_.func) or "").startswith("subprocess.") and (dotted(c_.func) or "").split(".")[-1] in (
                    "run", "Popen", "check_output", "call", "check_call", "getoutput", "getstatusoutput"):
                n_sub += 1
                textual = [k.arg for k in c_.keywords if k.arg in ("encoding", "errors", "text", "universal_newlines")
                           and not (isinstance(k.value, ast.Constant) and k.value.value in (None, False))]
                if (dotted(c_.func) or "").split(".")[-1] in ("getoutput", "getstatusoutput"):
                    textual.append("getoutput")
                rep.add("R06l", f"{f_.qualname}: {norm(c_)[:60]}", not textual, ctx.where(f_, c_),
                        "" if not textual else f"the program's output is read in text mode ({', '.join(textual)}): CR LF and lone CR become LF, so this connection "
                        "kind serves other bytes than the ones that hand the program the socket itself", key=f"R06l|{f_.qualname}|{norm(c_)[:50]}")
    if not n_sub:
        rep.ok("R06l", "no program is run for a request", "pygopherd/handlers", "", key="R06l|none", nontrivial=False)
    rep.rule("R06m", "a request body (the Spartan search string) is read to its announced length: read(n) on the buffered request file, never a "
             "single-shot read (read1, recv, readinto1, os.read), which returns what happens to have arrived", floor=1)
    n_body = 0
    for f_ in prog.all_functions():
        if not (f_.module.name.startswith("pygopherd.protocols") or f_.module.name == "pygopherd.server"):
            continue
        for c_ in ast.walk(f_.node):
            if isinstance(c_, ast.Call) and isinstance(c_.func, ast.Attribute) and "rfile" in norm(c_.func.value) \
                    and c_.func.attr in ("read", "read1", "readinto", "readinto1", "recv", "peek") and (c_.args or c_.keywords):
                n_body += 1
                ok_ = c_.func.attr == "read"
                rep.add("R06m", f"{f_.qualname}: {norm(c_)[:60]}", ok_, ctx.where(f_, c_),
                        "" if ok_ else f"`{c_.func.attr}()` returns after one read of the socket: a search string that arrives in a later segment than the request "
                        "line, or is longer than the buffer, reaches the handlers cut short - the other protocols deliver it whole",
                        key=f"R06m|{f_.qualname}|{c_.func.attr}")
    if not n_body:
        rep.fail("R06m", "request body reads", detail="no protocol reads a request body")
    rep.rule("R06p", "the HTML and WML row renderers return a row for every entry - types 0, 1, i, 7 and none (evaluated): what Gopher lists, "
             "they list", floor=1)
    row_totality_obligations(ctx, rep, "R06p")
    rep.rule("R06o", "= R02h: request lines are claimed by the protocol whose documented shape they have - a plain Gopher search whose string begins "
             "with `!`, `+` or `$` stays a search (it is not a Gopher+ request)", floor=1)
    from .c02 import classification_obligations
    classification_obligations(ctx, rep, "R06o")
    rep.rule("R06n", "the search string reaches the handler as the client typed it, whichever protocol carried it: Gemini (plain percent-encoding, "
             "`+` literal) and HTTP (form encoding) handle() evaluated on 5 strings up to the handler look-up", floor=2)
    search_string_evaluation(ctx, rep, "R06n")
    rep.rule("R06d", "menu MIME type mapped to the protocol's listing type; adjust function total", floor=4)
    pb = ctx.cls("protocols.base.BaseGopherProtocol")
    if pb is None:
        rep.fail("R06a", "BaseGopherProtocol", detail="protocol base class not found")
        return
    protos = ctx.protocol_classes()

    # ------------------------------------------------------------------ R06a
    for P in protos:
        if P is pb:
            continue
        over = [m for m in SHARED if m in P.methods]
        rep.add("R06a", f"{P.qualname} uses the shared walk", not over, ctx.where(P.module, P.node),
                f"overrides {over}: this protocol would show a different set/order of entries than the others" if over else "",
                key=f"R06a|{P.qualname}|override", nontrivial=False)
    for P in protos:
        h = prog.resolve_method(P, "handle")
        if h is None or not ctx.owns(P, h):
            continue
        problems = []
        for n in ast.walk(h.node):
            if isinstance(n, ast.Call) and isinstance(n.func, ast.Attribute) and n.func.attr == "getdirlist":
                par = None
                for c in ast.walk(h.node):
                    if isinstance(c, ast.Call) and n in c.args:
                        par = c
                if not (par is not None and isinstance(par.func, ast.Attribute) and par.func.attr == "writedir" and dotted(par.func.value) == "self"
                        and len(par.args) == 2 and par.args[1] is n):
                    problems.append("the directory list is consumed outside self.writedir(<entry>, handler.getdirlist())")
            if isinstance(n, (ast.For, ast.comprehension)) and "getdirlist" in norm(n.iter):
                problems.append("handle() iterates the directory list itself")
        rep.add("R06a", f"{h.qualname}: listing only through writedir", not problems, ctx.where(h), "; ".join(sorted(set(problems))),
                key=f"R06a|{h.qualname}|writedir")
    wd = prog.resolve_method(pb, "writedir")
    if wd is None:
        rep.fail("R06a", "writedir", detail="shared directory walk not found")
    elif _writedir_by_evaluation(ctx, rep, pb, wd):
        rep.analysed(wd.qualname)
    else:
        rep.analysed(wd.qualname)
        dirparam = wd.params[2] if len(wd.params) > 2 else "dirlist"
        loops = [n for n in ast.walk(wd.node) if isinstance(n, ast.For) and norm(n.iter) == dirparam]
        problems = []
        if len(loops) != 1:
            problems.append(f"writedir has {len(loops)} loops over the entry list (expected exactly one)")
        for loop in loops:
            var = norm(loop.target)
            w = Walker(prog, ctx.resolver)
            w.frame = (wd, pb)
            w._budget = 100000
            outs = w.exec_block(loop.body, State())
            for kind, val, s in outs:
                if kind not in ("next", "continue"):
                    # `continue` after the entry was rendered and written only skips the optional abstract lines (checked below)
                    problems.append(f"an iteration can end with `{kind}` (an entry would be skipped or the walk cut short)")
                    continue
                rcalls = [e for e in s.events if e.kind == "call" and isinstance(e.node.func, ast.Attribute)
                          and e.node.func.attr == "renderobjinfo" and dotted(e.node.func.value) == "self"
                          and e.node.args and norm(e.node.args[0]) == var]
                if len(rcalls) != 1:
                    problems.append(f"an entry is rendered {len(rcalls)} times by self.renderobjinfo on some path (must be exactly once)")
                    continue
                writes = [e for e in s.events if e.kind == "call" and isinstance(e.node.func, ast.Attribute) and e.node.func.attr == "write"
                          and (dotted(e.node.func.value) or "").endswith("wfile")]
                rendered_written = False
                for wv in writes:
                    a = expand_ast(wv.node.args[0], wd, s.defs) if wv.node.args else None
                    if a is not None and any(x is rcalls[0].node or norm(x) == norm(rcalls[0].node) for x in ast.walk(a)):
                        rendered_written = True
                # ... or handed to a helper of the class that writes that parameter on every path
                for ev in s.events:
                    if rendered_written or ev.kind != "call" or not (isinstance(ev.node.func, ast.Attribute) and dotted(ev.node.func.value) == "self"):
                        continue
                    g = prog.resolve_method(pb, ev.node.func.attr)
                    if g is None or g is wd:
                        continue
                    wp = writer_params(prog, ctx.resolver, g, pb)
                    gparams = g.params[1:]
                    for pname, argn in list(zip(gparams, ev.node.args)) + [(k.arg, k.value) for k in ev.node.keywords if k.arg]:
                        if pname in wp:
                            a = expand_ast(argn, wd, ev.defs or s.defs)
                            if any(x is rcalls[0].node or norm(x) == norm(rcalls[0].node) for x in ast.walk(a)):
                                rendered_written = True
                if not rendered_written:
                    problems.append("the rendered line of an entry is not written on some path")
        rep.add("R06a", f"{wd.qualname}: every entry rendered and written once", not problems, ctx.where(wd), "; ".join(sorted(set(problems))),
                key="R06a|writedir|" + ";".join(sorted(set(problems))))

    # ------------------------------------------------------------------ R06b
    sn = prog.resolve_method(pb, "slashnormalize")
    if sn is None:
        rep.fail("R06b", "slashnormalize", detail="slash normalisation routine not found")
    else:
        # slashnormalize only looks at the length and at the first/last characters of its
        # argument, so evaluating its body on every string over {"/", "a", "."} up to length 4
        # covers every behaviour class (abstract evaluation by the walker, nothing is run)
        import itertools

        param = ([p_ for p_ in sn.params if p_ not in ("self", "cls")] or ["selector"])[0]
        problems = set()
        n_cases = 0
        for n in range(0, 5):
            for tup in itertools.product("/a.", repeat=n):
                arg = "".join(tup)
                n_cases += 1
                w = Walker(prog, ctx.resolver, exact_loops=True,
                           inline=lambda fn, t, d: d < 3 and (t.bound_cls is not None or (fn.cls is None and fn.module.name.startswith("pygopherd"))))
                outs = set()
                for p in w.run(sn, pb, env={param: Const(arg)}):
                    if p.kind == "return" and p.value.kind == "const" and isinstance(p.value.value, str):
                        outs.add(p.value.value)
                    else:
                        outs.add(None)
                if len(outs) != 1 or None in outs:
                    problems.add(f"result for {arg!r} is not determined by the code paths the analysis understands")
                    continue
                res = next(iter(outs))
                if not res.startswith("/"):
                    problems.add(f"slashnormalize({arg!r}) = {res!r} does not start with '/'")
                if res.endswith("/") and res != "/" and "//" not in res:
                    problems.add(f"slashnormalize({arg!r}) = {res!r} keeps a trailing slash the handlers do not expect "
                                 "(children of such a directory selector contain '//', are refused, and the empty listing is cached)")
                if arg and not arg.endswith("/") and arg.startswith("/") and res != arg:
                    problems.add(f"slashnormalize({arg!r}) = {res!r} changes a selector that is already normal")
        rep.extra["slashnormalize_cases"] = n_cases
        rep.add("R06b", f"{sn.qualname}: leading '/', no stray trailing '/' ({n_cases} argument shapes)", not problems, ctx.where(sn),
                "; ".join(sorted(problems)[:3]), key="R06b|slashnormalize|" + ";".join(sorted(p.split("=")[0] for p in problems)[:2]))
    for P in protos:
        for mname in ("__init__", "handle"):
            m = prog.resolve_method(P, mname)
            if m is None or not ctx.owns(P, m):
                continue
            from ..structure import assigns_attr, helper_calls, inline_attr_setters

            if not assigns_attr(m, "self.selector") and not any(assigns_attr(g, "self.selector") for g, _, _, _ in helper_calls(prog, ctx.resolver, m, P)):
                continue
            w = Walker(prog, ctx.resolver, inline=inline_attr_setters(prog, "self.selector"))
            problems = set()
            for p in w.run(m, P):
                last = None
                for e in p.events:
                    if e.kind == "assign" and e.target == "self.selector" and isinstance(e.node, ast.Assign):
                        last = (e.node.value, dict(getattr(e, "defs", None) or {}))
                        last_defs_state = e
                    if e.kind == "call" and e.target.kind == "repo" and any(f.name in ("gethandler",) for f in e.target.funcs) and last is not None:
                        if not _is_normalised(last[0], m, p, last_defs_state, ctx, P):
                            problems.add(f"`self.selector = {norm(last[0])[:40]}` reaches gethandler() without slashnormalize()")
                if p.kind != "raise" and last is not None and mname == "__init__":
                    if not _is_normalised(last[0], m, p, last_defs_state, ctx, P):
                        problems.add(f"the constructor leaves `self.selector = {norm(last[0])[:40]}` un-normalised")
            rep.add("R06b", f"{m.qualname}: selector normalised before handler selection", not problems, ctx.where(m), "; ".join(sorted(problems)),
                    key=f"R06b|{m.qualname}")

    # ------------------------------------------------------------------ R06c
    mods = [m for n, m in prog.modules.items() if n.startswith("pygopherd.protocols") or n == "pygopherd.server"]
    for mod in mods:
        funcs = list(mod.functions.values()) + [f for c in mod.classes.values() for f in c.methods.values()]
        for f in funcs:
            for call, t in eff.calls_of(f, f.cls):
                kw = {k.arg: k.value for k in call.keywords}
                if t.kind == "ext" and t.ext in DECODERS:
                    # unquote(bytes-free string): errors must be surrogateescape, encoding utf-8/default
                    pos_err = {"urllib.parse.unquote": 2, "urllib.parse.unquote_plus": 2, "urllib.parse.parse_qs": 5, "urllib.parse.parse_qsl": 5}[t.ext]
                    err = kw.get("errors") or (call.args[pos_err] if len(call.args) > pos_err else None)
                    enc = kw.get("encoding")
                    ok = isinstance(err, ast.Constant) and err.value == "surrogateescape" and \
                        (enc is None or (isinstance(enc, ast.Constant) and str(enc.value).lower().replace("-", "") == "utf8"))
                    rep.add("R06c", f"{f.qualname}: {norm(call)[:60]}", ok, ctx.where(f, call),
                            "" if ok else "decodes request text with errors other than 'surrogateescape' (default 'replace'): bytes that are not valid "
                            "UTF-8 reach the handler as U+FFFD here but unchanged through the other protocols",
                            key=f"R06c|{f.qualname}|{norm(call.func)}|{norm(call.args[0])[:30] if call.args else ''}")
                elif isinstance(call.func, ast.Attribute) and call.func.attr == "decode":
                    recv = norm(call.func.value)
                    if "rfile" in recv or "readline" in recv or recv in ("data", "line"):
                        src = expand_ast(call.func.value, f)
                        if not any(isinstance(x, ast.Attribute) and x.attr in ("rfile",) or (isinstance(x, ast.Call) and isinstance(x.func, ast.Attribute)
                                                                                            and x.func.attr in ("read", "readline")) for x in ast.walk(src)):
                            continue
                        if "fakefile" in norm(src):
                            continue  # re-reading the handler's own output, not request text
                        err = kw.get("errors") or (call.args[1] if len(call.args) > 1 else None)
                        enc = kw.get("encoding") or (call.args[0] if call.args else None)
                        ok = isinstance(err, ast.Constant) and err.value == "surrogateescape" and \
                            (enc is None or (isinstance(enc, ast.Constant) and str(enc.value).lower().replace("-", "") == "utf8"))
                        rep.add("R06c", f"{f.qualname}: {norm(call)[:60]}", ok, ctx.where(f, call),
                                "" if ok else "request bytes are not decoded as UTF-8 with surrogateescape",
                                key=f"R06c|{f.qualname}|decode|{recv[:30]}")

    # decode after split: structural parsing must see the still-encoded text
    for P in protos:
        h = prog.resolve_method(P, "handle")
        if h is None or not ctx.owns(P, h):
            continue
        problems = []
        n_split = 0
        from ..structure import bind_params, helper_calls

        # handle() and the helpers it hands request text to
        scopes = [(h, {})] + [(g, bind) for g, _, caller, bind in helper_calls(prog, ctx.resolver, h, P, depth=1)
                              if g.name not in ("gethandler", "writedir", "filenotfound", "log", "headerslurp")]
        for hf, bind in scopes:
          for n in ast.walk(hf.node):
            if isinstance(n, ast.Call):
                d = dotted(n.func) or ""
                is_split = d.split(".")[-1] in ("urlparse", "urlsplit", "parse_qs", "parse_qsl") or \
                    (isinstance(n.func, ast.Attribute) and n.func.attr in ("split", "partition") and n.args and isinstance(n.args[0], ast.Constant)
                     and n.args[0].value in ("?", "#", "&", " ", "="))
                if not is_split:
                    continue
                n_split += 1
                src = n.args[0] if d.split(".")[-1] in ("urlparse", "urlsplit", "parse_qs", "parse_qsl") and n.args else (n.func.value if isinstance(n.func, ast.Attribute) else None)
                if src is None:
                    continue
                full = bind_params(expand_ast(src, hf), bind)
                full = expand_ast(full, h) if bind else full
                if any(isinstance(x, ast.Call) and (dotted(x.func) or "").split(".")[-1].startswith("unquote") for x in ast.walk(full)):
                    problems.append(f"`{norm(n)[:50]}` parses text that was already percent-decoded: an encoded '?', '#' or space in a name or query becomes a delimiter "
                                    "(the object/search string differs from what the other protocols see)")
        if n_split:
            rep.add("R06c", f"{h.qualname}: percent-decoding happens after structural splitting", not problems, ctx.where(h), "; ".join(sorted(set(problems))),
                    key=f"R06c|{h.qualname}|order")

    link_target_obligations(ctx, rep, "R06e")
    default_target_obligations(ctx, rep, "R06f")
    from .c04 import advertised_type_obligations

    advertised_type_obligations(ctx, rep, "R06g")
    equivalent_target_obligations(ctx, rep, "R06h")
    from .c15 import protocol_independence_obligations
    protocol_independence_obligations(ctx, rep, "R06i")
    gopher_url_obligations(ctx, rep, "R06j")

    # ------------------------------------------------------------------ R06d
    for P in protos:
        for mname in ("adjustmimetype", "adjust_mimetype"):
            m = prog.resolve_method(P, mname)
            if m is None or (not ctx.owns(P, m) and m.cls is not None and prog.is_subclass(m.cls, pb) and m.cls in protos):
                continue  # inherited from another protocol class: decided there
            param = m.params[1] if len(m.params) > 1 else "mimetype"
            expected = _listing_type(ctx, prog, P)
            problems = set()
            for label, env, want in (("menu", {param: Const("application/gopher-menu")}, expected),
                                     ("none", {param: Const(None)}, "<const>"),
                                     ("other", {param: Const("image/x-unlisted")}, "image/x-unlisted")):
                w = Walker(prog, ctx.resolver, inline=lambda fn, t, d: d < 2 and fn.module.name.startswith("pygopherd.protocols") and len(fn.node.body) <= 8)
                for p in w.run(m, P, env=env):
                    if p.kind != "return" or p.value.kind != "const" or not isinstance(p.value.value, str):
                        problems.add(f"for a {label} type the function does not return a MIME type string ({p.kind} {p.value})")
                        continue
                    got = p.value.value
                    if want == "<const>":
                        continue
                    if want is not None and got != want:
                        problems.add(f"maps {label} type to {got!r}, expected {want!r}")
            rep.add("R06d", f"{P.qualname}.{mname}: menu -> {expected}", not problems, ctx.where(m), "; ".join(sorted(problems)), key=f"R06d|{P.qualname}.{mname}")


def _is_normalised(value, func, path, ev, ctx=None, cls=None) -> bool:
    defs = getattr(ev, "defs", None) or {}
    v = value
    for _ in range(4):
        if isinstance(v, ast.Name) and v.id in defs:
            v = defs[v.id]
        else:
            break
    def is_sn(x):
        return isinstance(x, ast.Call) and isinstance(x.func, ast.Attribute) and x.func.attr == "slashnormalize" and dotted(x.func.value) in ("self", "cls")
    if is_sn(v):
        return True
    if ctx is not None and isinstance(v, ast.Call):
        import copy

        from ..structure import _ReturnInliner

        # a one-return helper of the class stands for the expression it returns
        v = _ReturnInliner(ctx.prog, ctx.resolver, func, cls).visit(copy.deepcopy(v))
    return isinstance(v, ast.Call) and isinstance(v.func, ast.Attribute) and v.func.attr == "slashnormalize" and dotted(v.func.value) == "self"


def _listing_type(ctx, prog, P):
    """Listing MIME type of protocol class P, from what its directory renderer emits."""
    rds = prog.resolve_method(P, "renderdirstart")
    if rds is not None and rds.cls is not ctx.cls("protocols.base.BaseGopherProtocol"):
        text = norm(rds.node)
        mod_src = rds.module.source
        if "wmlheader" in text or "<wml" in text:
            return "text/vnd.wap.wml"
        if "<HTML" in text.upper():
            return "text/html"
    h = prog.resolve_method(P, "handle")
    if h is not None:
        for n in ast.walk(h.node):
            if isinstance(n, ast.If) and "isdir()" in norm(n.test):
                for c in ast.walk(ast.Module(body=n.body, type_ignores=[])):
                    if isinstance(c, ast.Call) and isinstance(c.func, ast.Attribute) and c.func.attr == "write_status" and len(c.args) == 2 \
                            and isinstance(c.args[1], ast.Constant):
                        return c.args[1].value
    return None


# ---------------------------------------------------------------------------- R06e
def link_target_obligations(ctx, rep, rule="R06e"):
    """A menu entry is a link to this server exactly when it names neither a host nor a port: that is what the Gopher
    renderers fill in, so the URL-based renderers must take their relative-link branch (percent-encoded selector) in that
    case and only then; any entry with a host or a port becomes an absolute gopher URL (entry.geturl)."""
    prog = ctx.prog
    pb = ctx.cls("protocols.base.BaseGopherProtocol")
    QUOTES = ("quote", "quote_plus", "quote_from_bytes")
    for P in ctx.protocol_classes():
        ro = prog.resolve_method(P, "renderobjinfo")
        if ro is None or not ctx.owns(P, ro):
            continue
        if not any(isinstance(n, ast.Call) and (dotted(n.func) or "").split(".")[-1] in QUOTES for n in ast.walk(ro.node)) and \
                not any(isinstance(n, ast.Call) and isinstance(n.func, ast.Attribute) and n.func.attr == "geturl" for n in ast.walk(ro.node)):
            from ..structure import helper_calls

            hs = [g for g, _, _, _ in helper_calls(prog, ctx.resolver, ro, P, depth=2)]
            if not any(isinstance(n, ast.Call) and (dotted(n.func) or "").split(".")[-1] in QUOTES for g in hs for n in ast.walk(g.node)):
                continue
        # decided by evaluating the renderer on entries with and without host / port, when the walker can follow it
        from .c05 import rendered_targets

        ev_problems, decided = [], 0
        # (the last one names this server under its own name but another port: another server on the same machine)
        for host, port in ((None, None), ("gopher.example.org", None), (None, 7070), ("gopher.example.org", 7070), ("this.example", 7070)):
            for et in ("0", "1"):
                rt = rendered_targets(ctx, P, "/dir/a b", et, host=host, port=port)
                if rt is None:
                    continue
                decided += 1
                what = f"host={host!r}, port={port!r}"
                for t_ in rt:
                    t0 = t_[len("/WAPTOP"):] if t_.startswith("/WAPTOP") else t_
                    if host is None and port is None:
                        if t0.startswith("gopher://") or "%20" not in t0:
                            ev_problems.append(f"an entry without host and port ({what}) is not rendered as a relative, percent-encoded link to this server ({t_!r})")
                    elif not t_.startswith(f"gopher://{host or 'this.example'}:{port or 70}/"):
                        ev_problems.append(f"an entry with {what} is rendered as {t_!r}: the other protocols point the same entry at that host and port")
                if not rt:
                    ev_problems.append(f"an entry with {what} is rendered without a link")
        if decided == 10:
            rep.add(rule, f"{ro.qualname}: relative link exactly for entries without host and port", not ev_problems, ctx.where(ro),
                    "; ".join(sorted(set(ev_problems))[:3]), key=f"{rule}|{ro.qualname}")
            continue
        problems = set()
        n_paths = 0
        for host, port in ((None, None), ("gopher.example.org", None), (None, 7070), ("gopher.example.org", 7070)):
            def cv(call, target, st, _h=host, _p=port):
                if isinstance(call.func, ast.Attribute) and not call.args:
                    if call.func.attr == "gethost":
                        return Const(_h)
                    if call.func.attr == "getport":
                        return Const(_p)
                if (dotted(call.func) or "") in ("re.match", "re.search", "re.fullmatch") and call.args \
                        and isinstance(call.args[0], ast.Constant) and "URL:" in str(call.args[0].value):
                    return Const(None)
                return None

            w = Walker(prog, ctx.resolver, call_value=cv, merge_loops=True,
                       inline=lambda fn, t, d: d < 3 and t.bound_cls is not None and fn.name not in ("getrenderstr", "getimgtag", "renderabstract"))
            for p in w.run(ro, P):
                if p.kind == "raise":
                    continue
                n_paths += 1
                quoted = any(e.kind == "call" and (dotted(e.node.func) or "").split(".")[-1] in QUOTES for e in p.events)
                absolute = any(e.kind == "call" and isinstance(e.node.func, ast.Attribute) and e.node.func.attr == "geturl" for e in p.events)
                what = f"host={host!r}, port={port!r}"
                if host is None and port is None:
                    if absolute or not quoted:
                        problems.add(f"an entry without host and port ({what}) is not rendered as a relative link to this server")
                else:
                    if quoted and not absolute:
                        problems.add(f"an entry with {what} is rendered as a relative link to this server: the other protocols point "
                                     "the same entry at that host and port")
                    elif not absolute:
                        problems.add(f"an entry with {what} is not rendered through entry.geturl()")
        if not n_paths:
            problems.add("no path through the link renderer")
        rep.add(rule, f"{ro.qualname}: relative link exactly for entries without host and port", not problems, ctx.where(ro),
                "; ".join(sorted(problems)[:3]), key=f"{rule}|{ro.qualname}")


def gopher_url_obligations(ctx, rep, rule="R06j"):
    """GopherEntry.geturl() evaluated on representative entries: the path of the URL is the type character followed by the
    selector exactly as the menu line carries it (percent-encoded), a URL: selector is handed out as that URL."""
    import urllib.parse as up

    prog = ctx.prog
    ge = ctx.cls("gopherentry.GopherEntry")
    gu = prog.resolve_method(ge, "geturl") if ge else None
    if gu is None:
        rep.fail(rule, "GopherEntry.geturl", detail="URL builder not found")
        return
    cases = [("/fun/xkcd", "1", "other.example", 7070), ("fun/xkcd", "1", "other.example", 70), ("", "1", "other.example", 70),
             ("/a b?c", "0", "other.example", None), ("/x", None, None, None), ("URL:http://example.org/a", "h", None, None),
             ("/URL:http://example.org/a", "h", None, None)]
    problems = []
    n = 0
    for sel, typ, host, port in cases:
        facts = {"self.selector": Const(sel), "self.type": Const(typ), "self.host": Const(host), "self.port": Const(port)}
        w = Walker(prog, ctx.resolver, assumptions=facts, sticky=set(facts), exact_loops=True, unroll=4,
                   inline=lambda fn, t, d: d < 3 and t.bound_cls is not None)
        outs = set()
        try:
            for p in w.run(gu, ge, env={gu.params[1]: Const("this.example"), gu.params[2]: Const(70)} if len(gu.params) > 2 else {}):
                outs.add(p.value.value if p.kind == "return" and p.value is not None and p.value.kind == "const" else None)
        except Exception:
            outs = {None}
        if len(outs) != 1 or None in outs:
            continue
        n += 1
        got = next(iter(outs))
        if "URL:" in sel:
            want = sel.split("URL:", 1)[1]
        else:
            want = "gopher://%s:%s/" % (host or "this.example", port or 70) + up.quote((typ or "0") + sel, errors="surrogateescape")
        if got != want:
            problems.append(f"an entry (selector {sel!r}, type {typ!r}, host {host!r}, port {port!r}) gets the URL {got!r} instead of {want!r}: the URL-based "
                            "protocols then link to a different selector than the Gopher menu line")
    if n:
        rep.add(rule, f"{gu.qualname}: gopher://host:port/<type><selector> [{n} entries]", not problems, ctx.where(gu), "; ".join(problems[:2]), key=f"{rule}|geturl")
    else:
        rep.ok(rule, f"{gu.qualname}: not evaluated", ctx.where(gu), "the walker could not follow geturl()", nontrivial=False)


# ---------------------------------------------------------------------------- R06h
def equivalent_target_obligations(ctx, rep, rule="R06h"):
    """renderobjinfo() of each URL-based protocol evaluated on representative local entries: whatever markup surrounds it,
    the link target is one percent-encoding layer over the selector (so every protocol's link leads to the same object)."""
    import urllib.parse as up

    from .c05 import rendered_targets

    prog = ctx.prog
    names = ["/docs/a b.txt", "/notes;2.txt", "/a?b", "/a#b", "/caf\udce9.txt", "/x&y=z,w+v$", "/100%", "/find it"]
    for qual in ("protocols.http.HTTPProtocol", "protocols.wap.WAPProtocol", "protocols.gemini.GeminiProtocol", "protocols.spartan.SpartanProtocol"):
        P = ctx.cls(qual)
        if P is None:
            continue
        problems = []
        n = 0
        for nme in names:
            for et in ("0", "1", "7", "9"):
                rt = rendered_targets(ctx, P, nme, et)
                if rt is None:
                    continue
                n += 1
                if not rt:
                    problems.append(f"a type-{et} entry {nme!r} is rendered without a link")
                for t_ in rt:
                    prefixes = [""]
                    if qual.endswith("WAPProtocol"):
                        prefixes = ["/WAPTOP"]
                    pfx = prog.class_attr(P, "query_prefix")
                    if et == "7" and isinstance(pfx, ast.Constant) and isinstance(pfx.value, str):
                        prefixes = [pfx.value]
                    ok = any(t_.startswith(px) and up.unquote(t_[len(px):], errors="surrogateescape") == nme and not set(t_[len(px):]) & set(" ?#\"<>")
                             for px in prefixes)
                    if not ok:
                        problems.append(f"the type-{et} entry {nme!r} is linked as {t_!r}, which does not percent-decode to its selector "
                                        "(the other protocols' links for the same entry lead to a different object)")
        # entries that name a URL (selector URL:...): the link is that URL, once the markup's own quoting is undone
        for url in ("http://ex.example/find?q=a&lt=25&copy=1", "https://ex.example/a'b/<c>"):
            for et in ("h", "1"):
                rt = rendered_targets(ctx, P, "URL:" + url, et)
                if rt is None:
                    continue
                n += 1
                if not rt:
                    problems.append(f"a link to {url!r} is rendered without a target")
                for t_ in rt:
                    if t_ != url:
                        problems.append(f"the link to {url!r} is rendered so that a reader of the markup follows {t_!r}")
        ro = prog.resolve_method(P, "renderobjinfo")
        if n:
            rep.add(rule, f"{qual.split('.')[-1]}: link targets decode to the entry's selector [{n} entries]", not problems, ctx.where(ro) if ro else "",
                    "; ".join(problems[:2]), key=f"{rule}|{qual}")


# ---------------------------------------------------------------------------- R06f
def default_target_obligations(ctx, rep, rule="R06f"):
    """Entries that leave a field unset are completed the same way by the Gopher menu line and by gopher:// URLs:
    no host -> this server and its port; a host without a port -> port 70; no type -> '0'."""
    prog = ctx.prog
    plain = ctx.cls("protocols.rfc1436.GopherProtocol")
    ge = ctx.cls("gopherentry.GopherEntry")
    ro = prog.resolve_method(plain, "renderobjinfo") if plain else None
    gu = prog.resolve_method(ge, "geturl") if ge else None
    if ro is None or gu is None:
        rep.fail(rule, "GopherProtocol.renderobjinfo / GopherEntry.geturl", detail="menu-line or URL renderer not found")
        return
    # menu line: the port default per host scenario
    for host, want in ((None, "own"), ("other.example", 70)):
        def cv(call, target, st, _h=host):
            if isinstance(call.func, ast.Attribute) and call.func.attr == "gethost":
                if _h is not None:
                    return Const(_h)
                if not call.args and not call.keywords:
                    return Const(None)
            return None
        own_marker = {"self.server.server_port": Const("<own port>")}
        w = Walker(prog, ctx.resolver, call_value=cv, assumptions=own_marker, sticky=set(own_marker),
                   inline=lambda fn, t, d: d < 2 and t.bound_cls is not None and fn.cls is not None and fn.cls.module is ro.module)
        seen = set()
        for p in w.run(ro, plain):
            for e in p.events:
                if e.kind == "call" and isinstance(e.node.func, ast.Attribute) and e.node.func.attr == "getport":
                    kws = (e.extra or {}).get("kws") or {}
                    args = (e.extra or {}).get("args") or []
                    d = kws.get("default") or (args[0] if args else None)
                    dn = next((k.value for k in e.node.keywords if k.arg == "default"), e.node.args[0] if e.node.args else None)
                    from ..structure import resolve_value

                    fn_ = e.frame[0] if e.frame and e.frame[0] is not None else ro
                    dtext = norm(resolve_value(dn, fn_, plain, e.defs or None, prog, ctx.resolver)) if dn is not None else ""
                    if d is not None and d.kind == "const":
                        seen.add("own" if d.value == "<own port>" else d.value)
                    elif "server_port" in dtext and "70" not in dtext:
                        seen.add("own")
                    elif "server_port" in dtext:
                        seen.add("own" if host is None else "?")
                    else:
                        seen.add("?")
        ok = seen == {want}
        rep.add(rule, f"{ro.qualname}: missing port of an entry {'on this server' if host is None else 'naming another host'} -> {want}", ok, ctx.where(ro),
                "" if ok else (f"the menu line fills a missing port with {sorted(map(str, seen))}; the URL-based renderers use "
                               f"{'this server' if host is None else 'gopher://host:70/'} for the same entry"), key=f"{rule}|port|{host}")
    # URL: default port argument of geturl callers is 70, type default equals the menu line's
    tdefs = set()
    for n in ast.walk(ro.node):
        if isinstance(n, ast.Call) and isinstance(n.func, ast.Attribute) and n.func.attr == "gettype":
            a = n.args[0] if n.args else next((k.value for k in n.keywords if k.arg == "default"), None)
            tdefs.add(a.value if isinstance(a, ast.Constant) else None)
    udefs = set()
    for n in ast.walk(gu.node):
        if isinstance(n, ast.Call) and isinstance(n.func, ast.Attribute) and n.func.attr == "gettype":
            a = n.args[0] if n.args else next((k.value for k in n.keywords if k.arg == "default"), None)
            udefs.add(a.value if isinstance(a, ast.Constant) else None)
    ok = bool(tdefs) and tdefs == udefs and None not in tdefs
    rep.add(rule, f"default type: menu line {sorted(map(str, tdefs))} = URL {sorted(map(str, udefs))}", ok, ctx.where(gu),
            "" if ok else "an entry without a type is rendered with a different type character in gopher:// URLs than in the Gopher menu line "
            "(None is formatted as the text 'None')", key=f"{rule}|type")
    calls = []
    from ..structure import helper_calls

    for P in ctx.protocol_classes():
        rr = P.methods.get("renderobjinfo")
        if rr is None:
            continue
        # the link renderers (and helpers they delegate to): geturl() is reached there only for entries with a host or port
        for m in [rr] + [g for g, _, _, _ in helper_calls(prog, ctx.resolver, rr, P, depth=2)]:
            for n in ast.walk(m.node):
                if isinstance(n, ast.Call) and isinstance(n.func, ast.Attribute) and n.func.attr == "geturl" and (m, n) not in calls:
                    calls.append((m, n))
    bad = [(m, n) for m, n in calls if not (len(n.args) >= 2 and isinstance(n.args[1], ast.Constant) and n.args[1].value == 70)
           and not any(k.arg == "defaultport" and isinstance(k.value, ast.Constant) and k.value.value == 70 for k in n.keywords)
           and not (len(n.args) < 2 and not any(k.arg == "defaultport" for k in n.keywords))]
    rep.add(rule, f"{len(calls)} gopher:// URLs default to port 70", bool(calls) and not bad, ctx.where(bad[0][0], bad[0][1]) if bad else ctx.where(gu),
            f"`{norm(bad[0][1])[:60]}` uses another default port than the Gopher menu line (70)" if bad else "", key=f"{rule}|urlport")
