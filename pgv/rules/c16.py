"""C16  ZIP archives are transparent (structural clauses).

R16a  VFS interface completeness: every VFS_Real method with a file-system effect is
      overridden in every VFS subclass, and the overrides (and the member index
      builder) have no file-system effect of their own: members are looked up in
      the in-memory index only
R16b  handlers that hand getfspath() to a real-file API (mailbox, SourceFileLoader,
      subprocess, zipfile on a path, shelve) refuse non-real VFS objects
R16c  symlink members are resolved against the index only (no readlink/realpath)
R16d  the inner handler chain is the ordinary multiplexer run on the archive VFS
Equivalence of listings/bytes with the extracted tree is not decided.
"""

from __future__ import annotations

import ast

from ..effects import Effects
from ..loader import dotted, norm
from ..paths import Const, Ref, Walker, truth
from ..shape import ShapeDomain, ShapeEngine

ENTRY_METHODS = ["canhandlerequest", "gethandler", "getentry", "prepare", "isdir", "write", "getdirlist",
                 "getselector", "getfspath"]
IFACE = ["stat", "isdir", "isfile", "exists", "open", "listdir", "unlink", "iswritable", "getfspath"]


def real_fs_sites(ctx, eff, C):
    """Direct real-file-system/exec call sites (path rooted at the document root)
    reached from the entry methods of handler class C."""
    base = ctx.cls("handlers.base.BaseHandler")
    dom = ShapeDomain(ctx.prog, eff, base)
    eng = ShapeEngine(ctx.prog, ctx.resolver, dom)
    ge = ctx.cls("gopherentry.GopherEntry")
    if ge is not None:
        eng.field_classes = [ge]
    for mname in ENTRY_METHODS:
        m = ctx.prog.resolve_method(C, mname)
        if m is not None:
            eng.eval_func(m, C, {})
    out = []
    for (fq, ctext), rec in sorted(dom.sites.items()):
        if rec["mode"] != "fs":
            continue
        if any(alt and alt[0] == ("root",) for alt in rec["values"]):
            out.append(rec)
    return out


class _VfsObject:
    """Stands for `the VFS object of this request` in evaluations (not a builtin value, so nothing folds it)."""

    def __init__(self, name):
        self.name = name

    def __repr__(self):
        return f"<a {self.name} object>"


def vfs_gate_obligations(ctx, rep, rule, eff=None):
    prog = ctx.prog
    eff = eff or Effects(prog, ctx.resolver)
    vfs = ctx.cls("handlers.base.VFS_Real")
    if vfs is None:
        rep.fail(rule, "VFS_Real", detail="VFS layer not found")
        return
    n = 0
    for C in ctx.handler_classes():
        can = prog.resolve_method(C, "canhandlerequest")
        if can is None:
            continue
        sites = real_fs_sites(ctx, eff, C)
        # only sites in methods this class resolves itself (not those reached through other handlers' code)
        sites = [s for s in sites if s["func"].cls is not None and prog.is_subclass(C, s["func"].cls)]
        if not sites:
            continue
        n += 1
        bad = []
        tested = False
        archive_vfs = prog.subclasses(vfs, strict=True)
        for S in archive_vfs:
            assumptions = {"type(self.vfs)": Ref(S), "self.vfs.__class__": Ref(S)}
            for c in prog.mro(C):
                for m in c.methods.values():
                    for node in ast.walk(m.node):
                        if isinstance(node, ast.Call) and dotted(node.func) == "isinstance" and len(node.args) == 2 \
                                and norm(node.args[0]) == "self.vfs":
                            ks = node.args[1].elts if isinstance(node.args[1], ast.Tuple) else [node.args[1]]
                            val = False
                            known = True
                            for k in ks:
                                res = prog.resolve_dotted(m.module, dotted(k) or "")
                                if res and res[0] == "class":
                                    val = val or prog.is_subclass(S, res[1])
                                else:
                                    known = False
                            if known:
                                assumptions[norm(node)] = Const(val)
                                tested = True
                        if isinstance(node, ast.Call) and norm(node) == "type(self.vfs)":
                            tested = True
            # the VFS object itself is known too: helpers that are handed self.vfs and test its kind are followed
            marker = _VfsObject(S.name)
            assumptions["self.vfs"] = Const(marker)
            holder = {}

            def cv(call, target, st, _S=S, _marker=marker):
                a = holder["w"].cur_args or []
                d_ = dotted(call.func) or ""
                if d_ == "type" and len(a) == 1 and a[0].kind == "const" and a[0].value is _marker:
                    holder["tested"] = True
                    return Ref(_S)
                if d_ == "isinstance" and len(a) == 2 and a[0].kind == "const" and a[0].value is _marker:
                    ks = a[1].value if a[1].kind == "const" and isinstance(a[1].value, tuple) else [a[1].value] if a[1].kind == "ref" else None
                    if a[1].kind == "ref":
                        ks = [a[1].value]
                    if ks and all(hasattr(k, "methods") for k in ks):
                        holder["tested"] = True
                        return Const(any(prog.is_subclass(_S, k) for k in ks))
                return None

            w = Walker(prog, ctx.resolver, assumptions=assumptions, sticky={"self.vfs"}, call_value=cv,
                       inline=lambda fn, t, d: t.bound_cls is not None or (fn.cls is not None and t.kind == "repo"
                                                                           and not t.by_name and len(t.funcs) == 1
                                                                           and fn.name == "canhandlerequest")
                       or (d < 3 and fn.cls is None and fn.module.name.startswith("pygopherd.handlers") and len(fn.node.body) <= 6))
            holder["w"] = w
            try:
                for p in w.run(can, C):
                    if p.kind == "return" and truth(p.value) is not False:
                        bad.append(S)
                        break
            except Exception:  # path limit: cannot show the refusal
                bad.append(S)
            tested = tested or bool(holder.get("tested"))
        atom_texts = tested
        what = sorted({f"{s['what']}({norm(s['call'].args[0])[:40] if s['call'].args else ''}) in {s['func'].qualname}" for s in sites})
        rep.add(rule, f"{C.qualname} refuses non-real VFS", not bad, ctx.where(can),
                (f"uses the real file system ({'; '.join(what[:3])}) but canhandlerequest can accept when the VFS is not the real one"
                 + f" {bad[0].qualname}"
                 + ("" if atom_texts else " (no test of the VFS kind at all)")
                 + "; note that isinstance(self.vfs, VFS_Real) is true for every VFS subclass") if bad
                else f"needs real files: {'; '.join(what[:2])}; refuses {[S.name for S in archive_vfs]}",
                key=f"{rule}|{C.qualname}")
    if n == 0:
        rep.fail(rule, "real-file handlers", detail="no handler using real-file APIs was found (mbox/pyg/scriptexec anchors vanished)")


def stat_mode_obligations(ctx, rep, rule="R16h"):
    """Handlers pick members by S_ISREG / S_ISDIR of the stat result, as they do for files on disk.  Whatever the archive
    stores as external attributes (often permission bits only, or nothing), stat() has to report a regular-file mode for a
    member and a directory mode for a directory."""
    import stat as _stat

    from ..structure import resolve_value

    prog = ctx.prog
    for V in ctx.archive_vfs_classes() if hasattr(ctx, "archive_vfs_classes") else [ctx.cls("handlers.ZIP.VFSZip")]:
        if V is None:
            continue
        st = prog.resolve_method(V, "stat")
        if st is None or st.cls is not V and st.cls.name == "VFS_Real":
            continue

        def fold(e, _d=0):
            if isinstance(e, ast.Constant) and isinstance(e.value, int) and not isinstance(e.value, bool):
                return e.value
            if isinstance(e, ast.Attribute) and dotted(e) and dotted(e).startswith("stat.S_I") and hasattr(_stat, e.attr):
                return getattr(_stat, e.attr)
            if isinstance(e, ast.BinOp) and isinstance(e.op, (ast.BitOr, ast.Add)):
                a, b = fold(e.left, _d), fold(e.right, _d)
                return None if a is None or b is None else (a | b if isinstance(e.op, ast.BitOr) else a + b)
            if isinstance(e, ast.Name) and _d < 3:
                from ..paths import _is_global_written
                vals = st.module.globals.get(e.id) or []
                if len(vals) == 1 and not _is_global_written(prog, st.module, e.id):
                    return fold(vals[0], _d + 1)
            if isinstance(e, ast.Attribute) and isinstance(e.value, ast.Name) and e.value.id in ("self", "cls", V.name) and _d < 3:
                a = prog.class_attr(V, e.attr)
                if a is not None:
                    return fold(a, _d + 1)
            return None

        modes = []
        problems = []

        def returns_of(fn, depth=0, binds=None):
            for n in ast.walk(fn.node):
                if not isinstance(n, ast.Return) or n.value is None:
                    continue
                v = n.value
                if not isinstance(v, ast.Tuple):
                    try:
                        v = resolve_value(v, fn, V, None, prog, ctx.resolver)
                    except Exception:
                        pass
                if isinstance(v, ast.Name) and v.id in fn.module.globals and len(fn.module.globals[v.id]) == 1:
                    v = fn.module.globals[v.id][0]
                if isinstance(v, ast.Attribute) and isinstance(v.value, ast.Name) and v.value.id in ("self", "cls", V.name):
                    ca = prog.class_attr(V, v.attr)
                    if ca is not None:
                        v = ca
                if isinstance(v, ast.Tuple) and v.elts:
                    yield fn, n, v.elts[0]
                elif isinstance(v, ast.Call) and depth < 2:
                    # a helper that builds the tuple: its first argument / its own returns
                    callee = None
                    if isinstance(v.func, ast.Attribute) and dotted(v.func.value) == "self":
                        callee = prog.resolve_method(V, v.func.attr)
                    elif isinstance(v.func, ast.Name):
                        callee = fn.module.functions.get(v.func.id) if hasattr(fn.module, "functions") else None
                    dn = dotted(v.func) or ""
                    if callee is None and dn.split(".")[-1] in ("stat_result", "tuple") and v.args:
                        a0 = v.args[0]
                        if isinstance(a0, (ast.Tuple, ast.List)) and a0.elts:
                            yield fn, n, a0.elts[0]
                            continue
                    if callee is not None:
                        params = [p for p in callee.params if p != "self"]
                        amap = dict(zip(params, v.args))
                        amap.update({k.arg: k.value for k in v.keywords if k.arg})
                        for f2, n2, e2 in returns_of(callee, depth + 1):
                            if isinstance(e2, ast.Name) and e2.id in amap:
                                yield fn, n, amap[e2.id]
                            else:
                                yield f2, n2, e2
                    else:
                        yield fn, n, None
                else:
                    yield fn, n, None

        for fn, n, e in returns_of(st):
            m = fold(e) if e is not None else None
            if m is None:
                problems.append(f"line {n.lineno}: the mode `{norm(e)[:40] if e is not None else norm(n.value)[:40]}` is not a constant")
            else:
                modes.append(m)
                if not (_stat.S_ISREG(m) or _stat.S_ISDIR(m)):
                    problems.append(f"line {n.lineno}: mode {oct(m)} is neither a regular file nor a directory")
        if not problems and not (any(_stat.S_ISREG(m) for m in modes) and any(_stat.S_ISDIR(m) for m in modes)):
            problems.append(f"stat() reports only {sorted(map(oct, set(modes)))}: members and directories are not told apart")
        rep.add(rule, f"{st.qualname}: members are regular files, directories are directories", not problems, ctx.where(st),
                "; ".join(problems[:2]) + (": handlers test S_ISREG/S_ISDIR of this mode, so a member whose stored attributes lack the type bits "
                                           "gets no handler and disappears from listings" if problems else ""), key=f"{rule}|{st.qualname}")



def member_path_obligations(ctx, rep, rule):
    """The member a selector names is what follows the archive's own selector - once, at the front: VFSZip.getfspath() is
    evaluated on selectors in which the archive's name recurs deeper in the path."""
    from ..paths import Const, Walker

    prog = ctx.prog
    vz = ctx.cls("handlers.ZIP.VFSZip")
    f = prog.resolve_method(vz, "getfspath") if vz else None
    if f is None or len(f.params) < 2:
        rep.fail(rule, "VFSZip.getfspath", detail="member path routine not found")
        return
    Z = "/docs/notes.zip"
    cases = [(Z, ""), (Z + "/", ""), (Z + "/a.txt", "a.txt"), (Z + "/old/notes.zip", "old/notes.zip"), (Z + "/old/notes.zip.bak", "old/notes.zip.bak"),
             (Z + "/docs/notes.zip/x", "docs/notes.zip/x"), (Z + "/dir/", "dir"), (Z + "/a b/c", "a b/c")]
    problems, n = [], 0
    for sel, want in cases:
        facts = {"self.zipfilename": Const(Z)}
        w = Walker(prog, ctx.resolver, exact_loops=True, unroll=4, max_paths=500, assumptions=dict(facts), sticky=set(facts),
                   inline=lambda fn, t, d: d < 3 and (t.bound_cls is not None or fn.module is f.module))
        outs = set()
        try:
            for p in w.run(f, vz, env={f.params[1]: Const(sel)}, facts=dict(facts)):
                outs.add(p.value.value if p.kind == "return" and p.value is not None and p.value.kind == "const" else ("?" if p.kind != "raise" else "<" + str(p.value) + ">"))
        except Exception:
            outs = {"?"}
        if len(outs) != 1 or "?" in outs:
            continue
        n += 1
        got = next(iter(outs))
        if got != want:
            problems.append(f"in the archive {Z!r} the selector {sel!r} names the member {want!r}; getfspath() gives {got!r}")
    rep.add(rule, f"{f.qualname}: member path = what follows the archive's selector [{n} of {len(cases)} evaluated]", not problems and n >= len(cases) // 2,
            ctx.where(f), "; ".join(problems[:2]) if problems else ("" if n >= len(cases) // 2 else "the walker could not follow the routine"),
            key=f"{rule}|getfspath", nontrivial=n > 0)



def member_date_obligations(ctx, rep, rule):
    """The date and time fields of an archive member are content: tools write 1980-00-00 or an hour of 24.  time.mktime() normalises
    such fields; the datetime / date / time constructors validate them and raise ValueError - which handler selection takes for 'no
    such object'.  A validating constructor fed from `date_time` needs a ValueError guard."""
    prog = ctx.prog
    mod = prog.modules.get("pygopherd.handlers.ZIP")
    if mod is None:
        rep.fail(rule, "pygopherd.handlers.ZIP", detail="archive module not found")
        return
    from ..structure import catches, enclosing_tries

    n, found = 0, []
    funcs = list(mod.functions.values()) + [m for c in mod.classes.values() for m in c.methods.values()]
    for f in funcs:
        dt_names = {"date_time"}
        for a in ast.walk(f.node):  # locals fed from date_time
            if isinstance(a, ast.Assign) and any("date_time" in norm(x) for x in ast.walk(a.value) if isinstance(x, (ast.Attribute, ast.Name))):
                dt_names |= {t.id for t in a.targets if isinstance(t, ast.Name)}
        for c in ast.walk(f.node):
            if not isinstance(c, ast.Call):
                continue
            d = dotted(c.func) or ""
            uses = any((isinstance(x, ast.Attribute) and x.attr == "date_time") or (isinstance(x, ast.Name) and x.id in dt_names and x.id != "date_time")
                       for a in list(c.args) + [k.value for k in c.keywords] for x in ast.walk(a))
            if not uses:
                continue
            n += 1
            if d.split(".")[-1] in ("datetime", "date", "time") and d.split(".")[0] in ("datetime", "date", "time", "dt") and d != "time.time":
                guarded = any(catches(h, "ValueError") for tr in enclosing_tries(f.node, c) for h in tr.handlers)
                if not guarded:
                    found.append((f, c))
    for f, c in found:
        rep.add(rule, f"{f.qualname}: {norm(c)[:60]}", False, ctx.where(f, c),
                "a validating date constructor is fed the member's stored date fields without a ValueError guard: a member dated 1980-00-00 (or 24:00) "
                "makes stat() raise, handler selection reads that as 'does not exist', and the member drops out of listings the extracted tree would show",
                key=f"{rule}|{f.qualname}")
    if not found:
        rep.ok(rule, f"stored member dates are converted by normalising calls only [{n} uses of date_time]", mod.relpath, "", key=f"{rule}|none")


def check(ctx, rep):
    prog = ctx.prog
    eff = Effects(prog, ctx.resolver)
    rep.rule("R16a", "VFS interface: every effectful VFS_Real method is overridden in each VFS subclass; overrides and the index builder are file-system free", floor=7)
    rep.rule("R16b", "real-file-only handlers reject non-real VFS objects", floor=3)
    rep.rule("R16c", "archive symlinks resolved in the in-memory index only", floor=1)
    rep.rule("R16e", "a link member whose target climbs above the archive root dangles (it is never resolved to a member)", floor=4)
    rep.rule("R16f", "archive member names are the stored bytes decoded as UTF-8/surrogateescape (cp437 round trip only without the UTF-8 flag)", floor=4)
    rep.rule("R16g", "archive index lookup evaluated on a representative index: members found, non-members refused, whatever lookups failed before", floor=1)
    rep.rule("R16h", "the archive VFS reports every member as a regular file and every directory as a directory: the file-type bits of stat() are constants, not archive metadata", floor=1)
    rep.rule("R16i", "the index builder makes a directory level only where that name is not in its parent yet: an explicit directory member listed "
             "after its children (or twice) does not replace the level that holds them", floor=1)
    rep.rule("R16k", "every description of an item from the file system is given the VFS the handler works on (no fall-back to the real file system)", floor=3)
    rep.rule("R16l", "member data and metadata are read under the name the index gives, never under the request path (links are resolved and names "
             "transcoded in the index)", floor=2)
    rep.rule("R16o", "the stored date fields of a member (content: 1980-00-00 occurs) are converted by calls that normalise (time.mktime), or a "
             "validating constructor is guarded for ValueError", floor=1)
    member_date_obligations(ctx, rep, "R16o")
    rep.rule("R16n", "the member path of a selector is what follows the archive's own selector, taken off once at the front (evaluated on "
             "selectors in which the archive's name recurs)", floor=1)
    member_path_obligations(ctx, rep, "R16n")
    rep.rule("R16m", "= R14a for the archive view: VFSZip and the ZIP handler keep nothing between requests in module- or class-level tables "
             "(look-up results are valid only for the index they were taken from; the index cache file carries its own validity test)", floor=1)
    from ..effects import Effects as _Eff16
    from .c14 import shared_state_obligations as _sso16
    zmod_ = prog.modules.get("pygopherd.handlers.ZIP")
    zf_ = {m_ for c_ in (zmod_.classes.values() if zmod_ else []) for m_ in c_.methods.values()} | set(zmod_.functions.values() if zmod_ else [])
    n0_ = len(rep.obligations)
    _sso16(ctx, rep, "R16m", _Eff16(prog, ctx.resolver), zf_, sequential=True)
    if len(rep.obligations) == n0_:
        rep.ok("R16m", f"no module- or class-level state is written by the archive view [{len(zf_)} functions]", "pygopherd/handlers/ZIP.py", key="R16m|none")
    rep.rule("R16j", "entry, listing and document of an archive request are the inner handler's, on every path of the ZIP handler's methods", floor=4)
    rep.rule("R16d", "inner handler = HandlerMultiplexer.getHandler(..., vfs=<archive VFS>) on the same selector", floor=1)
    rep.assume("zipfile.ZipFile methods act on the already opened archive only")
    vfs = ctx.cls("handlers.base.VFS_Real")
    if vfs is None:
        rep.fail("R16a", "VFS_Real", detail="VFS layer not found")
        return
    subs = prog.subclasses(vfs, strict=True)
    if not subs:
        rep.fail("R16a", "VFS subclasses", detail="no archive VFS class found")
    effectful = [m for m in vfs.methods.values() if any(s.effect.startswith("FS_") for s in eff.sites(m, vfs))]
    for S in subs:
        for m in effectful:
            if m.name == "copyto":
                # copyto is implemented on top of self.open(): inherited is fine if open is overridden
                own = prog.resolve_method(S, "open")
                rep.add("R16a", f"{S.qualname}.copyto (via open)", own is not None and own.cls is not vfs, ctx.where(m),
                        "copyto would read the real file system" if not (own and own.cls is not vfs) else "uses the overridden open()",
                        key=f"R16a|{S.qualname}.copyto")
                continue
            own = prog.resolve_method(S, m.name)
            overridden = own is not None and own.cls is not vfs
            problems = []
            if not overridden:
                problems.append(f"{S.name} inherits {vfs.name}.{m.name}: archive members would be looked up on the real file system")
            else:
                for s in eff.sites(own, S):
                    if s.effect.startswith("FS_") or s.effect == "EXEC":
                        problems.append(f"{s.effect} via {norm(s.call)[:60]} in {s.func.qualname}")
            rep.add("R16a", f"{S.qualname}.{m.name}", not problems, ctx.where(own or m), "; ".join(problems[:3]),
                    key=f"R16a|{S.qualname}.{m.name}")
        # R16c
        for name in ("populate_cache", "_getcacheinode", "_getcacheentry", "_isentryincache", "_readlink", "_readlinkfspath"):
            f = prog.resolve_method(S, name)
            if f is None:
                continue
            bad = [s for s in eff.sites(f, S) if s.effect.startswith("FS_")]
            rep.add("R16c", f"{S.qualname}.{name} is index-only", not bad, ctx.where(f),
                    "; ".join(f"{s.effect} via {norm(s.call)[:50]}" for s in bad[:3]), key=f"R16c|{S.qualname}.{name}")
    vfs_gate_obligations(ctx, rep, "R16b", eff)
    # ------------------------------------------------------------------ R16e
    from ..paths import State

    for S in subs:
        pc = prog.resolve_method(S, "populate_cache")
        if pc is None:
            continue
        from ..structure import helper_calls

        loopfunc = pc
        loops = []
        for fn in [pc] + [g for g, _, _, _ in helper_calls(prog, ctx.resolver, pc, S, depth=2)]:
            ls = [n for n in ast.walk(fn.node) if isinstance(n, ast.For) and isinstance(n.target, ast.Name)
                  and any(isinstance(x, ast.Call) and isinstance(x.func, ast.Attribute) and x.func.attr == "_isentryincache" for x in ast.walk(n))]
            if ls:
                loopfunc, loops = fn, ls
                break
        if not loops:
            rep.fail("R16e", f"{pc.qualname}: link resolution loop", ctx.where(pc), "link resolution loop not found", key=f"R16e|{S.qualname}|loop")
            continue
        loop = loops[0]
        var = loop.target.id
        # (member path of the link, link text) -> does the target leave the archive?
        cases = [("docs/up.txt", "../../real.txt", True), ("docs/deep/far", "../../../docs", True), ("up", "../x", True),
                 ("a/b", "../../..", True), ("docs/ok.txt", "../real.txt", False), ("docs/deep/l", "../../real.txt", False),
                 ("l", "real.txt", False), ("docs/l", "sub/x", False)]
        for pathname, dest, climbs in cases:
            facts = {f"{var}['dest']": Const(dest), f"{var}['pathname']": Const(pathname), f"{var}['dest'][0]": Const(dest[0])}
            w = Walker(prog, ctx.resolver, assumptions=facts, sticky=set(facts),
                       inline=lambda fn, t, d: d < 2 and t.bound_cls is not None and fn.name not in ("_isentryincache", "_getcacheinode", "_getcacheentry"))
            w.frame = (loopfunc, S)
            w._budget = 200000
            looked = set()
            try:
                outs = w.exec_block(loop.body, State(facts=dict(facts)))
                for kind, val, st in outs:
                    for e in st.events:
                        if e.kind == "call" and isinstance(e.node.func, ast.Attribute) and e.node.func.attr in ("_isentryincache", "_getcacheinode", "_getcacheentry"):
                            a = (e.extra or {}).get("args") or []
                            looked.add(a[0].value if a and a[0].kind == "const" else None)
            except Exception:
                looked = {None}
            if None in looked or not looked:
                # second attempt: the loop variable is a model object (a mapping or a named tuple, whichever the code reads)
                import collections as _collections

                attrs = sorted({n.attr for n in ast.walk(loop) if isinstance(n, ast.Attribute) and isinstance(n.value, ast.Name) and n.value.id == var})
                keys = sorted({n.slice.value for n in ast.walk(loop) if isinstance(n, ast.Subscript) and isinstance(n.value, ast.Name) and n.value.id == var
                               and isinstance(n.slice, ast.Constant) and isinstance(n.slice.value, str)})

                def val_for(name_):
                    return dest if "dest" in name_ or "target" in name_ else pathname if "path" in name_ else {} if "level" in name_ or "dir" in name_ else "linkname"
                model = None
                if attrs and not keys and all(a.isidentifier() and not a.startswith("_") for a in attrs):
                    model = _collections.namedtuple("PendingLink", attrs)(*[val_for(a) for a in attrs])
                elif keys and not attrs:
                    model = {k: val_for(k) for k in keys}
                if model is not None:
                    w = Walker(prog, ctx.resolver, exact_loops=True, unroll=4,
                               inline=lambda fn, t, d: d < 2 and t.bound_cls is not None and fn.name not in ("_isentryincache", "_getcacheinode", "_getcacheentry"))
                    w.frame = (loopfunc, S)
                    w._budget = 200000
                    looked = set()
                    try:
                        for kind, val, st in w.exec_block(loop.body, State(env={var: Const(model)})):
                            for e in st.events:
                                if e.kind == "call" and isinstance(e.node.func, ast.Attribute) and e.node.func.attr in ("_isentryincache", "_getcacheinode", "_getcacheentry"):
                                    a = (e.extra or {}).get("args") or []
                                    looked.add(a[0].value if a and a[0].kind == "const" else None)
                    except Exception:
                        looked = {None}
            problems = []
            if None in looked:
                problems.append("the member name looked up for this link is not determined by code the analysis understands")
            elif climbs:
                bad = [k for k in looked if not (k.startswith("..") or k in ("", "."))]
                if bad:
                    problems.append(f"link {pathname!r} -> {dest!r} leaves the archive but is resolved to member {bad[0]!r} "
                                    "(on the extracted tree the same link points outside the tree and is not found)")
            else:
                import posixpath

                want = posixpath.normpath(posixpath.join(posixpath.dirname(pathname), dest))
                if want not in looked:
                    problems.append(f"link {pathname!r} -> {dest!r} should resolve to member {want!r}, the code looks up {sorted(looked)}")
            rep.add("R16e", f"{S.qualname}: link {pathname!r} -> {dest!r}", not problems, ctx.where(pc, loop), "; ".join(problems),
                    key=f"R16e|{S.qualname}|{'climb' if climbs else 'inside'}|{pathname}")
    # R16f  member names: the stored bytes, decoded like names on disk (UTF-8 with surrogateescape)
    for S in subs:
        pc = prog.resolve_method(S, "populate_cache")
        if pc is None:
            continue
        loops = [n for n in ast.walk(pc.node) if isinstance(n, ast.For) and "infolist()" in norm(n.iter) and isinstance(n.target, ast.Name)]
        if len(loops) != 1:
            rep.fail("R16f", f"{S.qualname}.populate_cache", ctx.where(pc), "member enumeration not found", key=f"R16f|{S.qualname}|loop")
            continue
        loop = loops[0]
        var = loop.target.id
        # (name as zipfile hands it out, UTF-8 flag, bytes stored in the archive)
        cases = [("plain.txt", 0, b"plain.txt"), ("caf\u00e9.txt", 0x800, "caf\u00e9.txt".encode("utf-8")),
                 ("r\u00e9sum\u00e9s/andr\u00e9.txt", 0x800, "r\u00e9sum\u00e9s/andr\u00e9.txt".encode("utf-8")),
                 (b"\xae.txt".decode("cp437"), 0, b"\xae.txt"), ("\u20ac.txt", 0x800, "\u20ac.txt".encode("utf-8")),
                 (b"caf\x82.txt".decode("cp437"), 0, b"caf\x82.txt")]
        for shown, flag, raw in cases:
            want = raw.decode("utf-8", errors="surrogateescape")
            facts = {f"{var}.filename": Const(shown), f"{var}.flag_bits": Const(flag)}
            w = Walker(prog, ctx.resolver, assumptions=facts, sticky=set(facts),
                       inline=lambda fn, t, d: d < 3 and (t.bound_cls is not None or fn.cls is S or (fn.cls is None and fn.module.name.startswith("pygopherd.")))
                       and fn.name not in ("_islinkinfo", "_getcacheinode", "_readlink", "is_symlink", "log"))
            w.frame = (pc, S)
            w._budget = 200000
            got = set()
            try:
                for kind, val, st in w.exec_block(loop.body, State(facts=dict(facts))):
                    # the name that is split into directory and file part (os.path.split folds on constants, so look
                    # at the value its argument held)
                    first, parts, split_node = None, [], None
                    for e in st.events:
                        if e.kind == "assign" and isinstance(e.node, ast.Assign) and isinstance(e.node.value, ast.Call) \
                                and (dotted(e.node.value.func) or "").endswith("path.split") and e.node.value.args \
                                and (split_node is None or e.node is split_node):
                            split_node = e.node
                            parts.append(e.extra.value if e.extra is not None and e.extra.kind == "const" else None)
                            if len(parts) == 2:
                                break
                    if len(parts) == 2 and None not in parts:
                        d_, f_ = parts
                        first = f_ if d_ == "" else (d_ + f_ if d_.endswith("/") else d_ + "/" + f_)
                    got.add(first)
            except Exception:
                got = {None}
            problems = []
            if None in got or not got:
                problems.append("the listed name is not determined by code the analysis understands")
            elif got != {want}:
                problems.append(f"a member stored as {raw!r} ({'UTF-8 flag set' if flag else 'no UTF-8 flag'}) is listed as {sorted(got)!r}; "
                                f"the same file extracted on disk is listed as {want!r}")
            rep.add("R16f", f"{S.qualname}: member name {raw!r} flag={'utf8' if flag else 'none'}", not problems, ctx.where(pc, loop), "; ".join(problems),
                    key=f"R16f|{S.qualname}|{raw!r}|{flag}")
    # R16g  index lookup: every member of a representative index is found, every other path is refused, whatever was
    #       looked up (in vain or not) before
    for S in subs:
        gi = prog.resolve_method(S, "_getcacheinode")
        if gi is None:
            continue
        dircache = {"0": {"docs": "1", "top.txt": "5", "d": "6"}, "1": {"gophermap.bak": "2", "a.txt": "3", "gophermaps": "4"},
                    "2": "docs/gophermap.bak", "3": "docs/a.txt", "4": {}, "5": "top.txt", "6": {"e": "7"}, "7": {"f.txt": "8"}, "8": "d/e/f.txt"}
        members = {"": "0", "docs": "1", "docs/gophermap.bak": "2", "docs/a.txt": "3", "docs/gophermaps": "4", "top.txt": "5", "d": "6", "d/e": "7", "d/e/f.txt": "8"}
        missing = ["docs/gophermap", "docs/a", "nodir/x", "top.txt/x", "d/e/g.txt", "zzz", "Docs/a.txt", "docs/A.TXT"]
        param = gi.params[1] if len(gi.params) > 1 else "fspath"
        histories = [set(), {"docs/gophermap"}, {"docs/a", "d/e/g.txt", "top"}, {"nodir"}, {"doc", "d/e/f"}]
        problems = []
        n = 0
        for inv in histories:
            for path, want in list(members.items()) + [(m_, None) for m_ in missing]:
                facts = {"self.dircache": Const(dircache), "self.entrycache": Const({}), "self.invalid_paths": Const(set(inv))}
                w = Walker(prog, ctx.resolver, exact_loops=True, unroll=10, inline=lambda fn, t, d: d < 3 and t.bound_cls is not None and fn is not gi)
                outs = set()
                try:
                    for p in w.run(gi, S, env={param: Const(path)}, facts=dict(facts)):
                        if p.kind == "raise":
                            outs.add(("raise", str(p.value).split(".")[-1]))
                        elif p.kind == "return" and p.value.kind == "const":
                            outs.add(("inode", p.value.value))
                        else:
                            outs.add(("?", p.kind))
                except Exception:
                    outs = {("?", "analysis")}
                n += 1
                exp = {("inode", want)} if want is not None else {("raise", "KeyError")}
                if outs != exp:
                    if any(k == "?" for k, _ in outs):
                        problems.append(f"the lookup of {path!r} is not determined by code the analysis understands")
                    elif want is not None:
                        problems.append(f"member {path!r} is not found (result {sorted(outs)}) after failed lookups of {sorted(inv)}: "
                                        "browsing the archive hides an entry that the extracted tree shows")
                    else:
                        problems.append(f"{path!r} is not a member but the lookup gives {sorted(outs)} instead of KeyError")
        rep.add("R16g", f"{gi.qualname}: members found, non-members refused, independent of earlier lookups [{n} lookups]", not problems, ctx.where(gi),
                "; ".join(sorted(set(problems))[:3]), key=f"R16g|{S.qualname}")
    stat_mode_obligations(ctx, rep, "R16h")
    index_level_obligations(ctx, rep, "R16i")
    delegation_obligations(ctx, rep, "R16j")
    vfs_passing_obligations(ctx, rep, "R16k")
    member_name_obligations(ctx, rep, "R16l")
    # R16d
    zh = ctx.cls("handlers.ZIP.ZIPHandler")
    gh = ctx.func("handlers.HandlerMultiplexer.getHandler")
    if zh is None or gh is None:
        rep.fail("R16d", "ZIPHandler", detail="ZIP handler or multiplexer not found")
    else:
        found = False
        for m in zh.methods.values():
            for call, t in eff.calls_of(m, zh):
                if t.kind == "repo" and gh in t.funcs:
                    found = True
                    kw = {k.arg: k.value for k in call.keywords}
                    problems = []
                    if "vfs" not in kw and len(call.args) < 6:
                        problems.append("inner handler lookup does not pass the archive VFS")
                    if "handlerlist" in kw or len(call.args) >= 5:
                        problems.append("inner handler lookup uses a special handler list instead of the configured chain")
                    if call.args and norm(call.args[0]) not in ("self.getselector()", "self.selector"):
                        problems.append(f"inner lookup uses selector {norm(call.args[0])} instead of the request's own")
                    rep.add("R16d", f"{m.qualname}: {norm(call)[:60]}", not problems, ctx.where(m, call), "; ".join(problems),
                            key=f"R16d|{m.qualname}")
        if not found:
            rep.fail("R16d", "ZIPHandler inner chain", ctx.where(zh.methods.get("_makehandler") or list(zh.methods.values())[0]),
                     "ZIPHandler never re-runs the handler chain on the archive VFS")


_INDEX_CALLS = ("_getcacheentry", "_getcacheinode")


def _member_origin(prog, V, m, e, depth=0):
    """Where the name handed to zip.getinfo/open/read comes from: 'index' | 'request' | 'member' (a member being indexed) | 'param' | 'other'."""
    if depth > 5:
        return "other"
    assigns = getattr(m, "_pgv_assigns", None)
    if assigns is None:
        assigns = {}
        for a in ast.walk(m.node):
            if isinstance(a, ast.Assign) and len(a.targets) == 1 and isinstance(a.targets[0], ast.Name):
                assigns.setdefault(a.targets[0].id, []).append(a.value)
            elif isinstance(a, (ast.For, ast.comprehension)) and isinstance(a.target, ast.Name):
                assigns.setdefault(a.target.id, []).append(ast.Subscript(value=a.iter, slice=ast.Constant(value="*"), ctx=ast.Load()))
        try:
            m._pgv_assigns = assigns
        except Exception:
            pass
    if isinstance(e, ast.Call) and isinstance(e.func, ast.Attribute):
        if e.func.attr in _INDEX_CALLS:
            return "index"
        if e.func.attr in ("getfspath", "_getfspathfinal"):
            return "request"
        if e.func.attr in ("infolist",):
            return "member"
        if dotted(e.func.value) == "self":
            g = prog.resolve_method(V, e.func.attr)
            if g is not None and g is not m:
                rets = [r.value for r in ast.walk(g.node) if isinstance(r, ast.Return) and r.value is not None]
                kinds = {_member_origin(prog, V, g, r, depth + 1) for r in rets}
                if kinds == {"index"}:
                    return "index"
                if "request" in kinds or "param" in kinds:
                    return "request"
    if isinstance(e, ast.Subscript):
        base = norm(e.value)
        if "dircache" in base or "entrycache" in base:
            return "index"
        return _member_origin(prog, V, m, e.value, depth + 1)
    if isinstance(e, ast.Attribute):
        if norm(e).startswith("self."):
            return "other"
        return _member_origin(prog, V, m, e.value, depth + 1)
    if isinstance(e, ast.Name):
        if e.id in assigns:
            kinds = {_member_origin(prog, V, m, v, depth + 1) for v in assigns[e.id]}
            if "request" in kinds:
                return "request"
            return kinds.pop() if len(kinds) == 1 else "other"
        if e.id in m.params:
            return "param"
    return "other"


# ---------------------------------------------------------------------------------------------- R16l
def member_name_obligations(ctx, rep, rule="R16l"):
    """Inside the archive VFS, the member whose data or metadata is read (zip.getinfo / open / read / extract) is named by the index
    (the value stored under the looked-up inode, or the name of a member being indexed) - never by the path of the request: the index
    is where symbolic links are resolved and where names without the UTF-8 flag are transcoded."""
    prog = ctx.prog
    vz = ctx.cls("handlers.ZIP.VFSZip")
    if vz is None:
        rep.fail(rule, "VFSZip", detail="archive VFS not found")
        return
    n = 0
    for V in prog.subclasses(vz):
        for m in V.methods.values():
            def origin(e, _m=m, _V=V):
                return _member_origin(prog, _V, _m, e)

            for c in ast.walk(m.node):
                if not (isinstance(c, ast.Call) and isinstance(c.func, ast.Attribute) and norm(c.func.value) == "self.zip"
                        and c.func.attr in ("getinfo", "open", "read", "extract") and c.args):
                    continue
                n += 1
                o = origin(c.args[0])
                ok = o in ("index", "member")
                if o == "param":
                    # a helper: judged by what its callers in the class hand over
                    pidx = m.params.index(c.args[0].id) - (1 if m.params[:1] == ["self"] else 0)
                    callers = []
                    for m2 in V.methods.values():
                        for c2 in ast.walk(m2.node):
                            if isinstance(c2, ast.Call) and isinstance(c2.func, ast.Attribute) and c2.func.attr == m.name and norm(c2.func.value) == "self" \
                                    and len(c2.args) > pidx:
                                callers.append((m2, c2.args[pidx]))
                    live = [(m2, a2) for m2, a2 in callers if any(
                        isinstance(x, ast.Call) and isinstance(x.func, ast.Attribute) and x.func.attr == m2.name for mm in V.methods.values() for x in ast.walk(mm.node))
                        or not m2.name.startswith("_")]
                    ok = all(("info" in norm(a2) or "dircache" in norm(a2) or norm(a2).split(".")[-1] in ("filename",)) for _, a2 in live) if live else True
                rep.add(rule, f"{m.qualname}: {norm(c)[:50]}", ok, ctx.where(m, c),
                        "" if ok else f"the member is named by the request path (`{norm(c.args[0])[:40]}`), not by the index: a symbolic link is answered with "
                        "its own text instead of the member it points to, and names the index transcodes are not found", key=f"{rule}|{m.qualname}|{norm(c.func)}|{norm(c.args[0])[:30]}")
    if not n:
        rep.fail(rule, "VFSZip", detail="the archive VFS reads no member")


# ---------------------------------------------------------------------------------------------- R16k
def vfs_passing_obligations(ctx, rep, rule="R16k"):
    """Every call that has an entry described from the file system (populatefromfs / populatefromvfs / handleeaext) hands on the VFS the
    handler works on.  Without it the entry falls back to a fresh real-file-system view: for a member of an archive the side files
    (.abstract, .keywords, ...) are then looked for on the real file system, where they cannot be."""
    prog = ctx.prog
    n = 0
    for f in prog.all_functions():
        if not (f.module.name.startswith("pygopherd.handlers") or f.module.name == "pygopherd.gopherentry"):
            continue
        for c in ast.walk(f.node):
            if not (isinstance(c, ast.Call) and isinstance(c.func, ast.Attribute) and c.func.attr in ("populatefromfs", "populatefromvfs", "handleeaext")):
                continue
            n += 1
            attr = c.func.attr
            kw = {k.arg: k.value for k in c.keywords}
            if attr == "populatefromfs":
                v = kw.get("vfs") or (c.args[2] if len(c.args) > 2 else None)
            elif attr == "populatefromvfs":
                v = kw.get("vfs") or (c.args[0] if c.args else None)
            else:
                v = kw.get("vfs") or (c.args[1] if len(c.args) > 1 else None)
            text = norm(v) if v is not None else None
            ok = text is not None and (text in ("self.vfs", "vfs") or text in f.params or text.endswith(".vfs"))
            rep.add(rule, f"{f.qualname}: {norm(c)[:60]}", ok, ctx.where(f, c),
                    "" if ok else ("the entry is described without the handler's VFS" if text is None else f"the VFS handed on is `{text}`") +
                    ": side files and metadata of the item are then read from the real file system even when the item is a member of an archive",
                    key=f"{rule}|{f.qualname}|{attr}|{n if f.name != 'getentry' else ''}")
    if not n:
        rep.fail(rule, "populatefromfs", detail="no entry is described from the file system")


def _is_inner_handler(prog, zh, func, expr, depth=0) -> bool:
    """Does `expr` (inside a method of the ZIP handler) denote the inner handler: self.handler, a helper of the class that returns
    it on every path, or a local bound to one of those?"""
    if norm(expr) == "self.handler":
        return True
    if depth > 2:
        return False
    if isinstance(expr, ast.Call) and isinstance(expr.func, ast.Attribute) and dotted(expr.func.value) == "self":
        g = prog.resolve_method(zh, expr.func.attr)
        if g is not None:
            rets = [r for r in ast.walk(g.node) if isinstance(r, ast.Return)]
            return bool(rets) and all(r.value is not None and _is_inner_handler(prog, zh, g, r.value, depth + 1) for r in rets)
    if isinstance(expr, ast.Name):
        vals = [a.value for a in ast.walk(func.node) if isinstance(a, ast.Assign) and any(isinstance(t, ast.Name) and t.id == expr.id for t in a.targets)]
        return bool(vals) and all(_is_inner_handler(prog, zh, func, v, depth + 1) for v in vals)
    return False


# ---------------------------------------------------------------------------------------------- R16j
def delegation_obligations(ctx, rep, rule="R16j"):
    """What a protocol asks of the ZIP handler (entry, listing, document) is answered by the inner handler, which the
    ordinary chain chose on the archive VFS - on every path.  A shortcut that answers from the outer file system describes
    the archive file, not the tree inside it (its top-level side files, its menu)."""
    prog = ctx.prog
    zh = ctx.cls("handlers.ZIP.ZIPHandler")
    if zh is None:
        rep.fail(rule, "ZIPHandler", detail="ZIP handler not found")
        return
    for name in ("getentry", "prepare", "isdir", "getdirlist", "write"):
        m = prog.resolve_method(zh, name)
        if m is None or m.cls is None or not prog.is_subclass(m.cls, zh):
            continue
        w = Walker(prog, ctx.resolver, inline=lambda fn, t, d: d < 3 and t.bound_cls is not None)
        bad = []
        n_paths = 0
        for p in w.run(m, zh):
            if p.kind == "raise":
                continue
            n_paths += 1
            asked = any(e.kind == "call" and isinstance(e.node.func, ast.Attribute) and e.node.func.attr == name
                        and _is_inner_handler(prog, zh, m, e.node.func.value) for e in p.events)
            if not asked:
                tests = [f"{norm(e.node)[:40]} is {bool(e.extra)}" for e in p.events if e.kind == "test" and e.extra is not None]
                bad.append(tests[0] if tests else "unconditionally")
        rep.add(rule, f"{m.qualname}: answered by the inner handler on every path [{n_paths} paths]", n_paths > 0 and not bad, ctx.where(m),
                "" if not bad else f"{name}() can return without asking the inner handler (when {bad[0]}): the answer then describes the archive file on the "
                "real file system, not the tree inside the archive", key=f"{rule}|{name}")


# ---------------------------------------------------------------------------------------------- R16i
def index_level_obligations(ctx, rep, rule="R16i"):
    """Every place of the index builder (populate_cache and the methods of the archive VFS it calls) that stores a fresh,
    empty directory level has to be guarded by a membership test of the name it is stored under.  Archives list their
    members in any order: `dir/file` before `dir/` is what 7-Zip and appended archives look like."""
    from ..structure import enclosing

    prog = ctx.prog
    found = 0
    vz = ctx.cls("handlers.ZIP.VFSZip")
    pc = prog.resolve_method(vz, "populate_cache") if vz else None
    if pc is None:
        rep.fail(rule, "VFSZip.populate_cache", detail="index builder not found")
        return
    # the builder and the methods of the class it reaches through self
    todo, scope = [pc], []
    while todo:
        f = todo.pop()
        if f in scope:
            continue
        scope.append(f)
        for n in ast.walk(f.node):
            if isinstance(n, ast.Call) and isinstance(n.func, ast.Attribute) and dotted(n.func.value) == "self":
                g = prog.resolve_method(vz, n.func.attr)
                if g is not None and g.cls is not None and g.cls.module is vz.module:
                    todo.append(g)

    def empty_dir(e):
        return (isinstance(e, ast.Dict) and not e.keys) or (isinstance(e, ast.Call) and dotted(e.func) == "dict" and not e.args and not e.keywords)

    def guarded(f, node):
        for anc, field in enclosing(f.node, node):
            if isinstance(anc, ast.If):
                ops = [type(o) for c in ast.walk(anc.test) if isinstance(c, ast.Compare) for o in c.ops]
                neg = any(isinstance(u, ast.UnaryOp) and isinstance(u.op, ast.Not) for u in ast.walk(anc.test))
                if field == "body" and (ast.NotIn in ops or (ast.In in ops and neg)):
                    return True
                if field == "orelse" and ast.In in ops and not neg:
                    return True
                if any(isinstance(c, ast.Call) and isinstance(c.func, ast.Attribute) and c.func.attr == "get" for c in ast.walk(anc.test)):
                    return True
            if isinstance(anc, ast.ExceptHandler) and any(x in (dotted(anc.type) or "") for x in ("KeyError",)):
                return True
        return False

    for f in scope:
        rep.analysed(f.qualname)
        for n in ast.walk(f.node):
            site = None
            if isinstance(n, ast.Assign) and empty_dir(n.value) and any(isinstance(t, ast.Subscript) for t in n.targets):
                site = n
            elif isinstance(n, ast.Call) and any(empty_dir(a) for a in list(n.args) + [k.value for k in n.keywords]) \
                    and not (isinstance(n.func, ast.Attribute) and n.func.attr in ("setdefault", "get", "pop")):
                site = n
            if site is None:
                continue
            found += 1
            ok = guarded(f, site)
            rep.add(rule, f"{f.qualname}: {norm(site)[:60]}", ok, ctx.where(f, site),
                    "" if ok else "a new, empty directory level is stored without testing whether the name is in its parent already: "
                    "a directory member that comes after its children empties the directory", key=f"{rule}|{f.qualname}|{norm(site)[:60]}")
    if not found:
        # nothing creates a level explicitly (setdefault / defaultdict): nothing to guard
        rep.ok(rule, f"{pc.qualname}: no unconditional creation of a directory level", ctx.where(pc), "levels are made by setdefault or a mapping default",
               key=f"{rule}|none")
