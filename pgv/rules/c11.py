"""C11  A cache file cut off at any byte is harmless.

R11a  every deserialisation of a server-written cache is inside a try that catches
      every exception a truncated/zero-filled file can raise, and the failure path
      regenerates (returns falsy / rebuilds) without marking the data as cached.
Why that suffices for every prefix: a pickle stream ends with its only STOP opcode, so
no proper prefix (nor a zero-filled file) unpickles successfully - the load either
raises or returns the complete object; a dbm/shelve file that cannot be opened raises.
R11b  a dbm/shelve store is read completely inside that try (copied into memory) and not kept: a store that is
      damaged inside can open without error and only fail at a look-up
R11c  a dbm/shelve index carries a count of its entries, written last by the writer and compared by the loader under the
      guard: a store that lost entries (its directory cut at a record boundary or emptied) still opens
Not decided: corruption that is not a prefix.
"""

from __future__ import annotations

import ast

from ..effects import Effects
from ..loader import dotted, norm
from ..paths import Walker, truth
from ..structure import catches, enclosing_tries, is_generator

REQUIRED = ["EOFError", "UnpicklingError", "AttributeError", "ImportError", "IndexError", "KeyError",
            "ValueError", "TypeError", "OSError", "MemoryError", "UnicodeDecodeError"]
ENTRY = ["canhandlerequest", "gethandler", "getentry", "prepare", "isdir", "write", "getdirlist"]


def deser_sites(ctx, eff):
    seen, out = set(), []
    for H in ctx.handler_classes():
        for mname in ENTRY:
            m = ctx.prog.resolve_method(H, mname)
            if m is None:
                continue
            for s in eff.sites(m, H):
                if s.effect == "DESERIALISE" and id(s.call) not in seen:
                    # shelve.open in a writing mode creates a fresh file: not a load
                    if s.target.name == "shelve.open":
                        from ..effects import open_mode

                        if open_mode(s.call, "shelve.open") in ("n",):
                            continue
                    seen.add(id(s.call))
                    out.append((s, H))
    return out


def _key_const(ctx, node, func, cls):
    from ..paths import NOCONST, const_value

    v = const_value(ctx.prog, node, func, cls)
    return v if v is not NOCONST and isinstance(v, (str, bytes, int)) else None


def completeness_obligations(ctx, rep, eff, site, H):
    """Loader: some comparison of len(<loaded index>) with an entry read from it under a constant key, whose failure raises
    inside the guarding try.  Writer (the function of the same class that opens the store for writing): that key is stored
    with len(<index>) as the last write."""
    prog = ctx.prog
    f = site.func
    cls = f.cls
    problems = []
    key = None
    for n in ast.walk(f.node):
        if not isinstance(n, ast.Compare) or len(n.ops) != 1:
            continue
        sides = [n.left, n.comparators[0]]
        lens = [x for x in sides if any(isinstance(c, ast.Call) and dotted(c.func) == "len" for c in ast.walk(x))]
        reads = []
        for x in sides:
            for c in ast.walk(x):
                if isinstance(c, ast.Call) and isinstance(c.func, ast.Attribute) and c.func.attr in ("pop", "get") and c.args:
                    k = _key_const(ctx, c.args[0], f, cls)
                    if k is not None:
                        reads.append(k)
                if isinstance(c, ast.Subscript) and not isinstance(c.slice, ast.Slice):
                    k = _key_const(ctx, c.slice, f, cls)
                    if k is not None:
                        reads.append(k)
        if not lens or not reads:
            continue
        # the failing outcome raises (under the guard) or leads to the rebuild
        from ..structure import parents

        pm = parents(f.node)
        par = pm.get(n)
        while par is not None and not isinstance(par, (ast.If, ast.Assert, ast.stmt)):
            par = pm.get(par)
        acts = False
        if isinstance(par, ast.Assert):
            acts = False  # disabled under -O
        elif isinstance(par, ast.If):
            body = par.body if isinstance(n.ops[0], (ast.NotEq, ast.IsNot)) else par.orelse or par.body
            acts = any(isinstance(x, (ast.Raise, ast.Return)) or (isinstance(x, ast.Call) and isinstance(x.func, ast.Attribute) and "populate" in x.func.attr)
                       for st_ in body for x in ast.walk(st_))
            raises = [x for st_ in par.body + par.orelse for x in ast.walk(st_) if isinstance(x, ast.Raise)]
            if raises and not any(enclosing_tries(f.node, r) for r in raises):
                acts = False
        if acts:
            key = reads[0]
    if key is None:
        problems.append("the loaded index is not compared with an entry count stored in it: a store that opens after losing entries "
                        "(directory file cut at a record boundary or emptied) is used as a complete index")
    # the writer
    writers = []
    for c in prog.mro(cls) if cls is not None else []:
        for m in c.methods.values():
            for n in ast.walk(m.node):
                if isinstance(n, ast.Call) and dotted(n.func) in ("shelve.open", "dbm.open"):
                    from ..effects import open_mode

                    if open_mode(n, dotted(n.func)) in ("n", "c", "w"):
                        writers.append((m, n))
    if key is not None:
        if not writers:
            problems.append("no function writes the store the loader checks")
        for m, n in writers:
            stores = [a for a in ast.walk(m.node) if isinstance(a, ast.Assign) and isinstance(a.targets[0], ast.Subscript)]
            marks = [a for a in stores if _key_const(ctx, a.targets[0].slice, m, cls) == key]
            if not marks:
                problems.append(f"{m.qualname} does not store the entry count under {key!r}")
                continue
            mk = marks[-1]
            if not any(isinstance(c, ast.Call) and dotted(c.func) == "len" for c in ast.walk(mk.value)):
                problems.append(f"{m.qualname} stores something other than the number of entries under {key!r}")
            later = [a for a in stores if a.lineno > mk.lineno and a not in marks]
            if later:
                problems.append(f"{m.qualname} writes entries after the count: a store cut short can still hold the count")
    rep.add("R11c", f"{f.qualname}: index completeness checked", not problems, ctx.where(f, site.call), "; ".join(problems), key=f"R11c|{f.qualname}")


def check(ctx, rep):
    prog = ctx.prog
    eff = Effects(prog, ctx.resolver)
    rep.rule("R11a", "each cache load is inside a try catching every failure class of a truncated file; the failure path "
             "regenerates and does not mark the listing as cached", floor=2)
    rep.assume("CPython pickle framing: a proper prefix of a pickle never loads successfully (STOP is the last opcode)")
    rep.rule("R11b", "a dbm/shelve index is read completely under the guard and the store itself is not kept (look-ups in a damaged store fail lazily)", floor=1)
    rep.rule("R11c", "a dbm/shelve index is checked for completeness: the writer stores an entry count last, the loader compares it under the guard", floor=1)
    rep.rule("R11e", "a cache writer starts from an empty file (mode w / x; flag n for a dbm store): whatever a cut-off or concurrent write "
             "leaves is a prefix of the new cache, which R11a's loaders refuse", floor=2)
    # ---- R11d: what the savers write
    rep.rule("R11d", "a cache is written in place under its own name (which listings ignore): the writer creates no other file in the served tree", floor=1)
    savers = []
    for H in ctx.handler_classes():
        for nm in ("savecache", "save_cache"):
            m = prog.resolve_method(H, nm)
            if m is not None and m not in [x for x, _ in savers]:
                savers.append((m, H))
    vfsz = ctx.cls("handlers.ZIP.VFSZip")
    if vfsz is not None and prog.resolve_method(vfsz, "save_cache") is not None and prog.resolve_method(vfsz, "save_cache") not in [x for x, _ in savers]:
        savers.append((prog.resolve_method(vfsz, "save_cache"), vfsz))
    for m, H in savers:
        closure, work = [], [(m, H)]
        while work:
            g, C = work.pop()
            if g in closure or len(closure) > 12:
                continue
            closure.append(g)
            for call, t in eff.calls_of(g, C):
                if t.kind == "repo" and not t.by_name:
                    work.extend((f2, t.bound_cls if t.bound_cls is not None else f2.cls) for f2 in t.funcs if f2 is not None and f2.module.name.startswith("pygopherd"))
        bad = []
        for g in closure:
            for n in ast.walk(g.node):
                if isinstance(n, ast.Call):
                    d = dotted(n.func) or ""
                    if d.startswith("tempfile.") or d in ("os.replace", "os.rename", "os.link", "shutil.move", "shutil.copy", "shutil.copyfile", "os.mkstemp") \
                            or d.split(".")[-1] in ("mkstemp", "NamedTemporaryFile", "mkdtemp"):
                        bad.append(f"{g.qualname}: {norm(n)[:50]}")
        # R11e: how the file is opened for writing
        for g in closure:
            for n in ast.walk(g.node):
                if not isinstance(n, ast.Call):
                    continue
                d = dotted(n.func) or ""
                last = d.split(".")[-1]
                if last != "open" or d in ("os.open",):
                    continue
                modearg = n.args[1] if len(n.args) > 1 else next((k.value for k in n.keywords if k.arg in ("mode", "flag")), None)
                store = d in ("shelve.open", "dbm.open") or d.startswith("dbm.")
                if modearg is None:
                    continue  # reading (the default of open(); of dbm/shelve: "r" / "c" never written by a saver)
                if isinstance(modearg, ast.Name) and modearg.id in g.params:
                    # handed through: judged at the calls of this helper inside the writer's closure
                    pidx = g.params.index(modearg.id) - (1 if g.cls is not None and g.params[:1] in (["self"], ["cls"]) else 0)
                    for g2 in (closure if g.name != "open" else []):
                        for c2 in ast.walk(g2.node):
                            if isinstance(c2, ast.Call) and ((isinstance(c2.func, ast.Attribute) and c2.func.attr == g.name) or
                                                             (isinstance(c2.func, ast.Name) and c2.func.id == g.name)) and g2 is not g:
                                a2 = c2.args[pidx] if len(c2.args) > pidx else next((k.value for k in c2.keywords if k.arg == modearg.id), None)
                                vals2 = _possible_constants(a2, g2) if a2 is not None else None
                                if vals2 is None:
                                    continue
                                writing2 = [v for v in vals2 if isinstance(v, str) and any(ch in v for ch in "wax+")]
                                if not writing2:
                                    continue
                                wrong2 = [v for v in writing2 if not (v.startswith("w") or v.startswith("x"))]
                                rep.add("R11e", f"{g2.qualname}: {norm(c2)[:60]}", not wrong2, ctx.where(g2, c2),
                                        "" if not wrong2 else f"the cache is opened with mode {wrong2[0]!r} (through {g.name}): what is there already stays until it "
                                        "is overwritten, so a cut-off write leaves new bytes followed by old ones", key=f"R11e|{g2.qualname}|{g.name}")
                    continue
                vals = _possible_constants(modearg, g)
                label = f"{g.qualname}: {norm(n)[:60]}"
                if vals is None:
                    rep.add("R11e", label, False, ctx.where(g, n), f"the mode `{norm(modearg)[:40]}` of this open could not be resolved to constants",
                            key=f"R11e|{g.qualname}|{norm(n.func)}")
                    continue
                writing = [v for v in vals if isinstance(v, str) and (store or any(c in v for c in "wax+"))]
                if not writing:
                    continue
                if store:
                    wrong = [v for v in writing if v != "n"]
                else:
                    wrong = [v for v in writing if not (v.startswith("w") or v.startswith("x"))]
                rep.add("R11e", label, not wrong, ctx.where(g, n),
                        "" if not wrong else f"the cache is opened with mode {wrong[0]!r}: what is there already stays until it is overwritten, so a writer "
                        "that is cut off (or a reader that comes in meanwhile) leaves the start of the new cache followed by the rest of the old one - "
                        "that need not fail to load", key=f"R11e|{g.qualname}|{norm(n.func)}")
        rep.add("R11d", f"{m.qualname}: writes only the cache file itself", not bad, ctx.where(m),
                f"the cache is written through another file ({bad[0]}): a writer that is interrupted leaves a file under a name no listing ignores - "
                "the directory then shows (and caches) an entry that is a cut-off cache" if bad else "", key=f"R11d|{m.qualname}")

    # ---- R11f: a pickle cache counts as loaded only when the unpickler accepted the whole file
    rep.rule("R11f", "a directory cache is used only after pickle.load() has read it: no path of the loader reports a hit with a listing it built "
             "from the raw bytes itself (a length prefix, an 'empty' shortcut) - pickle's framing is what makes damaged files fail", floor=1)
    dirbase = ctx.cls("handlers.dir.DirHandler")
    for C in (prog.subclasses(dirbase) if dirbase else []):
        lc = prog.resolve_method(C, "loadcache")
        if lc is None or (lc.cls is not C and C is not dirbase):
            continue
        w = Walker(prog, ctx.resolver, fork_returns=True, inline_by_name=True,
                   inline=lambda fn, t, d: d < 3 and fn.module.name.startswith("pygopherd.handlers") and fn.name not in ("open", "stat", "getfspath", "__init__")
                   and (t.bound_cls is not None or fn.cls is None or fn.cls is C))
        shortcuts, n_hit = [], 0
        try:
            lpaths = w.run(lc, C)
        except Exception:
            lpaths = []
        for p in lpaths:
            if p.kind == "raise":
                continue
            hit = (p.kind == "return" and truth(p.value) is True) or any(
                e.kind == "assign" and e.target == "self.fromcache" and e.extra is not None and truth(e.extra) is True for e in p.events)
            if not hit:
                continue
            n_hit += 1
            if not any(e.kind == "call" and e.target.kind == "ext" and e.target.ext in ("pickle.load", "pickle.loads", "marshal.load") for e in p.events):
                tests = [f"{norm(e.node)[:40]} is {bool(e.extra)}" for e in p.events if e.kind == "test" and e.extra is not None]
                shortcuts.append(tests[-1] if tests else "unconditionally")
        rep.add("R11f", f"{lc.qualname}: every hit went through the unpickler [{n_hit} hit paths]", n_hit > 0 and not shortcuts, ctx.where(lc),
                "" if n_hit and not shortcuts else (f"a cache hit is reported without unpickling the file (when {shortcuts[0]}): a zero-filled or cut-off file "
                                                    "that happens to satisfy that test is served as a listing" if shortcuts else "no path of the loader reports a hit"),
                key=f"R11f|{lc.qualname}")

    sites = deser_sites(ctx, eff)
    done_c = set()
    for s, H in sites:
        if s.target.name in ("shelve.open", "dbm.open") and s.func not in done_c:
            done_c.add(s.func)
            completeness_obligations(ctx, rep, eff, s, H)
    loader_guard_obligations(ctx, rep, eff, "R11a")
    rep.rule("R11i", "= R12j: names read after a try statement are bound on every way out of its handlers - `except ... as e` unbinds `e` when "
             "the handler ends, so a failure flag kept in that name turns the failed load into UnboundLocalError", floor=1)
    from .c12 import unbound_after_try_obligations
    unbound_after_try_obligations(ctx, rep, "R11i")
    rep.rule("R11h", "= R10c: the cache file is written once per generated listing, after the last change to it - a reader (or a writer that dies) "
             "between two writes would find a complete, loadable file with an unfinished listing, which no guard can tell from the real one", floor=2)
    from .c10 import save_order_obligations
    save_order_obligations(ctx, rep, "R11h")
    rep.rule("R11g", "what runs after a failed cache load (the handlers around the load and what they call) cannot fail on the request itself: "
             "no format operation there has request text in its format string (= R03m on the failure paths)", floor=1)
    failure_path_total_obligations(ctx, rep, eff, "R11g")



def failure_path_total_obligations(ctx, rep, eff, rule="R11g"):
    """What runs when a cache load has failed (the handlers of the guards around the load, and the functions they call) cannot
    itself fail on the request: no format operation there takes request text as its format string."""
    from .c03 import format_string_obligations

    prog = ctx.prog
    funcs = set()
    n_handlers = 0
    for s, H in deser_sites(ctx, eff):
        holders = [(s.func, s.call)]
        for g in prog.all_functions():
            if g is s.func or not g.module.name.startswith("pygopherd"):
                continue
            for call2, t2 in eff.calls_of(g, g.cls):
                if t2.kind == "repo" and s.func in t2.funcs:
                    holders.append((g, call2))
        for f, call in holders:
            for tr in enclosing_tries(f.node, call):
                for h in tr.handlers:
                    n_handlers += 1
                    funcs.add(f)
                    work = []
                    for node in ast.walk(h):
                        if isinstance(node, ast.Call):
                            t = ctx.resolver.resolve(node, f, H if f.cls is not None and prog.is_subclass(H, f.cls) else f.cls)
                            if t is not None and t.kind == "repo":
                                work.extend((x, 0) for x in t.funcs if x is not None)
                    while work:
                        g, d = work.pop()
                        if g in funcs or not g.module.name.startswith("pygopherd"):
                            continue
                        funcs.add(g)
                        if d < 2:
                            for c3, t3 in eff.calls_of(g, g.cls):
                                if t3.kind == "repo" and not t3.by_name:
                                    work.extend((x, d + 1) for x in t3.funcs if x is not None)
    if not n_handlers:
        rep.fail(rule, "cache loaders", detail="no guarded cache load found")
        return
    format_string_obligations(ctx, rep, rule, only_funcs=funcs,
                              none_text=f"nothing on the failure paths of the cache loads formats with request text as the format string [{len(funcs)} functions]")


def loader_guard_obligations(ctx, rep, eff, rule="R11a"):
    """Every load of a server-written cache is guarded against each failure class of a cut-off file, and the failure path
    regenerates (shared with C14: a reader that races a writer sees exactly such a file)."""
    prog = ctx.prog
    sites = deser_sites(ctx, eff)
    for s, H in sites:
        f = s.func
        rep.analysed(f.qualname)
        if s.target.name in ("shelve.open", "dbm.open"):
            from ..structure import parents

            pm = parents(f.node)
            par = pm.get(s.call)
            kept = None
            holder = None
            if isinstance(par, ast.withitem):
                holder = par.optional_vars.id if isinstance(par.optional_vars, ast.Name) else None
            elif isinstance(par, ast.Assign) and par.value is s.call:
                tg = par.targets[0]
                if isinstance(tg, ast.Name):
                    holder = tg.id
                else:
                    kept = f"`{norm(tg)} = {norm(s.call)[:40]}`"
            elif isinstance(par, ast.Return):
                kept = "it is returned to the caller"
            elif isinstance(par, ast.Call) and dotted(par.func) in ("dict", "list", "tuple", "sorted"):
                pass
            else:
                kept = f"`{norm(par)[:50]}`"
            if holder is not None and kept is None:
                for n in ast.walk(f.node):
                    if isinstance(n, ast.Assign) and isinstance(n.value, ast.Name) and n.value.id == holder and not all(isinstance(t, ast.Name) for t in n.targets):
                        kept = f"`{norm(n)[:50]}`"
                    if isinstance(n, ast.Return) and isinstance(n.value, ast.Name) and n.value.id == holder:
                        kept = "it is returned to the caller"
                # every read of the store happens under the same guard as the open
                tries_open = {id(t) for t in enclosing_tries(f.node, s.call)}
                for n in ast.walk(f.node):
                    if isinstance(n, ast.Name) and n.id == holder and isinstance(n.ctx, ast.Load):
                        if not ({id(t) for t in enclosing_tries(f.node, n)} & tries_open) and tries_open:
                            kept = f"it is read outside the guard (line {n.lineno})"
            if rule == "R11a":
              rep.add("R11b", f"{f.qualname}: {norm(s.call)[:40]} is consumed under the guard", kept is None, ctx.where(f, s.call),
                    f"the opened store is kept ({kept}): a store that is cut short or zero-filled inside opens without error and fails at the first "
                    "look-up, outside the try that treats a damaged cache as missing" if kept else "", key=f"R11b|{f.qualname}")
        problems = []
        tries = enclosing_tries(f.node, s.call)
        missing = [e for e in REQUIRED if not any(catches(h, e) for tr in tries for h in tr.handlers)]
        root, inline_fn = f, None
        if missing and f.cls is None:
            # a module-level reader: the try may be held by its (single) calling function
            callers = []
            for g in prog.all_functions():
                if g is f or not g.module.name.startswith("pygopherd"):
                    continue
                for call2, t2 in eff.calls_of(g, g.cls):
                    if t2.kind == "repo" and f in t2.funcs:
                        callers.append((g, call2))
            if len({g for g, _ in callers}) == 1 and all(
                    not [e for e in missing if not any(catches(h, e) for tr in enclosing_tries(g.node, call2) for h in tr.handlers)] for g, call2 in callers):
                root, inline_fn, missing = callers[0][0], f, []
                H = root.cls if root.cls is not None else H
        if missing and f.cls is not None:
            # the load may sit in a small reader method whose callers (in the same class hierarchy) hold the try
            callers = []
            for c in prog.mro(H):
                for m2 in c.methods.values():
                    if prog.resolve_method(H, m2.name) is not m2:
                        continue
                    for call2, t2 in eff.calls_of(m2, H):
                        if t2.kind == "repo" and f in t2.funcs and t2.bound_cls is not None:
                            callers.append((m2, call2))
            covered = callers and all(
                not [e for e in missing if not any(catches(h, e) for tr in enclosing_tries(m2.node, call2) for h in tr.handlers)]
                for m2, call2 in callers)
            if covered and len({m2 for m2, _ in callers}) == 1:
                root, inline_fn, missing = callers[0][0], f, []
        # one object per file: the pickle's STOP opcode is what makes every proper prefix fail.  A reader that takes
        # records until end-of-file (a load in a loop, or an Unpickler used more than once) accepts a file that was
        # cut at a record boundary as a complete, shorter listing.
        from ..structure import enclosing_loops

        in_loop = bool(enclosing_loops(f.node, s.call))
        if s.target.name == "pickle.Unpickler":
            var = None
            for n in ast.walk(f.node):
                if isinstance(n, ast.Assign) and n.value is s.call and isinstance(n.targets[0], ast.Name):
                    var = n.targets[0].id
            loads = [n for n in ast.walk(f.node) if isinstance(n, ast.Call) and isinstance(n.func, ast.Attribute) and n.func.attr == "load"
                     and (norm(n.func.value) == var or n.func.value is s.call)]
            in_loop = in_loop or len(loads) > 1 or any(enclosing_loops(f.node, l) for l in loads)
        # the open that feeds the load: the writer may be replacing the file at this moment (unlink + create), so a cache that
        # was there for the freshness test can be gone at the open
        if s.target.name in ("pickle.load", "pickle.Unpickler") and s.call.args:
            src = s.call.args[0]
            opener = None
            if isinstance(src, ast.Call):
                opener = src
            elif isinstance(src, ast.Name):
                for n in ast.walk(f.node):
                    if isinstance(n, (ast.With, ast.AsyncWith)):
                        for it in n.items:
                            if isinstance(it.optional_vars, ast.Name) and it.optional_vars.id == src.id and isinstance(it.context_expr, ast.Call):
                                opener = it.context_expr
                    if isinstance(n, ast.Assign) and any(isinstance(t, ast.Name) and t.id == src.id for t in n.targets) and isinstance(n.value, ast.Call):
                        opener = n.value
            if opener is not None and (dotted(opener.func) or "").split(".")[-1] == "open":
                otries = enclosing_tries(f.node, opener)
                if not any(catches(h, "OSError") for tr in otries for h in tr.handlers) and root is f:
                    problems.append(f"`{norm(opener)[:50]}` is outside the guard of the load: a cache file that vanishes between the freshness test and the open "
                                    "(a writer replacing it, a clean-up) raises FileNotFoundError to the client instead of regenerating the listing")
        if in_loop:
            problems.append("records are read until end-of-file: a cache file cut off at a record boundary (or at byte 0) is accepted as a complete, "
                            "shorter listing instead of being regenerated")
        # a generator runs none of its body when it is called: a try around the *call* guards nothing, the load happens at the
        # first next() - wherever the entries are iterated (the protocol's writedir).  Materialising inside the guard is fine.
        if is_generator(f.node):
            lazy = True
            if inline_fn is f:
                from ..structure import parents as _parents

                pm2 = _parents(root.node)
                lazy = False
                for call2, t2 in eff.calls_of(root, root.cls if root.cls is not None else None):
                    if t2.kind == "repo" and f in t2.funcs:
                        par2 = pm2.get(call2)
                        eager = (isinstance(par2, ast.Call) and dotted(par2.func) in ("list", "tuple", "sorted", "dict", "set")
                                 and {id(t) for t in enclosing_tries(root.node, par2)} >= {id(t) for t in enclosing_tries(root.node, call2)}) \
                            or isinstance(par2, ast.Starred) or (isinstance(par2, ast.comprehension) and par2.iter is call2 and not
                                                                 isinstance(pm2.get(par2), ast.GeneratorExp))
                        if not eager:
                            lazy = True
            if lazy:
                problems.append(f"{f.qualname} is a generator: calling it runs none of its body, so the guard around the call catches nothing - "
                                "the load (and its EOFError on a cut-off file) happens where the entries are first iterated, outside the guard")
        if missing:
            problems.append(f"a truncated or zero-filled cache file raises {missing[0]} (also {', '.join(missing[1:4])}) which nothing here catches: "
                            "the request fails instead of regenerating the listing")
        else:
            # failure path analysis
            def rp(call, target, _site=s.call):
                return ["EOFError"] if call is _site else []
            concrete = H if f.cls is not None and prog.is_subclass(H, f.cls) else f.cls
            w = Walker(prog, ctx.resolver, raise_points=rp, inline=(lambda fn, t, d: fn is inline_fn) if inline_fn is not None else None)
            normal_truthy = False
            fail_paths = []
            for p in w.run(root, concrete):
                raised = any(e.kind == "raise" and e.extra == "implicit" and e.node is s.call for e in p.events)
                if raised:
                    fail_paths.append(p)
                elif any(e.kind == "call" and e.node is s.call for e in p.events) and p.kind == "return" and truth(p.value) is True:
                    normal_truthy = True
            if not fail_paths:
                problems.append("could not follow the failure path of the load")
            for p in fail_paths:
                if p.kind == "raise":
                    problems.append("the failure of the load is re-raised")
                    continue
                after = False
                regenerated = False
                # whatever was set before the load: when the load failed the entries must not count as cached at the end
                fc = [e for e in p.events if e.kind == "assign" and isinstance(e.target, str) and e.target == "self.fromcache"]
                if fc and truth(fc[-1].extra) is not False:
                    problems.append("after a failed load the entries are still marked as loaded from the cache (set before the load and not taken back): "
                                    "callers skip what they do for freshly generated listings (merge, sort, rewriting the damaged file)")
                for e in p.events:
                    if e.kind == "raise" and e.node is s.call:
                        after = True
                        continue
                    if not after:
                        continue
                    if e.kind == "assign" and isinstance(e.target, str) and e.target == "self.fromcache" and truth(e.extra) is not False:
                        problems.append("the failure path still marks the entries as loaded from the cache")
                    if e.kind == "call" and e.target.kind == "repo" and e.target.bound_cls is not None:
                        regenerated = True
                    # tidying up on the failure path can fail too (two readers removing the same damaged file, a directory the
                    # server may not write to): unguarded, that failure takes the request down instead of the listing being rebuilt
                    if e.kind == "call" and isinstance(e.node.func, ast.Attribute) and e.node.func.attr in ("unlink", "remove", "rename", "replace", "rmdir", "truncate") \
                            or (e.kind == "call" and (dotted(e.node.func) or "") in ("os.unlink", "os.remove", "os.rename", "os.replace", "os.truncate")):
                        owner = e.frame[0] if e.frame and e.frame[0] is not None else root
                        guarded_ = any(catches(h, "OSError") for tr in enclosing_tries(owner.node, e.node) for h in tr.handlers
                                       if any(x is e.node for b_ in tr.body for x in ast.walk(b_)))
                        if not guarded_:
                            problems.append(f"on the failure path `{norm(e.node)[:40]}` can itself fail with OSError (the file is gone already, the directory is not "
                                            "writable): the request then ends in an error instead of a regenerated listing")
                if normal_truthy:
                    if not (p.kind in ("return", "fall") and truth(p.value) is False or (p.kind == "fall")):
                        if not (p.kind == "return" and truth(p.value) is False):
                            problems.append("after a failed load the function still reports a cache hit")
                elif not regenerated and p.kind != "return":
                    problems.append("after a failed load nothing rebuilds the data")
        rep.add(rule, f"{f.qualname}: {norm(s.call)[:50]}", not problems, ctx.where(f, s.call),
                "; ".join(sorted(set(problems))), key=f"{rule}|{f.qualname}|{norm(s.call.func)}")


def _possible_constants(expr, func, _depth=0):
    """The constant values an expression can have inside `func`: literals, conditional expressions of them, and locals
    (or module constants) that are only ever assigned such values.  None when that cannot be told."""
    if isinstance(expr, ast.Constant):
        return {expr.value}
    if isinstance(expr, ast.IfExp):
        a, b = _possible_constants(expr.body, func, _depth), _possible_constants(expr.orelse, func, _depth)
        return None if a is None or b is None else a | b
    if isinstance(expr, ast.BoolOp):
        parts = [_possible_constants(v, func, _depth) for v in expr.values]
        return None if any(p_ is None for p_ in parts) else set().union(*parts)
    if isinstance(expr, ast.Name) and _depth < 3:
        out, seen = set(), False
        for n in ast.walk(func.node):
            values = []
            if isinstance(n, ast.Assign) and any(isinstance(t, ast.Name) and t.id == expr.id for t in n.targets):
                values.append(n.value)
            elif isinstance(n, (ast.AnnAssign, ast.NamedExpr)) and isinstance(n.target, ast.Name) and n.target.id == expr.id and n.value is not None:
                values.append(n.value)
            elif isinstance(n, ast.AugAssign) and isinstance(n.target, ast.Name) and n.target.id == expr.id:
                return None
            for v in values:
                seen = True
                got = _possible_constants(v, func, _depth + 1)
                if got is None:
                    return None
                out |= got
        if seen:
            return out
        vals = func.module.globals.get(expr.id) or []
        if len(vals) == 1:
            return _possible_constants(vals[0], func, _depth + 1)
        return None
    if isinstance(expr, ast.Attribute) and dotted(expr) and dotted(expr).startswith("self.") and func.cls is not None and _depth < 3:
        for st_ in func.cls.node.body:
            if isinstance(st_, ast.Assign) and any(isinstance(t, ast.Name) and t.id == expr.attr for t in st_.targets):
                return _possible_constants(st_.value, func, _depth + 1)
        return None
    return None
