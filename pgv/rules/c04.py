"""C04  Documents are delivered byte-for-byte with truthful length and type (structural clauses).

R04a  copy loop: binary open inside `with`; every chunk read is written once, unchanged;
      the loop ends only on an empty read
R04b  the Gopher+ length header describes the body: handlers whose write() is not the
      verbatim copy (or pure delegation) leave the entry's size unset; generated menus
      are announced with the unknown-length marker
R04c  HEAD: no body-producing call is reachable for HEAD; header writes do not depend
      on the method
R04d  the advertised MIME type comes from the entry's type (MIME tables / configuration /
      constants) through the protocol's own adjust function only
Equality of delivered bytes with file bytes for all contents and WML invertibility are
not decided.
"""

from __future__ import annotations

import ast

from ..effects import Effects
from ..loader import dotted, norm
from ..markup import OK_HEADER, K, MarkupDomain
from ..paths import FALSY, TRUTHY, Const, State, Walker, truth
from ..prov import Engine

BODY_CALLS = {"writedir", "handlerwrite"}
HEADER_PREFIXES = ("HTTP/", "Content-", "Last-Modified", "Server:", "Date:", "Location:")


def _copy_by_evaluation(ctx, f, vfs):
    """copyto() evaluated with a source that delivers scripted blocks: every block has to be written once, unchanged and
    in order, and reading has to stop at the first empty read.  -> problems, or None when the code cannot be followed."""
    from ..paths import Const

    prog = ctx.prog
    scripts = [[b"AAAA", b"BB\r\n\x00\xff", b" \t\n ", b"0123456789abcdef" * 4, b"\x00", b"C", b""], [b""], [b"only", b""]]
    problems = []
    for script in scripts:
        holder = {}

        def cv(call, target, st, _s=script):
            fn = call.func
            if isinstance(fn, ast.Attribute) and fn.attr in ("read", "read1") and not (dotted(fn.value) or "").startswith("self"):
                i = st.facts.get("__reads", Const(0)).value
                st.facts["__reads"] = Const(i + 1)
                return Const(_s[i] if i < len(_s) else b"")
            if isinstance(fn, ast.Attribute) and fn.attr == "write" and not (dotted(fn.value) or "").startswith("self"):
                a = holder["w"].cur_args
                prev = st.facts.get("__written")
                prev = prev.value if prev is not None and prev.kind == "const" else ()
                st.facts["__written"] = Const(prev + ((a[0].value if a and a[0].kind == "const" else None),))
                return Const(None)
            if (dotted(fn) or "").endswith("copyfileobj"):
                st.facts["__reads"] = Const(len(_s))
                st.facts["__written"] = Const(tuple(x for x in _s if x))
                return Const(None)
            return None

        w = Walker(prog, ctx.resolver, call_value=cv, exact_loops=True, unroll=len(script) + 3,
                   inline=lambda fn, t, d: d < 3 and (t.bound_cls is not None or fn.cls is None) and fn.name not in ("open", "getfspath"))
        holder["w"] = w
        try:
            paths = w.run(f, vfs)
        except Exception:
            return None
        outs = set()
        for p in paths:
            if p.kind == "raise":
                return None
            wr = p.state.facts.get("__written")
            rd = p.state.facts.get("__reads")
            wr = wr.value if wr is not None and wr.kind == "const" else ()
            outs.add((wr, rd.value if rd is not None and rd.kind == "const" else None))
        if len(outs) != 1:
            return None
        wr, rd = next(iter(outs))
        if rd is None or any(x is None for x in wr):
            return None
        want = tuple(x for x in script[:-1])
        first_empty = script.index(b"") + 1
        if wr != want:
            problems.append(f"a source delivering the blocks {script[:-1]!r} is sent as {list(wr)!r}: the bytes written are not the bytes of the file, once, in order")
        if rd != first_empty:
            problems.append(f"reading does not stop at the first empty read (it reads {rd} times for {len(script) - 1} blocks)")
    return problems


# ------------------------------------------------------------------- R04a
def copy_loop_obligations(ctx, rep, rule):
    prog = ctx.prog
    vfs = ctx.cls("handlers.base.VFS_Real")
    f = prog.resolve_method(vfs, "copyto") if vfs else None
    if f is None:
        rep.fail(rule, "VFS_Real.copyto", detail="copy routine not found")
        return
    rep.analysed(f.qualname)
    problems = []
    # opened in binary mode inside a with
    opens = [n for n in ast.walk(f.node) if isinstance(n, ast.withitem) and isinstance(n.context_expr, ast.Call)
             and isinstance(n.context_expr.func, ast.Attribute) and n.context_expr.func.attr == "open"]
    if not opens:
        problems.append("the source is not opened as a with-item")
    for w in opens:
        c = w.context_expr
        mode = c.args[1] if len(c.args) > 1 else next((k.value for k in c.keywords if k.arg == "mode"), None)
        if not (isinstance(mode, ast.Constant) and mode.value == "rb"):
            problems.append("the source is not opened in binary mode ('rb')")
    verdict = _copy_by_evaluation(ctx, f, vfs)
    if verdict is not None:
        problems.extend(verdict)
        rep.add(rule, f"{f.qualname}: binary block copy", not problems, ctx.where(f), "; ".join(sorted(set(problems))), key=f"{rule}|{f.qualname}")
        return

    def _read_loops(fn):
        return [n for n in ast.walk(fn.node) if isinstance(n, (ast.While, ast.For))
                and any(isinstance(c, ast.Call) and isinstance(c.func, ast.Attribute) and c.func.attr in ("read", "read1", "readinto") for c in ast.walk(n))]

    outparam = f.params[2] if len(f.params) > 2 else "fd"
    loopfunc = f
    loops = _read_loops(f)
    if not loops:
        # the loop may live in a helper that is handed the open file and the client's file object
        from ..structure import helper_calls

        for g, cn, caller, bind in helper_calls(prog, ctx.resolver, f, vfs, depth=1):
            gl = _read_loops(g)
            sink = [p_ for p_, a in bind.items() if isinstance(a, ast.Name) and a.id == outparam]
            if gl and len(sink) == 1:
                loopfunc, loops, outparam = g, gl, sink[0]
                rep.analysed(g.qualname)
                break
    if not loops and not any(isinstance(c, ast.Call) and (dotted(c.func) or "").endswith("copyfileobj") for c in ast.walk(f.node)):
        problems.append("no read loop found")
    for loop in loops:
        walker = Walker(prog, ctx.resolver)
        walker.frame = (loopfunc, vfs)
        walker._budget = 100000
        body_ = [st_ for st_ in loopfunc.node.body if not (isinstance(st_, ast.Expr) and isinstance(st_.value, ast.Constant))]
        loop_is_last = bool(body_) and body_[-1] is loop

        def is_read(n):
            return isinstance(n, ast.Call) and isinstance(n.func, ast.Attribute) and n.func.attr in ("read", "read1")

        def data_expr(e, defs):
            """Does e denote the chunk just read?"""
            if isinstance(e, ast.NamedExpr):
                return is_read(e.value)
            if isinstance(e, ast.Name) and e.id in defs:
                return is_read(defs[e.id]) or (isinstance(defs[e.id], ast.NamedExpr) and is_read(defs[e.id].value))
            return is_read(e)

        def emptiness(node, defs):
            if isinstance(node, ast.Call) and dotted(node.func) == "len" and len(node.args) == 1:
                return data_expr(node.args[0], defs)
            return data_expr(node, defs)

        # loop condition
        cond_ok = True
        if isinstance(loop, ast.While):
            t = loop.test
            if isinstance(t, ast.Constant) and t.value:
                pass
            elif isinstance(t, ast.NamedExpr) and is_read(t.value):
                pass
            else:
                cond_ok = False
                problems.append(f"the loop condition `{norm(t)}` is not 'until the read returns nothing'")
        st = State()
        if isinstance(loop, ast.While) and isinstance(loop.test, ast.NamedExpr) and isinstance(loop.test.target, ast.Name):
            st.defs[loop.test.target.id] = loop.test
        try:
            outs = walker.exec_block(loop.body, st)
        except Exception:
            problems.append("could not enumerate the loop body")
            outs = []
        for kind, val, s in outs:
            writes = [e for e in s.events if e.kind == "call" and isinstance(e.node.func, ast.Attribute)
                      and e.node.func.attr == "write" and dotted(e.node.func.value) == outparam]
            reads = [e for e in s.events if e.kind == "call" and is_read(e.node)]
            tests = [e for e in s.events if e.kind == "test" and e.extra is not None]
            if kind in ("next", "continue"):
                if len(writes) != 1:
                    problems.append(f"a pass through the loop writes {len(writes)} times (each chunk must be written exactly once)")
                for wv in writes:
                    a = wv.node.args[0] if wv.node.args else None
                    if a is None or not data_expr(a, s.defs):
                        problems.append(f"`{norm(wv.node)}` does not write the chunk that was read, unchanged")
                # the iteration must have been entered with data
            elif kind == "break" or (kind == "return" and loop_is_last and (val is None or getattr(val, "kind", "") == "const" and val.value is None)):
                ok = any(emptiness(e.node, e.defs or {}) and e.extra is False for e in tests)
                if not ok:
                    problems.append("the loop can end on something other than an empty read (" +
                                    ", ".join(f"{norm(e.node)}={e.extra}" for e in tests) + ")")
                if writes and not any(emptiness(e.node, e.defs or {}) for e in tests):
                    pass
            elif kind == "return":
                problems.append("the copy loop can return early")
    rep.add(rule, f"{f.qualname}: binary block copy", not problems, ctx.where(f), "; ".join(sorted(set(problems))),
            key=f"{rule}|copyto|" + ";".join(sorted(set(problems))))


# ------------------------------------------------------------------- R04b
def is_verbatim_write(func) -> bool:
    body = [s for s in func.node.body if not (isinstance(s, ast.Expr) and isinstance(s.value, ast.Constant))]
    if len(body) != 1 or not isinstance(body[0], ast.Expr) or not isinstance(body[0].value, ast.Call):
        return False
    c = body[0].value
    if not (isinstance(c.func, ast.Attribute) and c.func.attr == "copyto" and norm(c.func.value) == "self.vfs"):
        return False
    return len(c.args) == 2 and norm(c.args[0]) in ("self.getselector()", "self.selector") and isinstance(c.args[1], ast.Name) \
        and c.args[1].id in func.params


def delegate_of(func):
    """`self.<attr>.write(wfile)` / `return self.<attr>.getentry()` -> attr name."""
    body = [s for s in func.node.body if not (isinstance(s, ast.Expr) and isinstance(s.value, ast.Constant))]
    calls = []
    for s in body:
        v = s.value if isinstance(s, (ast.Expr, ast.Return)) else None
        if isinstance(v, ast.Call) and isinstance(v.func, ast.Attribute):
            calls.append(v)
    if not calls:
        return None
    last = calls[-1]
    recv = dotted(last.func.value) or ""
    if recv.startswith("self.") and recv.count(".") == 1 and last.func.attr == func.name:
        # every other statement must be a helper call on self (e.g. self._makehandler())
        for c in calls[:-1]:
            if dotted(c.func.value) != "self":
                return None
        if len(calls) == len(body):
            return recv.split(".")[1]
    return None


def length_obligations(ctx, rep, rule):
    prog = ctx.prog
    hb = ctx.cls("handlers.base.BaseHandler")
    for H in ctx.handler_classes():
        wr = prog.resolve_method(H, "write")
        ge = prog.resolve_method(H, "getentry")
        if wr is None or ge is None or wr.cls is hb:
            continue
        if is_verbatim_write(wr):
            rep.ok(rule, f"{H.qualname}: verbatim copy", ctx.where(wr), "body = file bytes; size from stat", nontrivial=False)
            continue
        d1, d2 = delegate_of(wr), delegate_of(ge)
        if d1 is not None and d1 == d2:
            rep.ok(rule, f"{H.qualname}: delegates write and entry to self.{d1}", ctx.where(wr), nontrivial=False)
            continue
        # transforming handler: the entry must not carry the size of the stored file
        w = Walker(prog, ctx.resolver, inline=lambda fn, t, d: t.bound_cls is not None or
                   (fn.cls is not None and t.kind == "repo" and not t.by_name and len(t.funcs) == 1 and fn.name == "getentry"))
        problems = set()
        try:
            paths = w.run(ge, H)
        except Exception:
            paths = []
            problems.add("could not enumerate getentry paths")
        for p in paths:
            if p.kind == "raise":
                continue
            state = "unset"
            for e in p.events:
                if e.kind == "call" and isinstance(e.node.func, ast.Attribute) and e.node.func.attr in ("populatefromfs", "populatefromvfs"):
                    state = "stat-size"
                elif e.kind == "assign" and isinstance(e.target, str) and e.target.endswith(".size"):
                    if e.extra is not None and e.extra.kind == "const" and e.extra.value is None:
                        state = "unset"
                    else:
                        state = "stat-size"
                elif e.kind == "call" and isinstance(e.node.func, ast.Attribute) and e.node.func.attr == "setsize":
                    state = "stat-size"
            if state != "unset":
                problems.add("the entry keeps the size of the stored file although write() sends something else "
                             "(the Gopher+ length header would not match the body)")
        rep.add(rule, f"{H.qualname}: transformed body, size unset", not problems, ctx.where(ge), "; ".join(sorted(problems)),
                key=f"{rule}|{H.qualname}|size")
    # generated menus: unknown-length marker
    gp = ctx.cls("protocols.gopherp.GopherPlusProtocol")
    if gp is None:
        rep.fail(rule, "GopherPlusProtocol", detail="Gopher+ protocol not found")
        return
    for P in prog.subclasses(gp):
        h = prog.resolve_method(P, "handle")
        if h is None or (not ctx.owns(P, h) and P is not gp):
            continue
        def _driver(fn, t, d):
            # helpers of handle() that carry part of the response logic (status line, menu/document decision)
            if not (d < 3 and t.bound_cls is not None) or fn.name in ("writedir", "gethandler", "filenotfound", "log", "renderobjinfo"):
                return False
            return any((isinstance(x, ast.Attribute) and x.attr in ("getsize", "isdir"))
                       or (isinstance(x, ast.Constant) and isinstance(x.value, (str, bytes)) and str(x.value if isinstance(x.value, str) else x.value.decode("latin-1")).startswith("+"))
                       for x in ast.walk(fn.node))

        def _isdir(val):
            return lambda call, target, st: val if isinstance(call.func, ast.Attribute) and call.func.attr == "isdir" and not call.args else None

        from ..facts import expand_ast as _xa
        from ..paths import NOCONST, const_value
        from ..structure import concat_pieces

        def length_lines(path):
            """Values V of the `+V` length lines written along a path: ('const', n) / ('size', default) / ('other', text)."""
            out = []
            for e in path.calls():
                if not (isinstance(e.node.func, ast.Attribute) and e.node.func.attr == "write" and (dotted(e.node.func.value) or "").endswith("wfile") and e.node.args):
                    continue
                fn = e.frame[0] if e.frame else h
                a = _xa(e.node.args[0], fn, e.defs) if e.defs else e.node.args[0]
                if isinstance(a, ast.Call) and isinstance(a.func, ast.Attribute) and a.func.attr == "encode":
                    a = a.func.value
                if isinstance(a, ast.Constant) and isinstance(a.value, bytes):
                    a = ast.Constant(value=a.value.decode("latin-1"))
                pcs = concat_pieces(a)
                if not pcs or pcs[0][0] != "lit" or not pcs[0][1].startswith("+"):
                    continue
                if len(pcs) == 1:
                    import re as _re

                    mm = _re.fullmatch(r"\+(-?\d+)\r\n", pcs[0][1])
                    out.append(("const", int(mm.group(1))) if mm else ("other", pcs[0][1]))
                    continue
                if pcs[0][1] != "+" or len(pcs) < 2 or pcs[1][0] != "expr":
                    out.append(("other", norm(a)[:40]))
                    continue
                try:
                    v = ast.parse(pcs[1][1], mode="eval").body
                except SyntaxError:
                    out.append(("other", pcs[1][1][:40]))
                    continue
                cv = const_value(prog, v, fn, P)
                if cv is not NOCONST and isinstance(cv, int):
                    out.append(("const", cv))
                elif isinstance(v, ast.Call) and isinstance(v.func, ast.Attribute) and v.func.attr == "getsize":
                    d0 = const_value(prog, v.args[0], fn, P) if v.args else None
                    out.append(("size", d0 if d0 is not NOCONST else "?"))
                elif isinstance(v, ast.Attribute) and v.attr == "size":
                    out.append(("size", None))
                else:
                    out.append(("other", pcs[1][1][:40]))
            return out

        w = Walker(prog, ctx.resolver, call_value=_isdir(TRUTHY), inline=_driver)
        problems = set()
        for p in w.run(h, P):
            for kind, v in length_lines(p):
                if kind == "size":
                    problems.add("a generated menu is announced with the entry's size instead of the unknown-length marker")
                elif kind == "other":
                    problems.add(f"a length line announces `{v}`")
        w2 = Walker(prog, ctx.resolver, call_value=_isdir(FALSY), inline=_driver)
        sized = False
        for p in w2.run(h, P):
            for kind, v in length_lines(p):
                if kind == "size":
                    sized = True
                    if v not in (-1, -2):
                        problems.add("an unknown size is not rendered as the unknown-length marker (-1/-2)")
                elif kind == "other":
                    problems.add(f"a length line announces `{v}`")
        if not sized:
            problems.add("documents are never announced with their length")
        rep.add(rule, f"{h.qualname}: length line (menus: unknown marker; documents: entry size or marker)", not problems, ctx.where(h),
                "; ".join(sorted(problems)), key=f"{rule}|{h.qualname}|" + ";".join(sorted(problems)))


# ------------------------------------------------------------------- R04f
def _config_key(node, func, defs=None):
    """Option name when `node` is derived from config.get('pygopherd', <name>) through locals,
    eval(), str methods, list()/dict() or a filtering comprehension; None otherwise."""
    from ..facts import expand_ast

    e = expand_ast(node, func, defs)
    for _ in range(8):
        if isinstance(e, ast.Call) and isinstance(e.func, ast.Attribute) and e.func.attr in ("get", "getboolean", "getint") \
                and len(e.args) >= 2 and isinstance(e.args[0], ast.Constant) and e.args[0].value == "pygopherd" \
                and isinstance(e.args[1], ast.Constant) and "config" in norm(e.func.value):
            return e.args[1].value
        if isinstance(e, ast.Call) and isinstance(e.func, ast.Name) and e.func.id in ("eval", "list", "dict", "tuple", "sorted") and e.args:
            e = e.args[0]
        elif isinstance(e, ast.Call) and isinstance(e.func, ast.Attribute) and e.func.attr == "literal_eval" and e.args:
            e = e.args[0]
        elif isinstance(e, ast.Call) and isinstance(e.func, ast.Attribute) and e.func.attr in ("split", "strip", "items"):
            e = e.func.value
        elif isinstance(e, (ast.ListComp, ast.GeneratorExp)) and len(e.generators) == 1 and norm(e.elt) == norm(e.generators[0].target):
            e = e.generators[0].iter
        else:
            return None
    return None


def mime_table_obligations(ctx, rep, rule):
    """The MIME tables are the configured ones: init_mimetypes() empties the encodings table before
    storing the configured pairs, stores nothing else in it, loads the configured type files, and is
    run by the start-up sequence."""
    from ..structure import module_func

    prog = ctx.prog
    f = next((x for x in prog.all_functions() if x.qualname == "initialization.init_mimetypes"), None)
    if f is None:
        rep.fail(rule, "initialization.init_mimetypes", detail="MIME table initialisation not found")
        return
    rep.analysed(f.qualname)
    TABLE = "mimetypes.encodings_map"
    w = Walker(prog, ctx.resolver)
    problems = set()
    n_ok = 0
    for p in w.run(f, None):
        if p.kind == "raise":
            continue
        cleared = False
        stored = False
        inited = False
        for e in p.events:
            n = e.node
            if e.kind == "call" and isinstance(n.func, ast.Attribute):
                recv = norm(n.func.value)
                if recv == TABLE and n.func.attr == "clear":
                    cleared = True
                elif recv == TABLE and n.func.attr in ("update", "setdefault", "__setitem__"):
                    if not cleared:
                        problems.add("configured encodings are stored without the built-in table having been emptied first")
                    src = n.args[0] if n.args else None
                    if src is None or _config_key(src, f, e.defs) != "encoding":
                        problems.add(f"`{norm(n)[:60]}` stores something other than the configured `encoding` pairs")
                    stored = True
                elif norm(n.func) == "mimetypes.init":
                    inited = True
                    if not (n.args and _config_key(n.args[0], f, e.defs) == "mimetypes"):
                        problems.add("mimetypes.init() is not given the configured `mimetypes` files")
                    if any(k.arg is None or k.arg == "files" for k in n.keywords) and not n.args:
                        problems.discard("mimetypes.init() is not given the configured `mimetypes` files")
                        kw = next((k.value for k in n.keywords if k.arg == "files"), None)
                        if kw is None or _config_key(kw, f, e.defs) != "mimetypes":
                            problems.add("mimetypes.init() is not given the configured `mimetypes` files")
            if e.kind == "assign" and isinstance(n, ast.Assign):
                for t in n.targets:
                    if isinstance(t, ast.Subscript) and norm(t.value) == TABLE:
                        stored = True
                        if not cleared:
                            problems.add("configured encodings are stored without the built-in table having been emptied first")
                        # the stored pair comes from iterating the configured value
                        loop = next((l for l in ast.walk(f.node) if isinstance(l, ast.For) and any(x is n for x in ast.walk(l))), None)
                        names = {x.id for x in ast.walk(loop.target) if isinstance(x, ast.Name)} if loop is not None else set()
                        used = {x.id for x in ast.walk(n) if isinstance(x, ast.Name) and isinstance(x.ctx, ast.Load)} - {"mimetypes"}
                        if loop is None or not used <= names or _config_key(loop.iter, f, e.defs) != "encoding":
                            problems.add(f"`{norm(n)[:60]}` stores something other than the configured `encoding` pairs")
                    if norm(t) == TABLE:
                        problems.add("the module-level name is rebound; mimetypes looks types up in its own database object, not in that name")
        if not cleared:
            problems.add("a start-up path leaves Python's built-in encodings table in place")
        if not inited:
            problems.add("a start-up path never loads the configured type files")
        n_ok += 1
    if not n_ok:
        problems.add("no completing path")
    rep.add(rule, f"{f.qualname}: encodings table emptied then filled from `encoding`; type files from `mimetypes`", not problems,
            ctx.where(f), "; ".join(sorted(problems)), key=f"{rule}|init_mimetypes")
    # run by start-up
    init = next((x for x in prog.all_functions() if x.qualname == "initialization.initialize"), None)
    called = False
    seen, work = set(), [init] if init is not None else []
    while work and not called:
        g = work.pop()
        if g in seen:
            continue
        seen.add(g)
        for n in ast.walk(g.node):
            if isinstance(n, ast.Name) and isinstance(n.ctx, ast.Load) and n.id == f.name and g.module.functions.get(n.id) is f:
                called = True  # named in the table of start-up steps that initialize() runs
            if isinstance(n, ast.Call):
                t = ctx.resolver.resolve(n, g, None)
                if t.kind == "repo" and f in t.funcs:
                    called = True
                elif t.kind == "repo" and not t.by_name:
                    work.extend(h2 for h2 in t.funcs if h2.module is init.module and h2.cls is None)
    rep.add(rule, "start-up sequence runs init_mimetypes", called, ctx.where(init) if init else "pygopherd/initialization.py",
            "" if called else "initialize() no longer calls init_mimetypes(): the configured tables are never installed", key=f"{rule}|startup")



_MBOX_YES = [b"From jgoerzen@complete.org Wed Nov 21 13:41:21 2001\n", b"From MAILER-DAEMON Fri Jul  8 12:08:34 2011\n",
             b"From  a@b.c  Mon Jan  1 00:00 2001\r\n", b"From user@host Thu Jan  1 00:00:00 +0000 1970\n"]
_MBOX_NO = [b"From Wikipedia, the free encyclopedia\n", b"From x\n", b"From: a@b.c\n", b"From the desk of Bob, Wed Nov 21 2001\n", b"Hello\n", b"",
            b"from a@b Wed Nov 21 13:41:21 2001\n", b" From a@b Wed Nov 21 13:41:21 2001\n", b"From a@b Wed Nov 21 2001\n",
            b"X-From a@b Wed Nov 21 13:41:21 2001\n", b"From a@b Wed Nov 21 13:41:21 2001 and more text follows here\n", b"\x7fELF From a\n"]


def mailbox_sniff_obligations(ctx, rep, rule):
    """A file is taken for a mailbox - and served as a menu instead of its bytes - only when its first line is an mbox envelope line
    (`From <sender> <weekday> <month> <day> <time> [<zone>] <year>`): the handler's test is evaluated on first lines."""
    from ..paths import Const, PathLimit, Walker, truth

    prog = ctx.prog
    C = ctx.cls("handlers.mbox.MBoxFolderHandler")
    can = prog.resolve_method(C, "canhandlerequest") if C else None
    if can is None:
        rep.ok(rule, "no mailbox handler that sniffs file contents", "pygopherd/handlers", "", key=f"{rule}|none", nontrivial=False)
        return
    problems, n = [], 0
    for line, want in [(x, True) for x in _MBOX_YES] + [(x, False) for x in _MBOX_NO]:
        def cv(call, target, st, _l=line):
            f = call.func
            if isinstance(f, ast.Attribute) and f.attr in ("readline", "peek"):
                return Const(_l)
            if isinstance(f, ast.Attribute) and f.attr == "read":
                return Const(_l)
            return None

        w = Walker(prog, ctx.resolver, call_value=cv, exact_loops=True, unroll=4, max_paths=2000,
                   inline=lambda fn, t, d: d < 2 and (t.bound_cls is not None or fn.module is can.module) and fn.name not in ("getselector",))
        yes = no = unk = 0
        try:
            for p in w.run(can, C):
                if p.kind != "return":
                    continue
                t = truth(p.value) if p.value is not None else False
                if t is True:
                    yes += 1
                elif t is False:
                    no += 1
                else:
                    unk += 1
        except PathLimit:
            continue
        if unk:
            continue
        n += 1
        if want and not yes:
            problems.append(f"a file that starts with the envelope line {line!r} is not taken for a mailbox")
        if not want and yes:
            problems.append(f"a file whose first line is {line!r} is taken for a mailbox: it is answered with a menu instead of its bytes")
    total = len(_MBOX_YES) + len(_MBOX_NO)
    rep.add(rule, f"{can.qualname}: which first lines make a file a mailbox [{n} of {total} evaluated]", not problems and n >= total // 2, ctx.where(can),
            "; ".join(problems[:2]) if problems else ("" if n >= total // 2 else "the walker could not follow the test"), key=f"{rule}|mbox", nontrivial=n > 0)


def check(ctx, rep):
    prog = ctx.prog
    eff = Effects(prog, ctx.resolver)
    rep.rule("R04g", "= R05g: each URL-based protocol maps a request target to the selector it names, whatever reserved characters the name contains", floor=3)
    rep.rule("R04f", "MIME tables are the configured ones: encodings table emptied then filled from `encoding`, type files from `mimetypes`, run at start-up", floor=2)
    mime_table_obligations(ctx, rep, "R04f")
    from .c05 import request_target_evaluation

    request_target_evaluation(ctx, rep, "R04g")
    from .c05 import request_length_obligations

    rep.rule("R04h", "= R05i: the request line is read and used whole (a cut request names a different object, or loses its Gopher+ / HTTP marker)", floor=4)
    request_length_obligations(ctx, rep, "R04h")
    rep.rule("R04i", "the MIME tables are asked about the selector (a path starting with '/'), never about a bare file name: "
             "mimetypes.guess_type() reads `word:` at the start of its argument as a URL scheme (data: skips the tables altogether)", floor=1)
    mime_lookup_obligations(ctx, rep, "R04i")
    rep.rule("R04j", "= R14a over the functions that describe an item: the announced length and type are computed from the file as it is now - no "
             "module- or class-level memo of entries survives from an earlier request", floor=1)
    from ..effects import Effects as _Eff4
    from .c14 import shared_state_obligations as _sso
    entry_funcs = set()
    for H_ in ctx.handler_classes():
        for c_ in prog.mro(H_):
            entry_funcs.update(m_ for m_ in c_.methods.values() if m_.name in ("getentry", "canhandlerequest", "prepare", "write"))
    ge_ = ctx.cls("gopherentry.GopherEntry")
    if ge_ is not None:
        entry_funcs.update(m_ for m_ in ge_.methods.values() if m_.name.startswith(("populate", "handleeaext", "get", "set")))
    n_before_ = len(rep.obligations)
    _sso(ctx, rep, "R04j", _Eff4(prog, ctx.resolver), entry_funcs, sequential=True)
    if len(rep.obligations) == n_before_:
        rep.ok("R04j", f"no module- or class-level state is written while an item is described [{len(entry_funcs)} functions]", "pygopherd/handlers", key="R04j|none")
    rep.rule("R04k", "document bytes reach the client through the response file object only (its write()): nothing takes the descriptor below it "
             "(fileno(), os.sendfile, os.write, socket.send*) - under TLS that descriptor is the raw socket and plain text would be written into "
             "the encrypted stream", floor=1)
    raw_sites = []
    n_writers = 0
    for f_ in prog.all_functions():
        if not (f_.module.name.startswith("pygopherd.handlers") or f_.module.name.startswith("pygopherd.protocols")):
            continue
        if any(p_ in ("wfile", "fd") for p_ in f_.params) or f_.name in ("write", "copyto", "handlerwrite", "writedir"):
            n_writers += 1
        for c_ in ast.walk(f_.node):
            if not isinstance(c_, ast.Call):
                continue
            d_ = dotted(c_.func) or ""
            if d_ in ("os.sendfile", "os.splice", "os.copy_file_range", "os.write", "os.writev") or d_.split(".")[-1] in ("sendfile",):
                raw_sites.append((f_, c_))
            elif isinstance(c_.func, ast.Attribute) and c_.func.attr in ("fileno", "detach") and any(
                    x in norm(c_.func.value) for x in ("wfile", "self.request", "connection")) or (
                    isinstance(c_.func, ast.Attribute) and c_.func.attr == "fileno" and isinstance(c_.func.value, ast.Name) and c_.func.value.id in ("fd", "out", "outfile")
                    and c_.func.value.id in f_.params):
                raw_sites.append((f_, c_))
    for f_, c_ in raw_sites:
        rep.add("R04k", f"{f_.qualname}: {norm(c_)[:60]}", False, ctx.where(f_, c_),
                "the descriptor under the response file is used directly: on a TLS connection that is the raw TCP socket, so what is written there "
                "is not what the client's TLS layer decrypts (and the length announced before it is followed by no readable body)",
                key=f"R04k|{f_.qualname}|{norm(c_.func)}")
    if not raw_sites:
        rep.ok("R04k", f"no writer reaches below the response file object [{n_writers} writer functions]", "pygopherd/handlers", "", key="R04k|none")
    rep.rule("R04m", "= R05m: a WAP request is recognised and then served with the prefix taken off once - the document sent is the one the "
             "target names, GET and HEAD alike", floor=1)
    from .c05 import wap_request_evaluation
    wap_request_evaluation(ctx, rep, "R04m")
    rep.rule("R04l", "a file is served as a mailbox menu only when its first line is an mbox envelope line (sender, weekday, month, day, time, "
             "year): the mailbox handler's test evaluated on 16 first lines - ordinary text that begins with `From ` stays a document", floor=1)
    mailbox_sniff_obligations(ctx, rep, "R04l")
    rep.rule("R04a", "copy loop: 'rb' open in a with; each chunk written once unchanged; loop ends only on an empty read", floor=1)
    rep.rule("R04b", "Gopher+ length: transforming handlers leave size unset; generated menus use the unknown-length marker", floor=5)
    rep.rule("R04c", "HTTP HEAD: no body-producing call reachable; header writes independent of the method", floor=1)
    rep.rule("R04e", "WAP text conversion splits the document at LF only (a binary readline()/split(b'\\n')), so lines map one to one", floor=1)
    rep.rule("R04d", "advertised MIME type: entry type (tables/config/constants) through the protocol's own adjust function", floor=2)
    copy_loop_obligations(ctx, rep, "R04a")
    length_obligations(ctx, rep, "R04b")

    # ------------------------------------------------------------------ R04c
    http = ctx.cls("protocols.http.HTTPProtocol")
    if http is None:
        rep.fail("R04c", "HTTPProtocol", detail="HTTP protocol not found")
    else:
        for P in prog.subclasses(http):
            h = prog.resolve_method(P, "handle")
            if h is None or (not ctx.owns(P, h) and P is not http):
                continue
            rep.analysed(h.qualname)

            def classify(ev):
                n = ev.node
                if not isinstance(n.func, ast.Attribute):
                    return None
                if n.func.attr in BODY_CALLS:
                    return "body"
                if n.func.attr == "write" and (dotted(n.func.value) or "").endswith("handler"):
                    return "body"
                if n.func.attr == "write" and (dotted(n.func.value) or "").endswith("wfile") and n.args:
                    a = n.args[0]
                    text = None
                    av = ((ev.extra or {}).get("args") or [None])[0] if isinstance(ev.extra, dict) else None
                    if av is not None and av.kind == "const" and isinstance(av.value, (bytes, str)):
                        # the value written is known (a constant of the module or class, an element of a constant tuple)
                        text = av.value.decode("latin-1") if isinstance(av.value, bytes) else av.value
                    elif isinstance(a, ast.Constant) and isinstance(a.value, bytes):
                        text = a.value.decode("latin-1")
                    elif isinstance(a, ast.Call) and isinstance(a.func, ast.Attribute) and a.func.attr == "encode":
                        v = a.func.value
                        if isinstance(v, ast.JoinedStr) and v.values and isinstance(v.values[0], ast.Constant):
                            text = str(v.values[0].value)
                        elif isinstance(v, ast.Constant):
                            text = str(v.value)
                        elif isinstance(v, ast.BinOp) and isinstance(v.left, ast.Constant):
                            text = str(v.left.value)
                    if text is not None and text.startswith(HEADER_PREFIXES):
                        return "header"
                    return "body"
                return None

            def run(assume):
                w = Walker(prog, ctx.resolver, assumptions=assume, sticky=set(assume),
                           inline=lambda fn, t, d: d < 2 and t.bound_cls is not None and fn.cls is not None and fn.cls.module is h.module
                           and fn.name not in BODY_CALLS and fn.name not in ("filenotfound", "gethandler", "log", "headerslurp", "renderobjinfo"))
                bodies, headers = [], set()
                for p in w.run(h, P):
                    for e in p.calls():
                        k = classify(e)
                        if k == "body":
                            bodies.append(e)
                        elif k == "header":
                            headers.add((e.lineno, norm(e.node)))
                return bodies, headers
            # the method is a value, not a set of comparison outcomes: locals it is copied to and `in (...)` tests fold too
            head = {"self.requestparts[0]": Const("HEAD")}
            get = {"self.requestparts[0]": Const("GET")}
            hb_, hh = run(head)
            gb_, gh_ = run(get)
            problems = []
            if hb_:
                problems.append(f"a HEAD request reaches a body write: {norm(hb_[0].node)[:60]} (line {hb_[0].lineno})")
            if hh != gh_:
                diff = sorted(hh ^ gh_)
                problems.append(f"HEAD and GET do not send the same header lines: {diff[0][1][:60]}")
            if not gb_:
                problems.append("a GET request never sends a body")
            rep.add("R04c", f"{h.qualname}: HEAD = GET headers, no body", not problems, ctx.where(h), "; ".join(problems),
                    key=f"R04c|{h.qualname}|" + ";".join(p.split(":")[0] for p in problems))
        # error replies: the same holds for what filenotfound() sends
        for P in prog.subclasses(http):
            fnf = prog.resolve_method(P, "filenotfound")
            if fnf is None or (not ctx.owns(P, fnf) and P is not http):
                continue

            def writes(method):
                w = Walker(prog, ctx.resolver, assumptions={"self.requestparts[0]": Const(method)}, sticky={"self.requestparts[0]"},
                           inline=lambda fn, t, d: d < 3 and t.bound_cls is not None and fn.module is fnf.module
                           and fn.name not in ("writedir", "gethandler", "log", "renderobjinfo"))
                out = []
                for p in w.run(fnf, P):
                    hdr, body = [], []
                    for e in p.calls():
                        n = e.node
                        if isinstance(n.func, ast.Attribute) and n.func.attr == "write" and (dotted(n.func.value) or "").endswith("wfile") and n.args:
                            a = n.args[0]
                            text = a.value.decode("latin-1") if isinstance(a, ast.Constant) and isinstance(a.value, bytes) else None
                            (hdr if text is not None and text.startswith(HEADER_PREFIXES) and not body else body).append(norm(n)[:60])
                    out.append((tuple(hdr), tuple(body)))
                return out
            hd, gt = writes("HEAD"), writes("GET")
            problems = []
            if any(b for _, b in hd):
                problems.append(f"the error reply to a HEAD request carries a body: {[b for _, b in hd if b][0][0]}")
            if {h_ for h_, _ in hd} != {h_ for h_, _ in gt}:
                problems.append("HEAD and GET error replies do not send the same header lines")
            if not any(b for _, b in gt):
                problems.append("the error reply to a GET request has no body")
            rep.add("R04c", f"{fnf.qualname}: error reply, HEAD = GET headers, no body", not problems, ctx.where(fnf), "; ".join(problems),
                    key=f"R04c|{fnf.qualname}")

    # ------------------------------------------------------------------ R04e
    wap = ctx.cls("protocols.wap.WAPProtocol")
    hw = prog.resolve_method(wap, "handlerwrite") if wap else None
    if hw is None:
        rep.fail("R04e", "WAPProtocol.handlerwrite", detail="WAP text conversion not found")
    else:
        from ..facts import expand_ast as _ea
        from ..structure import helper_calls

        problems = []
        n_split = 0
        funcs = [hw] + [g for g, _, _, _ in helper_calls(prog, ctx.resolver, hw, wap, depth=2)]
        # module-level helpers (generators) that are handed the buffer: their parameter is the buffer
        preset = {}
        hw_bufs = {t.id for d in ast.walk(hw.node) if isinstance(d, ast.Assign) and isinstance(d.value, ast.Call)
                   and (dotted(d.value.func) or "").split(".")[-1] == "BytesIO" for t in d.targets if isinstance(t, ast.Name)}
        for c_ in ast.walk(hw.node):
            if isinstance(c_, ast.Call) and any(isinstance(a_, ast.Name) and a_.id in hw_bufs for a_ in c_.args):
                t_ = ctx.resolver.resolve(c_, hw, wap)
                if t_ is not None and t_.kind == "repo" and len(t_.funcs) == 1 and t_.funcs[0] is not None and t_.funcs[0].cls is None:
                    g_ = t_.funcs[0]
                    for p_, a_ in zip(g_.params, c_.args):
                        if isinstance(a_, ast.Name) and a_.id in hw_bufs:
                            preset.setdefault(g_, set()).add(p_)
                    if g_ not in funcs:
                        funcs.append(g_)
        for fn in funcs:
            # binary buffers: locals assigned from io.BytesIO()
            bufs = set(preset.get(fn, ()))
            for d in ast.walk(fn.node):
                if isinstance(d, ast.Assign) and isinstance(d.value, ast.Call) and (dotted(d.value.func) or "").split(".")[-1] == "BytesIO":
                    bufs.update(t.id for t in d.targets if isinstance(t, ast.Name))
            if not bufs:
                continue

            from ..facts import single_defs as _sd

            defs_nobuf = {k: v for k, v in _sd(fn).items() if k not in bufs}

            def _ea(expr, _fn=None, _d=defs_nobuf):
                from ..facts import expand_ast as _x

                return _x(expr, fn, _d) if _d else expr

            def from_buf(expr):
                e = _ea(expr, fn)
                return any(isinstance(x, ast.Name) and x.id in bufs for x in ast.walk(e))

            for n in ast.walk(fn.node):
                if isinstance(n, ast.Call) and isinstance(n.func, ast.Attribute):
                    a = n.func.attr
                    recv = n.func.value
                    if a == "splitlines" and from_buf(recv):
                        n_split += 1
                        problems.append(f"`{norm(n)[:50]}` also breaks lines at CR, VT, FF, FS/GS/RS, NEL, U+2028/9 and drops them: one document line becomes several WML lines")
                    elif a in ("split", "rsplit") and from_buf(recv) and not (isinstance(recv, ast.Name) and recv.id in bufs):
                        if n.args and isinstance(n.args[0], ast.Constant) and n.args[0].value in ("\n", b"\n") and len(n.args) == 1:
                            n_split += 1
                        elif not n.args:
                            problems.append(f"`{norm(n)[:50]}` splits the document at arbitrary whitespace")
                        elif isinstance(n.args[0], ast.Constant) and n.args[0].value in ("\r\n", b"\r\n", "\r", b"\r"):
                            problems.append(f"`{norm(n)[:50]}` splits the document at something other than LF")
                    elif a in ("readline", "readlines") and not n.args:
                        if isinstance(recv, ast.Name) and recv.id in bufs:
                            n_split += 1
                        elif from_buf(recv) or isinstance(recv, ast.Name):
                            n_split += 1
                            problems.append(f"lines are read from `{norm(_ea(recv, fn))[:40]}`, not from the binary BytesIO buffer (newline translation would merge/split lines)")
                if isinstance(n, (ast.For, ast.comprehension)) and isinstance(n.iter, ast.Name):
                    if n.iter.id in bufs:
                        n_split += 1  # iterating a binary buffer yields LF-terminated lines
                    elif from_buf(n.iter) and isinstance(_ea(n.iter, fn), ast.Call) and isinstance(_ea(n.iter, fn).func, ast.Attribute) \
                            and _ea(n.iter, fn).func.attr not in ("split", "rsplit", "splitlines", "readlines") and "Wrapper" in norm(_ea(n.iter, fn)):
                        n_split += 1
                        problems.append(f"lines are iterated from `{norm(_ea(n.iter, fn))[:40]}`, a text wrapper (newline translation would merge/split lines)")
        if n_split == 0:
            problems.append("no LF-based line iteration found in the text conversion")
        rep.add("R04e", f"{hw.qualname}: lines split at LF only", not problems, ctx.where(hw), "; ".join(sorted(set(problems))), key="R04e|handlerwrite")

    # ------------------------------------------------------------------ R04d
    pb = ctx.cls("protocols.base.BaseGopherProtocol")
    hb = ctx.cls("handlers.base.BaseHandler")
    ge = ctx.cls("gopherentry.GopherEntry")
    dom = MarkupDomain(prog, pb, hb, ge)
    eng = Engine(prog, ctx.resolver, dom, max_depth=8)
    if ge is not None:
        eng.field_classes = [ge]
    for fld in ("mimetype", "encodedmimetype"):
        v = eng.field(fld)
        bad = set(v) - {"CONST", "CONFIG", "TABLE", "OBJ", "INT"}
        rep.add("R04d", f"entry.{fld} provenance", not bad, "pygopherd/gopherentry.py",
                f"the entry's {fld} can hold {sorted(bad)} data (it is advertised to clients as the content type)" if bad else f"{sorted(v)}",
                key=f"R04d|field|{fld}")
    advertised_type_obligations(ctx, rep, "R04d")



def advertised_type_obligations(ctx, rep, rule="R04d"):
    """On every path of each protocol's handle() the advertised type is adjust(self.entry.getmimetype())."""
    prog = ctx.prog
    for P in ctx.protocol_classes():
        h = prog.resolve_method(P, "handle")
        if h is None or not ctx.owns(P, h):
            continue
        from ..facts import expand_ast as _xa2

        # every path of handle() (helpers of the protocol's own module walked with it): what is handed to the adjust function
        wk = Walker(prog, ctx.resolver, merge_loops=True,
                    inline=lambda fn, t, d: d < 3 and t.bound_cls is not None and fn.module is h.module
                    and fn.name not in ("adjustmimetype", "adjust_mimetype", "writedir", "gethandler", "filenotfound", "log", "renderobjinfo", "headerslurp", "write_status"))
        problems = []
        n_adj = 0
        seen_src = set()
        for pth in wk.run(h, P):
            for e in pth.events:
                if e.kind == "call" and isinstance(e.node.func, ast.Attribute) and e.node.func.attr in ("adjustmimetype", "adjust_mimetype"):
                    n_adj += 1
                    a = e.node
                    fn = e.frame[0] if e.frame and e.frame[0] is not None else h
                    if dotted(a.func.value) != "self":
                        problems.append("the MIME type is adjusted by another object's function")
                    src = _xa2(a.args[0], fn, e.defs) if (a.args and e.defs) else (a.args[0] if a.args else None)
                    txt = norm(src) if src is not None else "?"
                    if txt in seen_src:
                        continue
                    seen_src.add(txt)
                    if txt != "self.entry.getmimetype()":
                        problems.append(f"on some path the advertised type is derived from `{txt[:50]}`, not from self.entry.getmimetype() "
                                        "(the other protocols advertise the entry's own type for the same selector)")
        if not n_adj:
            continue
        # the adjusted value is what gets advertised
        rep.add(rule, f"{h.qualname}: advertised type = adjust(entry.getmimetype())", not problems, ctx.where(h), "; ".join(sorted(set(problems))),
                key=f"{rule}|{h.qualname}")


# ---------------------------------------------------------------------------------------------- R04i
def mime_lookup_obligations(ctx, rep, rule="R04i"):
    """Every call of mimetypes.guess_type(): the function that makes it is walked as an evaluator with the selector
    '/docs/data:chart.gif' (parameters that look like a selector and self.selector); the text handed to guess_type must
    not start like a URL scheme."""
    import re as _re

    from ..paths import Const, PathLimit, Walker

    prog = ctx.prog
    REP = "/docs/data:chart.gif"
    scheme = _re.compile(r"^[^/:]+:")
    n = 0
    for f in prog.all_functions():
        if not f.module.name.startswith("pygopherd") or ".tests" in f.module.name or f.module.name.endswith("testutil"):
            continue
        calls = [c for c in ast.walk(f.node) if isinstance(c, ast.Call)
                 and (ctx.resolver.resolve(c, f, f.cls).name or "") in ("mimetypes.guess_type", "mimetypes.guess_extension", "mimetypes.MimeTypes.guess_type")
                 and (ctx.resolver.resolve(c, f, f.cls).name or "").endswith("guess_type")]
        for call in calls:
            n += 1
            seen = []
            holder = {}

            def cv(c_, target, st, _call=call, _seen=seen):
                if c_ is _call:
                    a = holder["w"].cur_args or []
                    _seen.append(a[0].value if a and a[0].kind == "const" and isinstance(a[0].value, str) else None)
                    return Const((None, None))
                return None

            facts = {"self.selector": Const(REP)}
            env = {p_: Const(REP) for p_ in f.params if any(k in p_.lower() for k in ("selector", "path", "name", "file"))}
            w = Walker(prog, ctx.resolver, call_value=cv, assumptions=dict(facts), sticky=set(facts), exact_loops=True, unroll=2, max_paths=20000,
                       inline=lambda fn, t, d: d < 3 and (t.bound_cls is not None or fn.module is f.module) and fn.name != "handleeaext")
            holder["w"] = w
            try:
                list(w.run(f, f.cls, env=env, facts=dict(facts)))
            except PathLimit:
                if not seen:
                    seen.append(None)  # (otherwise: what the walked part of the paths handed over is judged)
            texts = [x for x in seen if x is not None]
            bad = [x for x in texts if scheme.match(x)]
            if not texts or None in seen:
                # not followed: the argument itself has to be the selector
                a0 = norm(call.args[0]) if call.args else ""
                ok = a0 in ("self.selector", "self.getselector()", "selector") or a0 in f.params
                rep.add(rule, f"{f.qualname}: {norm(call)[:60]}", ok, ctx.where(f, call),
                        "" if ok else f"what is looked up in the MIME tables (`{a0[:40]}`) could not be followed to the selector", key=f"{rule}|{f.qualname}|{norm(call.func)}")
                continue
            rep.add(rule, f"{f.qualname}: {norm(call)[:60]}", not bad, ctx.where(f, call),
                    "" if not bad else f"for the file {REP!r} the tables are asked about {bad[0]!r}: guess_type() takes `data:` for a URL scheme and answers "
                    "text/plain whatever the extension (other words before a colon are cut off as a scheme too)", key=f"{rule}|{f.qualname}|{norm(call.func)}")
    if not n:
        rep.fail(rule, "mimetypes.guess_type", detail="no look-up in the MIME tables found")
