"""C12  One unservable entry never takes down its directory.

R12a  per-entry containment: in every loop over directory entries of the DirHandler
      family, each call that may raise FileNotFound (reaches the handler multiplexer)
      or OSError (reaches a raising VFS operation) is enclosed - inside the loop body -
      by a try catching that class whose handler lets the loop go on
R12c  names from the content tree are opened for reading only after they were shown to be regular
      files (a FIFO blocks the open for ever)
R12b  a failed stat is absorbed (pre-stat in getHandler, re-stat in Virtual.__init__)
      and no handler test dereferences a missing stat result
"""

from __future__ import annotations

import ast

from ..effects import Effects
from ..facts import collect_site_paths, expand
from ..loader import dotted, norm
from ..paths import FALSY, Const, Walker, truth
from ..structure import ancestors, catches, enclosing, enclosing_loops, enclosing_tries

RAISING_VFS = {"stat", "open", "listdir", "copyto", "unlink"}


def may_raise(ctx, eff, func, concrete, call, target, _memo={}, raw=False):
    """Exception classes ('FileNotFound', 'OSError') a call may raise, through the call graph."""
    out = set()
    gh = ctx.func("handlers.HandlerMultiplexer.getHandler")

    def visit(f, C, seen):
        key = (f, C)
        if key in seen:
            return
        seen.add(key)
        for c2, t2 in eff.calls_of(f, C):
            classify(c2, t2, f, C, seen)

    def classify(c, t, f, C, seen, top=False):
        if t.kind == "repo" and gh is not None and gh in t.funcs:
            for exc in ("FileNotFound", "OSError"):
                if top or raw or not any(catches(h, exc) for tr in enclosing_tries(f.node, c) for h in tr.handlers):
                    out.add(exc)
            return
        if eff.is_vfs_call(t):
            if t.funcs[0].name in RAISING_VFS:
                # inside a try in the callee that catches OSError?  (e.g. handleeaext)
                if top or raw or not any(catches(h, "OSError") for tr in enclosing_tries(f.node, c) for h in tr.handlers):
                    out.add("OSError")
            return
        if t.kind == "ext":
            from ..effects import direct_effects

            if any(e.startswith("FS_") for e in direct_effects(c, t)):
                if top or raw or not any(catches(h, "OSError") for tr in enclosing_tries(f.node, c) for h in tr.handlers):
                    out.add("OSError")
            return
        if t.kind in ("repo", "ctor") and not t.by_name:
            guarded_fnf = (not top) and not raw and any(catches(h, "FileNotFound") for tr in enclosing_tries(f.node, c) for h in tr.handlers)
            guarded_os = (not top) and not raw and any(catches(h, "OSError") for tr in enclosing_tries(f.node, c) for h in tr.handlers)
            before = set(out)
            for callee in t.funcs:
                if callee is not None:
                    visit(callee, t.bound_cls if t.bound_cls is not None else callee.cls, seen)
            added = out - before
            if guarded_fnf:
                added.discard("FileNotFound")
            if guarded_os:
                added.discard("OSError")
            out.clear()
            out.update(before | added)

    classify(call, target, func, concrete, set(), top=True)
    return out


def entry_loops(func):
    """Loops over directory entries (for statements and comprehensions): the iterable derives from listdir(), or is a
    collection the handler keeps about its entries (an attribute of self: self.files, self.fileentries, a list of link
    files noted during the walk, ...), possibly wrapped in sorted()/list()/enumerate()/reversed()."""
    def per_entry(it) -> bool:
        text = expand(it, func)
        if "listdir(" in text or "dirfiles" in text:
            return True
        e = it
        for _ in range(3):
            if isinstance(e, ast.Call) and (dotted(e.func) or "") in ("sorted", "list", "tuple", "enumerate", "reversed", "iter") and e.args:
                e = e.args[0]
        if isinstance(e, ast.Attribute) and dotted(e.value) == "self" and e.attr not in ("config", "vfs", "protocol", "entry", "mbox", "zip"):
            return True
        return False

    loops = []
    for n in ast.walk(func.node):
        if isinstance(n, ast.For):
            if per_entry(n.iter):
                loops.append(n)
        elif isinstance(n, (ast.ListComp, ast.SetComp, ast.GeneratorExp, ast.DictComp)):
            for g in n.generators:
                if per_entry(g.iter):
                    loops.append(n)
                    break
    return loops


LIST_MUTATORS = {"append", "extend", "insert", "remove", "pop", "sort", "reverse", "clear"}


def _inplace(prog, func, concrete, _seen=None):
    """self attributes a method (transitively via self-calls) changes in place."""
    _seen = _seen if _seen is not None else set()
    if (func, concrete) in _seen:
        return set()
    _seen.add((func, concrete))
    out = set()
    for n in ast.walk(func.node):
        if isinstance(n, ast.Call) and isinstance(n.func, ast.Attribute):
            if n.func.attr in LIST_MUTATORS and (dotted(n.func.value) or "").startswith("self."):
                out.add(dotted(n.func.value))
            rd = dotted(n.func.value)
            callee = None
            if rd == "self":
                callee = prog.resolve_method(concrete, n.func.attr)
            elif rd == "super()" and func.cls is not None:
                callee = prog.resolve_method(concrete, n.func.attr, after=func.cls)
            if callee is not None:
                out |= _inplace(prog, callee, concrete, _seen)
        if isinstance(n, ast.Delete):
            for t in n.targets:
                if isinstance(t, ast.Subscript) and (dotted(t.value) or "").startswith("self."):
                    out.add(dotted(t.value))
    return out



_NF_SELECTORS = ["/plain.txt", "/100%.txt", "/a%sb", "/%(x)s.txt", "/50% off/{0}", "/%%", "/x%"]


def notfound_text_obligations(ctx, rep, rule):
    """str() of a FileNotFound is total and quotes the selector as it is: evaluated for selectors with format characters,
    with and without a comment."""
    from ..paths import Const, PathLimit, Walker

    prog = ctx.prog
    fnf = ctx.cls("GopherExceptions.FileNotFound")
    st = prog.resolve_method(fnf, "__str__") if fnf else None
    if fnf is None:
        rep.fail(rule, "GopherExceptions.FileNotFound", detail="not-found exception class not found")
        return
    if st is None:
        rep.ok(rule, "FileNotFound has no __str__ of its own (Exception's is total)", ctx.where(fnf), "", key=f"{rule}|str", nontrivial=False)
        return
    problems, n = [], 0
    for sel in _NF_SELECTORS:
        for com in ("", "no handler found"):
            w = Walker(prog, ctx.resolver, exact_loops=True, unroll=4, max_paths=300,
                       inline=lambda fn, t, d: d < 2 and fn.module.name.startswith("pygopherd"))
            outs = set()
            try:
                for p in w.run(st, fnf, facts={"self.selector": Const(sel), "self.comments": Const(com), "self.protocol": Const(None)}):
                    if p.kind == "raise":
                        outs.add(("raise", str(p.value)))
                    elif p.kind == "return" and p.value is not None and p.value.kind == "const" and isinstance(p.value.value, str):
                        outs.add(("val", p.value.value))
                    else:
                        outs.add(("?", ""))
            except PathLimit:
                outs = {("?", "")}
            if len(outs) != 1 or next(iter(outs))[0] == "?":
                continue
            n += 1
            kind, val = next(iter(outs))
            if kind == "raise":
                problems.append(f"str(FileNotFound({sel!r}, {com!r})) raises {val}")
            elif sel not in val or (com and com not in val):
                problems.append(f"str(FileNotFound({sel!r}, {com!r})) is {val!r}: the selector is not quoted as it is")
    total = 2 * len(_NF_SELECTORS)
    rep.add(rule, f"{st.qualname}: total, quotes the selector as it is [{n} of {total} evaluated]", not problems and n >= total // 2, ctx.where(st),
            "; ".join(problems[:2]) + ("; the exception is logged - and so formatted - in its own constructor: no error reply is ever written for such a selector"
                                      if problems else "") if problems else ("" if n >= total // 2 else "the walker could not follow the method"),
            key=f"{rule}|str", nontrivial=n > 0)



def unbound_after_try_obligations(ctx, rep, rule):
    """A name first bound inside a try body and read after the try statement is bound on every way out of the handlers: a handler
    that logs and falls through without binding it turns the I/O error it caught into UnboundLocalError - which the per-entry guards
    of a listing (FileNotFound, OSError) do not catch."""
    prog = ctx.prog
    n_try = 0
    found = []

    def ends_normally(body) -> bool:
        if not body:
            return True
        last = body[-1]
        if isinstance(last, (ast.Raise, ast.Return, ast.Continue, ast.Break)):
            return False
        if isinstance(last, ast.If) and last.orelse:
            return ends_normally(last.body) or ends_normally(last.orelse)
        return True

    def stores(nodes):
        out = set()
        for b in nodes:
            for x in ast.walk(b):
                if isinstance(x, ast.Name) and isinstance(x.ctx, ast.Store):
                    out.add(x.id)
                elif isinstance(x, (ast.FunctionDef, ast.ClassDef)):
                    out.add(x.name)
                elif isinstance(x, ast.ExceptHandler) and x.name:
                    out.add(x.name)
        return out

    def scan_block(f, block, bound, outer_after=()):
        """bound: names certainly bound before this block (params + earlier straight-line stores);
        outer_after: statements that run after the enclosing loop / block has been left"""
        nonlocal n_try
        bound = set(bound)
        for i, st in enumerate(block):
            if isinstance(st, ast.Try):
                n_try += 1
                in_body = stores(st.body) - bound
                after = block[i + 1:] + list(outer_after)
                read_after = {x.id for a in after for x in ast.walk(a) if isinstance(x, ast.Name) and isinstance(x.ctx, ast.Load)}
                read_after |= {x.id for a in st.finalbody for x in ast.walk(a) if isinstance(x, ast.Name) and isinstance(x.ctx, ast.Load)} - set()
                for h in st.handlers:
                    if not ends_normally(h.body):
                        continue
                    missing = sorted((in_body & read_after) - stores(h.body) - stores(st.orelse and [] or []))
                    for name in missing:
                        # a later unconditional store before the first read makes it fine
                        first_use = None
                        for a in after:
                            loads = [x for x in ast.walk(a) if isinstance(x, ast.Name) and x.id == name]
                            if loads:
                                first_use = a
                                break
                        if first_use is not None and isinstance(first_use, ast.Assign) and any(isinstance(t, ast.Name) and t.id == name for t in first_use.targets) \
                                and not any(isinstance(x, ast.Name) and x.id == name and isinstance(x.ctx, ast.Load) for x in ast.walk(first_use.value)):
                            continue
                        found.append((f, st, h, name))
                for h in st.handlers:
                    # `except X as name`: the name is deleted when the handler ends - whatever it held before the try is gone too
                    stays = not (h.body and isinstance(h.body[-1], (ast.Raise, ast.Return)))  # `continue` / `break` stay in the function
                    read_later = {x.id for a in after for x in ast.walk(a) if isinstance(x, ast.Name) and isinstance(x.ctx, ast.Load)}
                    if h.name and stays and h.name in (read_after | read_later):
                        first = next((a for a in after if any(isinstance(x, ast.Name) and x.id == h.name for x in ast.walk(a))), None)
                        rebinds = isinstance(first, ast.Assign) and any(isinstance(t, ast.Name) and t.id == h.name for t in first.targets) \
                            and not any(isinstance(x, ast.Name) and x.id == h.name and isinstance(x.ctx, ast.Load) for x in ast.walk(first.value))
                        if not rebinds:
                            found.append((f, st, h, h.name))
                for sub in (st.body, st.orelse, st.finalbody):
                    scan_block(f, sub, bound, after)
                for h in st.handlers:
                    scan_block(f, h.body, bound, after)
                bound |= stores(st.body) & stores([ast.Module(body=h.body, type_ignores=[]) for h in st.handlers if ends_normally(h.body)] or st.body) \
                    if any(ends_normally(h.body) for h in st.handlers) else stores(st.body)
                continue
            for fld in ("body", "orelse", "finalbody"):
                sub = getattr(st, fld, None)
                if isinstance(sub, list) and sub and isinstance(sub[0], ast.stmt) and not isinstance(st, (ast.FunctionDef, ast.AsyncFunctionDef, ast.ClassDef)):
                    scan_block(f, sub, bound, block[i + 1:] + list(outer_after))
            if isinstance(st, (ast.Assign, ast.AnnAssign, ast.AugAssign, ast.Import, ast.ImportFrom, ast.With, ast.For)):
                if isinstance(st, (ast.With, ast.For)):
                    continue
                bound |= stores([st])

    for f in prog.all_functions():
        m = f.module.name
        if not (m.startswith(("pygopherd.handlers", "pygopherd.protocols")) or m in ("pygopherd.gopherentry", "pygopherd.server", "pygopherd.GopherExceptions")):
            continue
        if ".tests" in m:
            continue
        args = f.node.args
        params = {a.arg for a in args.posonlyargs + args.args + args.kwonlyargs} | ({args.vararg.arg} if args.vararg else set()) | ({args.kwarg.arg} if args.kwarg else set())
        scan_block(f, f.node.body, params)
    for f, st, h, name in found:
        rep.add(rule, f"{f.qualname}: `{name}` after the try at line {st.lineno}", False, ctx.where(f, h),
                f"`{name}` is bound only inside the try body; `except {norm(h.type) if h.type is not None else ''}` (line {h.lineno}) completes without binding it and "
                f"the code after the try reads it: the error that was caught comes back as UnboundLocalError, which the per-entry guards of a listing do not catch",
                key=f"{rule}|{f.qualname}|{name}")
    if not found:
        rep.ok(rule, f"every name read after a try statement is bound on all ways out of it [{n_try} try statements]", "pygopherd", "", key=f"{rule}|none")



def empty_sequence_obligations(ctx, rep, rule):
    """A listing in which every entry was skipped is an empty menu, not an error: `max()` / `min()` / `[0]` / `next()` over the
    entry collection need a default or a guard on that same collection (a guard on the list of *names* does not help - names can
    all be dropped as unservable)."""
    prog = ctx.prog
    from ..structure import enclosing

    n = 0
    found = []
    for f in prog.all_functions():
        if not f.module.name.startswith("pygopherd.handlers") or ".tests" in f.module.name:
            continue
        for c in ast.walk(f.node):
            if not (isinstance(c, ast.Call) and dotted(c.func) in ("max", "min") and len(c.args) == 1 and not any(k.arg == "default" for k in c.keywords)):
                continue
            arg = c.args[0]
            srcs = {norm(g.iter) for g in arg.generators} if isinstance(arg, (ast.GeneratorExp, ast.ListComp, ast.SetComp)) else {norm(arg)}
            if isinstance(arg, (ast.Tuple, ast.List)) and arg.elts:
                continue
            n += 1
            guarded = False
            for anc, field in enclosing(f.node, c):
                if isinstance(anc, ast.If) and field == "body" and any(sx in norm(anc.test) for sx in srcs):
                    guarded = True
            # an earlier `if not <same collection>: return`
            for st in ast.walk(f.node):
                if isinstance(st, ast.If) and st.lineno < c.lineno and st.body and isinstance(st.body[-1], (ast.Return, ast.Raise, ast.Continue)) \
                        and any(sx in norm(st.test) for sx in srcs):
                    guarded = True
            for tr in enclosing_tries(f.node, c):
                if any(catches(h, "ValueError") for h in tr.handlers):
                    guarded = True
            if not guarded:
                found.append((f, c, sorted(srcs)))
    for f, c, srcs in found:
        rep.add(rule, f"{f.qualname}: {norm(c)[:60]}", False, ctx.where(f, c),
                f"`{dotted(c.func)}()` of `{srcs[0][:40]}` has no default and no guard on that collection: when every entry of a directory was skipped as "
                "unservable the collection is empty and the ValueError takes the whole listing down", key=f"{rule}|{f.qualname}|{norm(c)[:40]}")
    if not found:
        rep.ok(rule, f"no unguarded max()/min() over a collection in the handlers [{n} sites]", "pygopherd/handlers", "", key=f"{rule}|none", nontrivial=False)


def check(ctx, rep):
    prog = ctx.prog
    eff = Effects(prog, ctx.resolver)
    rep.rule("R12e", "an entry described from the file system is only handed out with its stat result: populatefromvfs() lets a failing stat propagate "
             "(the listing loop leaves that entry out)", floor=1)
    rep.rule("R12d", "a loop over the handler's entry collection does not change that collection (directly or through a hook): no entry is skipped", floor=2)
    rep.rule("R12a", "calls that may raise FileNotFound/OSError inside a per-entry loop are caught inside the loop body and the loop continues", floor=3)
    rep.rule("R12c", "every open() for reading on a name from the content tree is preceded by regular-file evidence (isfile() of the path, or S_ISREG of the stat result for the handler's own selector)", floor=6)
    rep.rule("R12b", "the stat before handler selection is absorbed; no handler test subscripts a missing stat result", floor=8)
    rep.rule("R12f", "the file-system view answers isfile() only for regular files, isdir() only for directories and exists() for whatever "
             "is there; nothing escapes for a missing object: each predicate is evaluated by the walker for every kind of object "
             "(regular file, directory, FIFO, socket, character and block device, missing)", floor=1)
    vfs_predicate_obligations(ctx, rep, "R12f")
    rep.rule("R12g", "when no handler takes a selector, handler selection raises FileNotFound and nothing else: the listing loops catch that class "
             "(and OSError) for the one entry; the statements between the handler loop and the raise contain no operation that can fail "
             "differently (a table looked up with a run-time key, a conversion)", floor=1)
    selection_failure_obligations(ctx, rep, "R12g")
    rep.rule("R12h", "= R20d (totality): a FileNotFound can always be constructed - its constructor logs, and log() writes its line whatever characters "
             "(per cent signs, braces) the selector in the exception text contains; otherwise the per-entry handlers of a listing meet a "
             "TypeError/ValueError they do not catch", floor=1)
    from .c20 import _log_line_evaluation
    lg_ = ctx.func("GopherExceptions.log")
    if lg_ is None:
        rep.fail("R12h", "GopherExceptions.log", detail="log routine not found")
    else:
        texts_ = _log_line_evaluation(ctx, lg_)
        failing_ = [t for t in (texts_ or []) if t.startswith("<log() raises")]
        rep.add("R12h", f"{lg_.qualname}: total on exception texts with format characters", not failing_, ctx.where(lg_),
                "" if not failing_ else f"for an exception text such as `'100%.txt' does not exist` {failing_[0][1:-1]}: the FileNotFound for an entry with such a name "
                "cannot even be constructed, and the error that escapes instead is not one the listing loop catches",
                key="R12h|log-total", nontrivial=texts_ is not None)
    rep.rule("R12k", "an all-unservable directory is an empty menu: max()/min() over a collection of entries has a default or a guard on that "
             "same collection", floor=0)
    empty_sequence_obligations(ctx, rep, "R12k")
    rep.rule("R12j", "a name bound inside a try body and read after it is bound on every way out of the try's handlers (otherwise the caught I/O "
             "error turns into UnboundLocalError, which no per-entry guard catches)", floor=1)
    unbound_after_try_obligations(ctx, rep, "R12j")
    rep.rule("R12i", "= R03l: the text of a FileNotFound can always be built and quotes the selector as it is (evaluated on selectors with per cent "
             "signs and braces): the exception formats itself in its own constructor", floor=1)
    notfound_text_obligations(ctx, rep, "R12i")
    dirbase = ctx.cls("handlers.dir.DirHandler")
    if dirbase is None:
        rep.fail("R12a", "DirHandler", detail="directory handler not found")
        return
    done = set()
    pairs = []
    for C in prog.subclasses(dirbase):
        for c in prog.mro(C):
            for m in c.methods.values():
                if prog.resolve_method(C, m.name) is m:
                    pairs.append((C, m))
    # ... and methods of the file-system view that walk a directory themselves, when a listing calls them
    vfs0 = ctx.cls("handlers.base.VFS_Real")
    called_on_vfs = {n.func.attr for _, m in pairs for n in ast.walk(m.node)
                     if isinstance(n, ast.Call) and isinstance(n.func, ast.Attribute) and norm(n.func.value).endswith("vfs")}
    for V in (prog.subclasses(vfs0) if vfs0 else []):
        for m in V.methods.values():
            if m.name in called_on_vfs and m.name != "listdir" and (V, m) not in pairs:
                pairs.append((V, m))
    if True:
        if True:
            for C, m in pairs:
                for loop in entry_loops(m):
                    rep.analysed(m.qualname)
                    for call, t in eff.calls_of(m, C):
                        # calls inside this loop's body
                        if isinstance(loop, ast.For):
                            if not any(anc is loop and field == "body" for anc, field in enclosing(m.node, call)):
                                continue
                        else:
                            inner = [loop.elt] if hasattr(loop, "elt") else [loop.key, loop.value]
                            for g in loop.generators:
                                inner.extend(g.ifs)
                            if not any(x is call for e in inner for x in ast.walk(e)):
                                continue
                        excs = may_raise(ctx, eff, m, C, call, t)
                        if not excs:
                            if t.kind == "repo" and t.bound_cls is not None and may_raise(ctx, eff, m, C, call, t, raw=True):
                                # what can fail for one entry is caught inside the helper the loop calls
                                rep.ok("R12a", f"{C.name}: {m.qualname}: {norm(call)[:55]}", ctx.where(m, call), "contained inside the helper",
                                       key=f"R12a|{C.name}|{m.qualname}|{norm(call.func)}")
                            continue
                        key = (m, id(call), C if t.bound_cls is not None else None)
                        problems = []
                        for exc in sorted(excs):
                            ok = False
                            for tr in enclosing_tries(m.node, call):
                                # the try must be inside the loop body
                                if not any(anc is loop for anc in ancestors(m.node, tr)):
                                    continue
                                for h in tr.handlers:
                                    if catches(h, exc):
                                        w = Walker(prog, ctx.resolver)
                                        paths = w.run_body(h.body, m, C)
                                        if all(p.kind == "fall" for p in paths) or not paths:
                                            # `break` would end the loop: look for it explicitly
                                            if not any(isinstance(x, (ast.Break, ast.Return, ast.Raise)) for x in ast.walk(h)):
                                                ok = True
                                        break
                                if ok:
                                    break
                            if not ok:
                                problems.append(exc)
                        inst = f"{C.name}: {m.qualname}: {norm(call)[:55]}"
                        rep.add("R12a", inst, not problems, ctx.where(m, call),
                                (f"may raise {problems} for one entry (dangling link, special file, entry removed after enumeration, "
                                 f"name rejected by the security filter) and nothing inside the loop catches it: the whole listing fails")
                                if problems else f"may raise {sorted(excs)}: contained per entry",
                                key=f"R12a|{C.name}|{m.qualname}|{norm(call.func)}")

    # ------------------------------------------------------------------ R12d
    seen_loops = set()
    for C in prog.subclasses(dirbase):
        for c in prog.mro(C):
            for m in c.methods.values():
                if prog.resolve_method(C, m.name) is not m:
                    continue
                for loop in entry_loops(m):
                    if not isinstance(loop, ast.For):
                        continue
                    it = loop.iter
                    if isinstance(it, ast.Call) and (dotted(it.func) or "") in ("enumerate", "reversed", "iter") and it.args:
                        it = it.args[0]
                    coll = dotted(it) if isinstance(it, ast.Attribute) else None
                    if coll is None or not coll.startswith("self."):
                        continue
                    hits = []
                    for st_ in loop.body:
                        for n in ast.walk(st_):
                            if isinstance(n, ast.Call) and isinstance(n.func, ast.Attribute):
                                if n.func.attr in LIST_MUTATORS and dotted(n.func.value) == coll:
                                    hits.append((n, norm(n)[:40]))
                                rd = dotted(n.func.value)
                                callee = None
                                if rd == "self":
                                    callee = prog.resolve_method(C, n.func.attr)
                                elif rd == "super()" and m.cls is not None:
                                    callee = prog.resolve_method(C, n.func.attr, after=m.cls)
                                if callee is not None and coll in _inplace(prog, callee, C):
                                    hits.append((n, f"{norm(n)[:40]} (changes {coll})"))
                            if isinstance(n, ast.Delete) and any(isinstance(t, ast.Subscript) and dotted(t.value) == coll for t in n.targets):
                                hits.append((n, norm(n)[:40]))
                    key = (m.qualname, loop.lineno, C.name if hits else None)
                    if key in seen_loops:
                        continue
                    seen_loops.add(key)
                    rep.add("R12d", f"{C.name}: {m.qualname}: loop over {coll} does not change {coll}", not hits, ctx.where(m, hits[0][0] if hits else loop),
                            f"`{hits[0][1]}` changes the list while it is being walked: the entry after the one handled there is skipped "
                            "(a listing loses a servable entry next to an unservable one)" if hits else "",
                            key=f"R12d|{C.name}|{m.qualname}|{coll}")

    # ------------------------------------------------------------------ R12e
    ge = ctx.cls("gopherentry.GopherEntry")
    pv = prog.resolve_method(ge, "populatefromvfs") if ge else None
    if pv is not None:
        def is_stat(n):
            return isinstance(n, ast.Call) and isinstance(n.func, ast.Attribute) and n.func.attr == "stat" \
                and not (dotted(n.func.value) or "").startswith(("os.path", "self.config"))

        swallowed = []
        n_r = 0

        def scan(fn, nonnull, depth):
            """stat calls of fn (parameters in `nonnull` are known not to be None) and of the self-methods it calls"""
            nonlocal n_r
            for n in ast.walk(fn.node):
                if is_stat(n):
                    # unreachable when it sits under `if <param> is None` / `if not <param>` for a parameter that was passed a value
                    dead = False
                    for anc, field in enclosing(fn.node, n):
                        if isinstance(anc, ast.If) and field == "body":
                            t = norm(anc.test)
                            if any(t in (f"{p_} is None", f"not {p_}", f"{p_} == None") for p_ in nonnull):
                                dead = True
                    if dead:
                        continue
                    n_r += 1
                    for tr in enclosing_tries(fn.node, n):
                        for h in tr.handlers:
                            if catches(h, "OSError") and not any(isinstance(x, ast.Raise) for x in ast.walk(h)):
                                swallowed.append(f"{fn.qualname}: {norm(n)[:40]}")
                if depth < 2 and isinstance(n, ast.Call) and isinstance(n.func, ast.Attribute) and dotted(n.func.value) == "self":
                    callee = prog.resolve_method(ge, n.func.attr)
                    if callee is not None and callee is not fn:
                        params = callee.params[1:]
                        passed = dict(zip(params, n.args))
                        passed.update({k.arg: k.value for k in n.keywords if k.arg})
                        def _val(a_):
                            if isinstance(a_, ast.Name):
                                defs_ = [s_.value for s_ in ast.walk(fn.node) if isinstance(s_, ast.Assign) and any(isinstance(t_, ast.Name) and t_.id == a_.id for t_ in s_.targets)]
                                if len(defs_) == 1:
                                    return defs_[0]
                            return a_
                        nn = {p_ for p_, a_ in passed.items() if is_stat(_val(a_)) or isinstance(_val(a_), (ast.Tuple, ast.List, ast.Dict, ast.JoinedStr))
                              or (isinstance(_val(a_), ast.Constant) and _val(a_).value is not None)}
                        scan(callee, nn, depth + 1)

        scan(pv, set(), 0)
        rep.add("R12e", f"{pv.qualname}: an entry whose stat fails is not handed out", not swallowed and n_r > 0, ctx.where(pv),
                (f"when `{swallowed[0]}` fails the method returns normally: the per-entry handling of the listing never sees the failure, a blank entry "
                 "(no type, no name) goes into the listing and the cache, and the Gopher renderer fails on it" if swallowed else
                 "the method never stats the object it describes"), key=f"R12e|{pv.qualname}")

    # ------------------------------------------------------------------ R12b
    gh = ctx.func("handlers.HandlerMultiplexer.getHandler")
    virt = ctx.cls("handlers.virtual.Virtual")
    targets = []
    if gh is not None:
        targets.append((gh, None))
    if virt is not None and "__init__" in virt.methods:
        targets.append((virt.methods["__init__"], virt))
    for f, C in targets:
        stats = [(c, t) for c, t in eff.calls_of(f, C) if eff.is_vfs_call(t) and t.funcs[0].name == "stat"]
        if not stats:
            rep.ok("R12b", f"{f.qualname}: no pre-stat", ctx.where(f), nontrivial=False)
        for c, t in stats:
            caught = any(catches(h, "OSError") for tr in enclosing_tries(f.node, c) for h in tr.handlers)
            problems = []
            if not caught:
                problems.append("a failing stat (ENOENT/EACCES/dangling link) is not caught: every handler list walk aborts")
            else:
                def rp(call, target, _c=c):
                    return ["OSError"] if call is _c else []
                w = Walker(prog, ctx.resolver, raise_points=rp)
                for p in w.run(f, C):
                    raised = [i for i, e in enumerate(p.events) if e.kind == "raise" and e.extra == "implicit" and e.node is c]
                    if not raised:
                        continue
                    if p.kind == "raise" and str(p.value) == "OSError":
                        problems.append("the OSError of the stat is re-raised")
                    last = None
                    for e in p.events[: raised[0]] + p.events[raised[0]:]:
                        if e.kind == "assign" and isinstance(e.target, str) and e.target in ("statresult", "self.statresult"):
                            last = e
                    if last is not None and not (last.extra is not None and last.extra.kind == "const" and last.extra.value is None):
                        problems.append("after a failed stat the stat result is not None")
            rep.add("R12b", f"{f.qualname}: {norm(c)} absorbed", not problems, ctx.where(f, c), "; ".join(sorted(set(problems))),
                    key=f"R12b|{f.qualname}|stat")
    for H in ctx.handler_classes():
        can = prog.resolve_method(H, "canhandlerequest")
        if can is None:
            continue
        subs = set()
        funcs = [can]
        for n in ast.walk(can.node):
            if isinstance(n, ast.Subscript) and norm(n.value) == "self.statresult":
                subs.add(id(n))
        # inlined parents (FileHandler.canhandlerequest(self) / super()) and helper methods the test calls on self
        for c in prog.mro(H):
            for m in c.methods.values():
                if m.name in ("write", "prepare", "getentry", "getdirlist", "__init__"):
                    continue  # run only after the handler was chosen
                for n in ast.walk(m.node):
                    if isinstance(n, ast.Subscript) and norm(n.value) == "self.statresult":
                        subs.add(id(n))
        if not subs:
            continue
        from ..facts import _WatchWalker

        w = _WatchWalker(prog, ctx.resolver, watch=subs, assumptions={"self.statresult": FALSY},
                         inline=lambda fn, t, d: t.bound_cls is not None or (fn.cls is not None and t.kind == "repo" and not t.by_name
                                                                             and len(t.funcs) == 1 and fn.name == "canhandlerequest"),
                         merge_loops=True)
        try:
            w.run(can, H)
            reached = [nid for nid, s in w.snaps.items() if s]
        except Exception:
            reached = ["?"]
        rep.add("R12b", f"{H.qualname}.canhandlerequest tolerates a missing stat result", not reached, ctx.where(can),
                "self.statresult is subscripted on a path where it is None (entry whose stat failed): TypeError" if reached else "",
                key=f"R12b|{H.qualname}|statresult")
    regular_file_obligations(ctx, rep, "R12c")


# ---------------------------------------------------------------------------- R12c
def _textnorm(t: str) -> str:
    # inside a directory handler selectorbase is the selector (or "" for the root): same file either way
    return t.replace("self.selectorbase", "self.getselector()").replace("self.selector ", "self.getselector() ")


def regular_file_obligations(ctx, rep, rule="R12c"):
    """Opening a FIFO blocks until a writer shows up, and a device or socket is not content either.  Every open()
    for reading that the listing code performs on a name taken from the content tree is preceded by evidence that the
    name is a regular file: an isfile() test of the same path, or an S_ISREG test of the stat result when the path
    is the handler's own selector.  The server's own cache file is exempt."""
    from ..facts import accept_paths
    from ..rules.c03 import _truthy_fact  # noqa: F401

    prog = ctx.prog
    eff = Effects(prog, ctx.resolver)
    hb = ctx.cls("handlers.base.BaseHandler")
    vfsbase = ctx.cls("handlers.base.VFS_Real")
    todo = []
    for H in ctx.handler_classes():
        for c in prog.mro(H):
            for m in c.methods.values():
                if prog.resolve_method(H, m.name) is m:
                    todo.append((m, H))
    ge = ctx.cls("gopherentry.GopherEntry")
    if ge is not None:
        todo.extend((m, ge) for m in ge.methods.values())
    seen_sites = set()
    _callers_cache = {}
    for m, C in todo:
        if vfsbase is not None and m.cls is not None and prog.is_subclass(m.cls, vfsbase):
            continue
        if m.cls is not None and m.cls.name in ("TALLoader", "RecursiveTALLoader"):
            continue
        sites = []
        for call, t in eff.calls_of(m, C):
            if isinstance(call.func, ast.Attribute) and call.func.attr == "open" and eff.is_vfs_call(t) and call.args:
                mode = call.args[1] if len(call.args) > 1 else next((k.value for k in call.keywords if k.arg == "mode"), None)
                if isinstance(mode, ast.Constant) and isinstance(mode.value, str) and not mode.value.startswith("r"):
                    continue
                sites.append(call)
        if not sites:
            continue
        # a helper that is only called by other methods of the class is judged where it is called (walked as part of the
        # caller, so the caller's tests count); it is analysed on its own only when nothing in the class calls it
        root, inline_fn = m, None
        if m.cls is not None:
            cmap = _callers_cache.get(C)
            if cmap is None:
                cmap = {}
                for c2 in prog.mro(C):
                    for m2 in c2.methods.values():
                        if prog.resolve_method(C, m2.name) is not m2:
                            continue
                        for call2, t2 in eff.calls_of(m2, C):
                            if t2.kind == "repo" and t2.bound_cls is not None:
                                for g2 in t2.funcs:
                                    if g2 is not m2:
                                        cmap.setdefault(g2, []).append(m2)
                _callers_cache[C] = cmap
            callers = list(dict.fromkeys(cmap.get(m, [])))
            # (tried only when the method on its own shows no evidence: see `rerooted` below)
            single_caller = callers[0] if len(callers) == 1 and not m.name.startswith("__") \
                and m.name not in ("write", "prepare", "getentry", "canhandlerequest", "getdirlist") else None
        else:
            single_caller = None
        # small predicate helpers of the class (`def _isfoo(self): return a and b and c`) are part of the test they are used in
        def _pred(fn, t, d):
            body = [x for x in fn.node.body if not (isinstance(x, ast.Expr) and isinstance(x.value, ast.Constant))]
            return d < 2 and t.bound_cls is not None and len(body) <= 2 and isinstance(body[-1], ast.Return) and fn.name not in ("getselector", "getentry")
        paths = collect_site_paths(prog, ctx.resolver, m, C, {id(c) for c in sites}, inline=_pred, fork_returns=True)
        rerooted = None
        is_handler = hb is not None and prog.is_subclass(C, hb)
        acc = accept_paths(prog, ctx.resolver, C) if is_handler and m.name not in ("__init__", "canhandlerequest", "isrequestsecure") else None
        for call in sites:
            key = (m, id(call), C if is_handler and acc is not None else None)
            ptxt0 = norm(call.args[0])
            if ptxt0 in ("self.cachename",):
                rep.ok(rule, f"{m.qualname}: {norm(call)[:50]}", ctx.where(m, call), "the server's own cache file", nontrivial=False)
                continue
            def judge(lp):
                problems = []
                if lp is None:
                    problems.append("could not enumerate the paths to this open()")
                for facts, evs, defs in (lp or []):
                    ptxt = _textnorm(expand(call.args[0], m, defs))
                    own_selector = ptxt in ("self.getselector()", "self.selector", "self.selectorreal") or ptxt0 in ("self.getselector()", "self.selector")

                    def evidence(fs):
                        for f in fs:
                            if not f.truth:
                                continue
                            n = f.node
                            ftxt = expand(n, f.func, f.defs)
                            if isinstance(n, ast.Call) and isinstance(n.func, ast.Attribute) and n.func.attr == "isfile" and n.args:
                                atxt = _textnorm(expand(n.args[0], f.func, f.defs))
                                if atxt == ptxt or _textnorm(norm(n.args[0])) == _textnorm(ptxt0):
                                    return True
                            if own_selector and "S_ISREG(" in ftxt and "self.statresult" in ftxt:
                                return True
                        return False

                    if evidence(facts):
                        continue
                    if acc:
                        # accepting paths of the handler's own test that are compatible with what this path has decided
                        local = {}
                        for f in facts:
                            local.setdefault(_textnorm(expand(f.node, f.func, f.defs)), set()).add(bool(f.truth))
                        compatible = []
                        for af, _ in acc:
                            import re as _re

                            kinds = {}
                            for a in af:
                                mm = _re.fullmatch(r"stat\.S_IS(DIR|REG|LNK|FIFO|SOCK|CHR|BLK)\((.*)\)", expand(a.node, a.func, a.defs))
                                if mm and a.truth:
                                    kinds.setdefault(mm.group(2), set()).add(mm.group(1))
                            if any(len(v) > 1 for v in kinds.values()):
                                continue  # a file is of exactly one kind: this combination of outcomes cannot happen
                            clash = any((not bool(a.truth)) in local.get(_textnorm(expand(a.node, a.func, a.defs)), ()) and
                                        bool(a.truth) not in local.get(_textnorm(expand(a.node, a.func, a.defs)), ()) for a in af)
                            if not clash:
                                compatible.append(af)
                        if all(evidence(af) for af in compatible):
                            continue  # (no compatible accepting path: this path cannot be taken by a handler that was chosen)
                    problems.append(f"`{ptxt0}` can be opened without having been shown to be a regular file "
                                    "(a FIFO of that name blocks the request for ever; one such entry makes its directory unlistable)")
                    break
                return problems

            problems = judge(paths.get(id(call)))
            if problems and single_caller is not None:
                # the helper on its own shows no evidence: judge it as part of its only caller
                if rerooted is None:
                    rerooted = collect_site_paths(prog, ctx.resolver, single_caller, C, {id(c) for c in sites}, inline=lambda fn, t, d, _m=m: fn is _m)
                problems = judge(rerooted.get(id(call)))
            owner = f"{C.name}:" if C is not m.cls and m.cls is not None else ""
            rep.add(rule, f"{owner}{m.qualname}: {norm(call)[:50]}", not problems, ctx.where(m, call), "; ".join(problems),
                    key=f"{rule}|{owner}{m.qualname}|{ptxt0}")


# ---------------------------------------------------------------------------------------------- R12f
def vfs_predicate_obligations(ctx, rep, rule="R12f"):
    """VFS_Real.isfile / isdir / exists, evaluated with an operating system that knows one object of a given kind.
    The guards of R12c (`isfile()` before open) rely on the answers: a FIFO or socket that passes for a file blocks or
    fails the listing that opens it."""
    import os as _os
    import stat as _stat

    from ..paths import AVal, PathLimit

    prog = ctx.prog
    real = ctx.cls("handlers.base.VFS_Real")
    if real is None:
        rep.fail(rule, "VFS_Real", detail="file-system view not found")
        return
    kinds = [("a regular file", _stat.S_IFREG | 0o644), ("a directory", _stat.S_IFDIR | 0o755), ("a FIFO", _stat.S_IFIFO | 0o644),
             ("a socket", _stat.S_IFSOCK | 0o755), ("a character device", _stat.S_IFCHR | 0o666), ("a block device", _stat.S_IFBLK | 0o660),
             ("nothing", None), ("a name longer than the file system takes (stat fails with OSError ENAMETOOLONG)", "OSError"),
             ("a name below a directory that may not be searched (stat fails with PermissionError)", "PermissionError")]
    want = {"isfile": lambda m: isinstance(m, int) and _stat.S_ISREG(m), "isdir": lambda m: isinstance(m, int) and _stat.S_ISDIR(m),
            "exists": lambda m: isinstance(m, int)}
    for pred in ("isfile", "isdir", "exists"):
        m_ = prog.resolve_method(real, pred)
        if m_ is None:
            rep.fail(rule, f"VFS_Real.{pred}", detail="predicate not found")
            continue
        rep.analysed(m_.qualname)
        problems, n = [], 0
        for label, mode in kinds:
            def cv(call, target, st, _mode=mode):
                name = target.name if target.kind == "ext" else None
                if name in ("os.path.isfile", "os.path.isdir", "os.path.exists", "os.path.lexists", "os.path.islink"):
                    if _mode is None or isinstance(_mode, str):
                        return Const(False)
                    return Const({"isfile": _stat.S_ISREG(_mode), "isdir": _stat.S_ISDIR(_mode), "exists": True, "lexists": True,
                                  "islink": False}[name.split(".")[-1]])
                if name in ("os.stat", "os.lstat"):
                    if _mode is None:
                        return AVal("raise", "FileNotFoundError")
                    if isinstance(_mode, str):
                        return AVal("raise", _mode)
                    return Const(_os.stat_result((_mode, 7, 1, 1, 0, 0, 5, 0, 0, 0)))
                if name in ("os.fsencode", "os.fsdecode", "os.path.join", "os.path.normpath", "os.path.abspath") or \
                        (isinstance(call.func, ast.Attribute) and call.func.attr == "getfspath"):
                    return Const("<the path>")
                return None

            w = Walker(prog, ctx.resolver, call_value=cv, exact_loops=True, unroll=4, max_paths=5000,
                       inline=lambda fn, t, d: d < 5 and (t.bound_cls is not None or fn.module is real.module))
            env = {p_: Const("/some/name") for p_ in m_.params[1:2]}
            try:
                outs = set()
                for p in w.run(m_, real, env=env):
                    if p.kind == "raise":
                        outs.add("raises " + str(p.value))
                    elif p.kind == "return" and p.value is not None and truth(p.value) is not None and p.value.kind == "const":
                        outs.add(bool(p.value.value))
                    elif p.kind == "fall":
                        outs.add(False)
                    else:
                        outs.add("?")
            except (PathLimit, RecursionError):
                outs = {"?"}
            if "?" in outs or len(outs) != 1:
                continue
            n += 1
            got = next(iter(outs))
            if got is not bool(want[pred](mode)):
                problems.append(f"{pred}() of {label} " + (got if isinstance(got, str) else f"is {got}"))
        rep.add(rule, f"{m_.qualname}: answers by kind of object [{n} of {len(kinds)} kinds evaluated]", not problems and n >= 4, ctx.where(m_),
                "; ".join(problems[:3]) if problems else ("" if n >= 4 else f"the walker could follow the predicate for {n} kinds only"),
                key=f"{rule}|{pred}", nontrivial=n >= 4)


# ---------------------------------------------------------------------------------------------- R12g
def selection_failure_obligations(ctx, rep, rule="R12g"):
    prog = ctx.prog
    gh = ctx.func("handlers.HandlerMultiplexer.getHandler")
    if gh is None:
        rep.fail(rule, "HandlerMultiplexer.getHandler", detail="handler selection not found")
        return
    # the function that holds the handler loop: getHandler itself or a helper of its module it hands over to
    cands = [gh]
    for n in ast.walk(gh.node):
        if isinstance(n, ast.Call):
            t = ctx.resolver.resolve(n, gh, None)
            if t.kind == "repo" and len(t.funcs) == 1 and t.funcs[0] is not None and t.funcs[0].module is gh.module and t.funcs[0] not in cands:
                cands.append(t.funcs[0])
    holder_f, loop = None, None
    for f_ in cands:
        for i, st in enumerate(f_.node.body):
            if isinstance(st, (ast.For, ast.While)) and any(isinstance(c, ast.Call) and isinstance(c.func, ast.Attribute) and c.func.attr == "isrequestforme"
                                                            for c in ast.walk(st)):
                holder_f, loop = f_, i
    if holder_f is not None:
        gh_ = holder_f
        body = gh_.node.body
        tail = list(body[loop].orelse) + list(body[loop + 1:])
        if holder_f is not gh:
            # ... and whatever getHandler does after the helper came back without a handler (nothing, when it returns the call)
            for i, st in enumerate(gh.node.body):
                if any(isinstance(c, ast.Call) and ctx.resolver.resolve(c, gh, None).funcs[:1] == [holder_f] for c in ast.walk(st)) \
                        and not isinstance(st, ast.Return):
                    tail += list(gh.node.body[i + 1:])
    else:
        body = gh.node.body
        loops = [i for i, st in enumerate(body) if isinstance(st, ast.For)]
        if not loops:
            loops = [max([i for i, st in enumerate(body) if any(isinstance(n, ast.Return) for n in ast.walk(st))] or [-1])]
        tail = body[loops[-1] + 1:]
    raises = [n for st in tail for n in ast.walk(st) if isinstance(n, ast.Raise)]
    problems = []
    if not raises:
        problems.append("no raise after the handler loop: a selector nobody takes gives None instead of FileNotFound")
    for r in raises:
        exc = r.exc.func if isinstance(r.exc, ast.Call) else r.exc
        if exc is None or not (dotted(exc) or "").endswith("FileNotFound"):
            problems.append(f"`{norm(r)[:60]}` is not a FileNotFound")
    SAFE_CALLS = ("str", "repr", "format", "len", "bool", "isinstance", "getattr", "hasattr", "type")
    for st in tail:
        for n in ast.walk(st):
            if isinstance(n, ast.Subscript) and isinstance(n.ctx, ast.Load) and not isinstance(n.slice, ast.Slice):
                idx = n.slice
                const_idx = isinstance(idx, ast.Constant) or (dotted(idx) or "").startswith("stat.ST_")
                if not const_idx:
                    problems.append(f"`{norm(n)[:50]}` looks a run-time value up in a table: a value that is not in it raises KeyError/IndexError, which the "
                                    "listing loops do not catch - one such entry takes the whole directory down")
            if isinstance(n, ast.Call):
                d = dotted(n.func) or ""
                last = d.split(".")[-1]
                if d.startswith("stat.S_") or last in SAFE_CALLS or d.endswith("FileNotFound") or d.endswith("logger.log") \
                        or (isinstance(n.func, ast.Attribute) and n.func.attr in ("get", "join", "format", "lower", "upper", "strip")):
                    continue
                if last in ("int", "float", "index", "decode", "encode", "pop", "remove", "next"):
                    problems.append(f"`{norm(n)[:50]}` can fail with an exception of another class on the way to the FileNotFound")
    rep.add(rule, f"{gh.qualname}: a selector nobody takes raises FileNotFound and nothing else", not problems, ctx.where(gh, raises[0]) if raises else ctx.where(gh),
            "; ".join(sorted(set(problems))[:2]), key=f"{rule}|getHandler")
